#!/usr/bin/env python3
"""False-alarm sweep: every behaviour-preserving refactor kept as a unified diff
under /verif/benign is applied to scratch copies of the files it touches, handed
to the checker through a go/packages overlay (nothing is written under /repo),
and all twenty properties are decided on it in one load. Any non-zero verdict
is printed.

usage: refactors.py [repo] [--prop C05] [--only B7] [--json out.json]
exit 0: every refactor was silent for every property; 2 otherwise.
"""
import glob, json, os, re, shutil, subprocess, sys, tempfile, concurrent.futures

VERIF = os.path.dirname(os.path.dirname(os.path.abspath(__file__)))
BIN = os.path.join(VERIF, 'bin', 'thunderlint')

def run(repo, diffpath, prop='all'):
    name = os.path.relpath(diffpath, os.path.join(VERIF, 'benign'))
    diff = open(diffpath).read()
    touched = re.findall(r'^\+\+\+ b/(\S+)', diff, re.M)
    td = tempfile.mkdtemp(prefix='refactor-')
    try:
        for rel in touched:
            os.makedirs(os.path.dirname(os.path.join(td, rel)), exist_ok=True)
            if os.path.exists(os.path.join(repo, rel)):
                shutil.copy(os.path.join(repo, rel), os.path.join(td, rel))
        pr = subprocess.run(['patch', '-p1', '-s', '-f', '-d', td], input=diff, capture_output=True, text=True)
        if pr.returncode != 0:
            return dict(name=name, status='skipped', why='patch does not apply')
        ov = []
        for rel in touched:
            ov += ['-overlay', os.path.join(repo, rel) + '=' + os.path.join(td, rel)]
        pr = subprocess.run([BIN, 'check', '-prop', prop, '-repo', repo, '-verif', VERIF, '-no-evidence'] + ov,
                            capture_output=True, text=True, timeout=900)
        out = pr.stdout + pr.stderr
    finally:
        shutil.rmtree(td, ignore_errors=True)
    # per-property verdicts (one load decides all properties)
    per = {}
    cur = []
    for l in out.splitlines():
        if l.startswith('  rule=') or l.startswith('ERROR') or l.startswith('VIOLATION'):
            cur.append(l)
        elif l.startswith('property='):
            pid = l.split()[0].split('=')[1]
            okl = ' violations=0 ' in l and ' undecided=0 ' in l
            per[pid] = [] if okl else [x for x in cur if not x.startswith('VIOLATION')] or [l]
            cur = []
    if cur:
        per.setdefault('?', []).extend(cur)
    bad = [l for l in out.splitlines() if l.startswith('  rule=') or l.startswith('ERROR')]
    return dict(name=name, status='silent' if pr.returncode == 0 else 'ALARM', rc=pr.returncode, lines=bad, per=per)

def tree_key(repo):
    """content hash of everything the sweep depends on: /repo's .go files and go.mod, the checker binary, the diffs"""
    import hashlib
    h = hashlib.sha1()
    files = []
    for root, dirs, fs in os.walk(repo):
        dirs[:] = [d for d in dirs if d not in ('.git', 'node_modules')]
        for f in fs:
            if f.endswith('.go') or f in ('go.mod', 'go.sum'):
                files.append(os.path.join(root, f))
    files += sorted(glob.glob(os.path.join(VERIF, 'benign', '*', '*.diff')))
    files += [BIN, os.path.join(VERIF, 'baseline_funcs.txt'), os.path.join(VERIF, 'known_findings.json')]
    for f in sorted(files):
        h.update(f.encode())
        try:
            h.update(open(f, 'rb').read())
        except OSError:
            pass
    return h.hexdigest()[:16]

def main():
    args = sys.argv[1:]
    only = None
    out_json = None
    if '--only' in args:
        i = args.index('--only'); only = args[i + 1]; del args[i:i + 2]
    if '--json' in args:
        i = args.index('--json'); out_json = args[i + 1]; del args[i:i + 2]
    prop = 'all'
    if '--prop' in args:
        i = args.index('--prop'); prop = args[i + 1]; del args[i:i + 2]
    repo = args[0] if args else '/repo'
    diffs = sorted(glob.glob(os.path.join(VERIF, 'benign', '*', '*.diff')))
    if only:
        diffs = [d for d in diffs if only in d]
    # One sweep decides every property; per-property invocations (the thorough tier of each
    # property) reuse it as long as /repo, the checker and the diffs are byte-identical.
    cache = None
    res = None
    if not only and os.environ.get('REFACTORS_NOCACHE', '') == '':
        os.makedirs(os.path.join(VERIF, 'out'), exist_ok=True)
        cache = os.path.join(VERIF, 'out', 'refactors-cache-%s.json' % tree_key(repo))
        if os.path.exists(cache):
            try:
                res = json.load(open(cache))
            except Exception:
                res = None
    if res is None:
        run_prop = 'all' if cache else prop
        with concurrent.futures.ThreadPoolExecutor(int(os.environ.get('VARIANT_JOBS', '12'))) as ex:
            res = list(ex.map(lambda d: run(repo, d, run_prop), diffs))
        if cache:
            for old in glob.glob(os.path.join(VERIF, 'out', 'refactors-cache-*.json')):
                try: os.unlink(old)
                except OSError: pass
            tmp = cache + '.%d' % os.getpid()
            json.dump(res, open(tmp, 'w'))
            os.replace(tmp, cache)
    if cache and prop != 'all':
        # project the all-properties sweep onto this property
        proj = []
        for r in res:
            if r['status'] == 'skipped':
                proj.append(r); continue
            lines = r.get('per', {}).get(prop)
            if lines is None:
                lines = r.get('per', {}).get('?', ['ERROR no verdict for ' + prop]) if r['status'] != 'silent' else []
            proj.append(dict(name=r['name'], status='silent' if not lines else 'ALARM', lines=lines))
        res = proj
    bad = [r for r in res if r['status'] == 'ALARM']
    for r in res:
        if r['status'] != 'silent':
            print('## %s: %s %s' % (r['name'], r['status'], r.get('why', '')))
            for l in r.get('lines', []):
                print('   ' + l[:int(os.environ.get('COLS', '400'))])
    print('refactors prop=%s total=%d silent=%d alarms=%d skipped=%d' % (
        prop, len(res), sum(r['status'] == 'silent' for r in res), len(bad), sum(r['status'] == 'skipped' for r in res)))
    if out_json:
        json.dump(dict(refactors_total=len(res), refactors_silent=sum(r['status'] == 'silent' for r in res),
                       refactors_alarm=[r['name'] for r in bad]), open(out_json, 'w'))
    sys.exit(2 if bad else 0)

main()
