#!/usr/bin/env python3
"""Self-test of the checker: apply each source variant of a property through a
go/packages overlay (no copy of /repo is made, nothing is written under /repo)
and require that the property's check reports it (breaking variants) or stays
silent (benign variants).

usage: variants.py <prop> [repo] [--json out.json] [--only name] [-v]
exit 0: all applicable variants behaved as expected; 2 otherwise.
"""
import json, os, re, shutil, subprocess, sys, tempfile, concurrent.futures, time, glob

VERIF = os.path.dirname(os.path.dirname(os.path.abspath(__file__)))
BIN = os.path.join(VERIF, 'bin', 'thunderlint')

def run_variant(prop, repo, v):
    edits = v.get('edits') or [{k: v[k] for k in ('file', 'old', 'new', 'regex', 'repl') if k in v}]
    overlays = []
    tmpfiles = []
    byfile = {}
    if v.get('patch'):
        # start from a behaviour-preserving refactor kept as a unified diff under /verif/benign
        # (applied to scratch copies of the files it touches; /repo is not written)
        diff = open(os.path.join(VERIF, v['patch'])).read()
        touched = re.findall(r'^\+\+\+ b/(\S+)', diff, re.M)
        td = tempfile.mkdtemp(prefix='variant-')
        try:
            for rel in touched:
                os.makedirs(os.path.dirname(os.path.join(td, rel)), exist_ok=True)
                if os.path.exists(os.path.join(repo, rel)):
                    shutil.copy(os.path.join(repo, rel), os.path.join(td, rel))
            pr = subprocess.run(['patch', '-p1', '-s', '-f', '-d', td], input=diff, capture_output=True, text=True)
            if pr.returncode != 0:
                return dict(name=v['name'], status='skipped', why='patch does not apply: ' + v['patch'])
            for rel in touched:
                byfile[os.path.join(repo, rel)] = open(os.path.join(td, rel)).read()
        finally:
            shutil.rmtree(td, ignore_errors=True)
        if not v.get('edits') and 'old' not in v and 'regex' not in v:
            edits = []
    for e in edits:
        path = os.path.join(repo, e['file'])
        src = byfile.get(path)
        if src is None:
            try:
                src = open(path).read()
            except OSError:
                return dict(name=v['name'], status='skipped', why='file missing: ' + e['file'])
        if 'regex' in e:
            # identifier renames and similar whole-file rewrites (benign variants)

            new_src, cnt = re.subn(e['regex'], e['repl'], src)
            if cnt == 0:
                return dict(name=v['name'], status='skipped', why='regex matches nothing in ' + e['file'])
            byfile[path] = new_src
            continue
        n = src.count(e['old'])
        if n != 1:
            return dict(name=v['name'], status='skipped', why='anchor text occurs %d times in %s' % (n, e['file']))
        byfile[path] = src.replace(e['old'], e['new'])
    for path, src in byfile.items():
        tf = tempfile.NamedTemporaryFile('w', suffix='.go', delete=False)
        tf.write(src); tf.close()
        tmpfiles.append(tf.name)
        overlays += ['-overlay', path + '=' + tf.name]
    try:
        t0 = time.time()
        pr = subprocess.run([BIN, 'check', '-prop', prop, '-repo', repo, '-verif', VERIF, '-no-evidence'] + overlays,
                            capture_output=True, text=True, timeout=600)
        out = pr.stdout + pr.stderr
    finally:
        for t in tmpfiles:
            os.unlink(t)
    benign = v.get('benign', False)
    res = dict(name=v['name'], rc=pr.returncode, wall=round(time.time() - t0, 1), benign=benign)
    if benign:
        res['status'] = 'ok' if pr.returncode == 0 else 'FALSE-ALARM'
        if pr.returncode != 0:
            res['output'] = out[-1500:]
        return res
    viol = [l for l in out.splitlines() if l.startswith('  rule=')]
    if pr.returncode == 1 and any(v['expect'] in l for l in viol):
        res['status'] = 'ok'
        res['reported'] = [l.strip()[:200] for l in viol if v['expect'] in l][:1]
    elif pr.returncode == 1:
        res['status'] = 'WRONG-CONSTRUCT'
        res['output'] = out[-1500:]
    else:
        res['status'] = 'MISSED'
        res['output'] = out[-1500:]
    return res

def main():
    args = sys.argv[1:]
    verbose = '-v' in args
    if verbose: args.remove('-v')
    out_json = None
    if '--json' in args:
        i = args.index('--json'); out_json = args[i + 1]; del args[i:i + 2]
    only = None
    if '--only' in args:
        i = args.index('--only'); only = args[i + 1]; del args[i:i + 2]
    prop = args[0]
    repo = args[1] if len(args) > 1 else '/repo'
    path = os.path.join(VERIF, 'variants', prop + '.json')
    variants = json.load(open(path)) if os.path.exists(path) else []
    # (the refactors under /verif/benign are swept by scripts/refactors.py)
    # every confirmed sub-agent regression of this property must be reported
    for m in sorted(glob.glob(os.path.join(VERIF, 'seeded', '*', 'meta.json'))):
        try:
            meta = json.load(open(m))
        except Exception:
            continue
        if meta.get('property') == prop and os.path.exists(os.path.join(os.path.dirname(m), 'patch.diff')):
            rel = os.path.relpath(os.path.join(os.path.dirname(m), 'patch.diff'), VERIF)
            variants.append(dict(name='seed-' + os.path.basename(os.path.dirname(m)), patch=rel, expect=''))
    if only:
        variants = [v for v in variants if v['name'] == only]
    workers = int(os.environ.get('VARIANT_JOBS', '6'))
    with concurrent.futures.ThreadPoolExecutor(workers) as ex:
        results = list(ex.map(lambda v: run_variant(prop, repo, v), variants))
    bad = [r for r in results if r['status'] not in ('ok', 'skipped')]
    summary = dict(variants_total=len(results),
                   variants_fired=sum(1 for r in results if r['status'] == 'ok' and not r.get('benign')),
                   variants_benign_silent=sum(1 for r in results if r['status'] == 'ok' and r.get('benign')),
                   variants_skipped=sum(1 for r in results if r['status'] == 'skipped'),
                   variants_failed=len(bad),
                   variant_results=[{k: r[k] for k in r if k != 'output'} for r in results])
    if out_json:
        json.dump(summary, open(out_json, 'w'))
    for r in results:
        if verbose or r['status'] not in ('ok',):
            print('variant %-45s %s %s' % (r['name'], r['status'], r.get('why', '')))
            if r.get('output'): print('    ' + r['output'].replace('\n', '\n    '))
    print('variants prop=%s total=%d fired=%d benign_silent=%d skipped=%d failed=%d' % (
        prop, summary['variants_total'], summary['variants_fired'], summary['variants_benign_silent'],
        summary['variants_skipped'], summary['variants_failed']))
    sys.exit(2 if bad else 0)

main()
