#!/bin/bash
# evalbenign.sh <ID>: apply each behaviour-preserving change /tmp/seed/<ID>.out/change*.diff to /repo,
# run every check (quick) and report any that does not exit 0 (= false alarm or undecided).
export GOFLAGS=-mod=mod GOPROXY=off GOSUMDB=off GOTOOLCHAIN=local; unset GOWORK
ID=$1; OUT=/tmp/seed/$ID.out
PROPS=$(/verif/bin/thunderlint list)
for d in $OUT/change*.diff $OUT/all.diff; do
  [ -s "$d" ] || continue
  cd /repo
  if ! git apply "$d" 2>/dev/null; then echo "## $(basename $d): does not apply"; continue; fi
  if ! go build ./... 2>/dev/null; then echo "## $(basename $d): does not build"; git checkout -q -- .; continue; fi
  res=$(echo $PROPS | tr ' ' '\n' | xargs -P 10 -I{} sh -c '/verif/bin/thunderlint check -prop {} -repo /repo -verif /verif -no-evidence > /tmp/benign.{}.out 2>&1; rc=$?; [ $rc -ne 0 ] && echo "{}:$rc"')
  git checkout -q -- .
  if [ -z "$res" ]; then echo "## $(basename $d): silent"; else
    echo "## $(basename $d): ALARMS $res"
    for r in $res; do p=${r%%:*}; grep -E "^(  rule=|ERROR)" /tmp/benign.$p.out | cut -c1-420; done
  fi
done
