#!/usr/bin/env python3
"""splitpatch.py <patch> : list hunks;  splitpatch.py <patch> <sel,sel,...> : emit a patch with the selected hunks (indices)"""
import sys,re
src=open(sys.argv[1]).read().split('\n')
hunks=[] # (fileheader lines, hunk lines)
i=0; fh=None
while i<len(src):
    l=src[i]
    if l.startswith('diff --git'):
        fh=[l]; i+=1
        while i<len(src) and not src[i].startswith('@@') and not src[i].startswith('diff --git'):
            fh.append(src[i]); i+=1
        continue
    if l.startswith('@@') and fh is not None:
        h=[l]; i+=1
        while i<len(src) and not src[i].startswith('@@') and not src[i].startswith('diff --git') and not src[i].startswith('-- '):
            h.append(src[i]); i+=1
        hunks.append((fh,h)); continue
    i+=1
if len(sys.argv)==2:
    for n,(fh,h) in enumerate(hunks): print(n,fh[0].split()[-1],h[0])
else:
    sel=[int(x) for x in sys.argv[2].split(',')]
    last=None
    for n in sel:
        fh,h=hunks[n]
        if fh is not last: print('\n'.join(fh)); last=fh
        print('\n'.join(h))
