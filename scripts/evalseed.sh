#!/bin/bash
# evalseed.sh <ID> <label>: confirm a sub-agent's seeded regression in its worktree /tmp/seed/<ID>
# (outputs in /tmp/seed/<ID>.out) and run every implemented check against it applied to /repo.
export GOFLAGS=-mod=mod GOPROXY=off GOSUMDB=off GOTOOLCHAIN=local; unset GOWORK
ID=$1; LABEL=${2:-$1}
WT=/tmp/seed/$ID; OUT=/tmp/seed/$ID.out
PATCH=$OUT/patch.diff
[ -s "$PATCH" ] || { echo "no patch"; exit 2; }
cd $WT || exit 2
# demo files = untracked files in the worktree
DEMOS=$(git ls-files --others --exclude-standard)
echo "demo files: $DEMOS"
PKGS=$(for f in $DEMOS; do dirname $f; done | sort -u | sed 's#^#./#')
# only the demonstration's own tests (package suites that need MySQL fail on their own)
RUNPAT=$(cat $DEMOS 2>/dev/null | grep -oE '^func (Test|Example)[A-Za-z0-9_]*' | awk '{print $2}' | paste -sd'|')
[ -n "$RUNPAT" ] && RUNFLAG="-run ^($RUNPAT)\$" || RUNFLAG=""
# normalise: start from clean tree + demos
git checkout -q -- . ; 
echo "== build+demo WITHOUT patch"; go build ./... && go test -vet=off -count=1 -timeout 120s $RUNFLAG $PKGS 2>&1 | tail -3
git apply $PATCH || { echo "patch does not apply"; exit 2; }
echo "== build+demo WITH patch"; go build ./... && go test -vet=off -count=1 -timeout 120s $RUNFLAG $PKGS 2>&1 | grep -E "^(--- FAIL|FAIL|ok|panic)" | head -8
echo "== suite WITH patch (demo moved aside)"
mkdir -p /tmp/seed/$ID.aside; for f in $DEMOS; do mv $f /tmp/seed/$ID.aside/$(echo $f | tr / _); done
/verif/scripts/runsuite.sh $WT
for f in $DEMOS; do mv /tmp/seed/$ID.aside/$(echo $f | tr / _) $f; done
echo "== checks against the worktree (patch applied; /repo is not touched)"
cd $WT
out=$(/verif/bin/thunderlint check -prop all -repo $WT -verif /verif -no-evidence 2>&1)
echo "$out" | grep -E "^(  rule=|ERROR|VIOLATION)" | cut -c1-400
echo "$out" | grep -E "^property=" | grep -v "violations=0 undecided=0"
echo "== done"
