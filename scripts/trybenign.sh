#!/bin/bash
# trybenign.sh <diff> [prop ...]: apply a behaviour-preserving change to /repo, run the given
# checks (default: all) without writing evidence, and revert. Prints the non-zero ones.
export GOFLAGS=-mod=mod GOPROXY=off GOSUMDB=off GOTOOLCHAIN=local; unset GOWORK
d=$(readlink -f "$1"); shift
PROPS="$*"; [ -z "$PROPS" ] && PROPS=$(/verif/bin/thunderlint list)
cd /repo
if [ -n "$(git status --porcelain)" ]; then echo "/repo is not clean"; exit 2; fi
if ! git apply "$d" 2>/dev/null; then echo "## $(basename $d): does not apply"; exit 0; fi
trap 'git -C /repo checkout -q -- .; git -C /repo clean -fdq' EXIT
if ! go build ./... 2>/dev/null; then echo "## $(basename $d): does not build"; exit 0; fi
tmp=$(mktemp -d)
res=$(echo $PROPS | tr ' ' '\n' | xargs -P 10 -I{} sh -c "/verif/bin/thunderlint check -prop {} -repo /repo -verif /verif -no-evidence > $tmp/{}.out 2>&1; rc=\$?; [ \$rc -ne 0 ] && echo {}:\$rc")
if [ -z "$res" ]; then echo "## $(basename $(dirname $d))/$(basename $d): silent"; else
  echo "## $(basename $(dirname $d))/$(basename $d): ALARMS $res"
  for r in $res; do p=${r%%:*}; grep -E "^(  rule=|ERROR)" $tmp/$p.out | cut -c1-${COLS:-420}; done
fi
rm -rf $tmp
