#!/bin/bash
# thorough tier: the quick analysis, plus the same analysis with GOARCH=386
# (other int width, arch-tagged files), plus the checker self-test (source
# variants through an overlay: every breaking variant must be reported on its
# construct, every benign variant must stay silent), plus the sweep over the
# behaviour-preserving refactors kept under benign/ (all must stay silent).
set -u
ID=$1; REPO=${2:-/repo}
VERIF=$(cd "$(dirname "$0")/.." && pwd)
BIN=$VERIF/bin/thunderlint
TMP=$(mktemp -d /tmp/thorough.XXXXXX)
trap 'rm -rf "$TMP"' EXIT
# 1. other architecture
"$BIN" check -prop "$ID" -tier thorough -repo "$REPO" -verif "$VERIF" -arch 386 -no-evidence > "$TMP/386.out" 2>&1
rc386=$?
# The self-test runs a dozen analyses at a time (about 1.4 GB each). Thorough runs of several
# properties started side by side take turns here instead of multiplying that; the refactor
# sweep is computed by whoever comes first and reused by the others (cache keyed by tree).
LOCK=${TMPDIR:-/tmp}/thunderlint-selftest.lock
run_locked() { if command -v flock >/dev/null 2>&1; then flock "$LOCK" "$@"; else "$@"; fi; }
# 2. variants
run_locked python3 "$VERIF/scripts/variants.py" "$ID" "$REPO" --json "$TMP/variants.json" > "$TMP/variants.out" 2>&1
rcvar=$?
# 2b. false-alarm sweep: the behaviour-preserving refactors under benign/ must leave this property silent
run_locked python3 "$VERIF/scripts/refactors.py" "$REPO" --prop "$ID" --json "$TMP/refactors.json" > "$TMP/refactors.out" 2>&1
rcref=$?
EXTRA=$(python3 - "$TMP/variants.json" "$rc386" "$TMP/refactors.json" <<'PY'
import json,sys
try: d=json.load(open(sys.argv[1]))
except Exception: d={}
d['goarch_386_exit']=int(sys.argv[2])
try: d.update(json.load(open(sys.argv[3])))
except Exception: pass
print(json.dumps(d))
PY
)
# 3. the verdict on the tree itself (writes the evidence)
THUNDERLINT_EXTRA="$EXTRA" "$BIN" check -prop "$ID" -tier thorough -repo "$REPO" -verif "$VERIF"
rc=$?
tail -1 "$TMP/variants.out"
tail -1 "$TMP/refactors.out"
if [ $rc -eq 1 ]; then exit 1; fi
if [ $rc386 -eq 1 ]; then grep -E '^(VIOLATION|  rule=)' "$TMP/386.out"; exit 1; fi
if [ $rc -ne 0 ]; then exit $rc; fi
if [ $rc386 -ne 0 ]; then cat "$TMP/386.out"; echo "ERROR property=$ID GOARCH=386 analysis failed"; exit 2; fi
if [ $rcvar -ne 0 ]; then cat "$TMP/variants.out"; echo "ERROR property=$ID checker self-test failed (a seeded variant was not reported, or a benign one was)"; exit 2; fi
if [ $rcref -ne 0 ]; then cat "$TMP/refactors.out"; echo "ERROR property=$ID checker self-test failed (a behaviour-preserving refactor under benign/ is reported)"; exit 2; fi
exit 0
