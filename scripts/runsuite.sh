#!/bin/bash
# Runs the pinned baseline suite on a tree (default /repo) and compares with BASELINE.json.
# usage: runsuite.sh [dir] [pkgs...]
export GOFLAGS=-mod=mod GOPROXY=off GOSUMDB=off GOTOOLCHAIN=local; unset GOWORK
dir=${1:-/repo}; shift
pkgs=${@:-./...}
out=$(mktemp /tmp/suite.XXXXXX.json)
(cd "$dir" && go test -json -vet=off -count=1 -timeout 25m $pkgs 2>/dev/null > "$out")
python3 - "$out" "$pkgs" <<'PY'
import json,sys
base=json.load(open('/root/.vp/BASELINE.json'))
stable=set(base['stable_pass']); af=set(base['always_fail'])
res={}; pk=set()
for line in open(sys.argv[1]):
    try: e=json.loads(line)
    except: continue
    if e.get('Package'): pk.add(e['Package'])
    if e.get('Test') and e.get('Action') in ('pass','fail','skip'):
        res[e['Package']+'::'+e['Test']]=e['Action']
if sys.argv[2]!='./...':
    stable={t for t in stable if t.split('::')[0] in pk}
bad=[t for t in stable if res.get(t)!='pass']
newfail=[t for t,a in res.items() if a=='fail' and t not in af]
print('stable',len(stable),'passing',sum(1 for t in stable if res.get(t)=='pass'),'regressed',len(bad),'newfail',len(newfail))
for t in sorted(set(bad+newfail))[:30]: print('  ',t,res.get(t))
sys.exit(1 if bad or newfail else 0)
PY
rc=$?
rm -f "$out"
exit $rc
