#!/opt/veriftools/pyvenv/bin/python
import json,jsonschema,glob,sys
jsonschema.validate(json.load(open('/verif/MANIFEST.json')), json.load(open('/root/.vp/MANIFEST.schema.json')))
es=json.load(open('/root/.vp/EVIDENCE.schema.json'))
m=json.load(open('/verif/MANIFEST.json'))
for c in m['checks']:
    try:
        jsonschema.validate(json.load(open(c['evidence_file'])), es)
    except Exception as e:
        print('BAD', c['evidence_file'], str(e)[:200]); sys.exit(1)
print('manifest + %d evidence files valid' % len(m['checks']))
