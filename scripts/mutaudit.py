#!/usr/bin/env python3
"""Self-audit of the checker by source mutation (not part of any registered command).

Phase 1: every mutant written by bin/mutate is handed to `thunderlint check -prop all`
through an overlay and classified: nocompile / detected (some property reports it) /
undecided / silent.
Phase 2 (--tests): silent mutants are applied in scratch worktrees and the tests of the
mutated package are run; mutants the tests do not notice either are the interesting ones.

usage: mutaudit.py <mutdir> [--tests] [--jobs N]
"""
import json, os, subprocess, sys, concurrent.futures, shutil, tempfile, re

VERIF = os.path.dirname(os.path.dirname(os.path.abspath(__file__)))
BIN = os.environ.get('THUNDERLINT_BIN') or os.path.join(VERIF, 'bin', 'thunderlint')
REPO = '/repo'

def phase1(m):
    pr = subprocess.run([BIN, 'check', '-prop', 'all', '-repo', REPO, '-verif', VERIF, '-no-evidence',
                         '-overlay', m['file'] + '=' + m['path']], capture_output=True, text=True, timeout=900)
    out = pr.stdout + pr.stderr
    if 'cannot load' in out or 'type errors' in out:
        m['status'] = 'nocompile'
    elif pr.returncode == 1:
        m['status'] = 'detected'
        m['by'] = sorted(set(re.findall(r'^VIOLATION property=(C\d+)', out, re.M)))
    elif pr.returncode == 2:
        m['status'] = 'undecided'
        m['by'] = sorted(set(re.findall(r'^ERROR property=(C\d+)', out, re.M)))
    else:
        m['status'] = 'silent'
    return m

def main():
    args = sys.argv[1:]
    mutdir = args[0]
    jobs = 12
    if '--jobs' in args:
        jobs = int(args[args.index('--jobs') + 1])
    idx = json.load(open(os.path.join(mutdir, 'index.json')))
    res_path = os.path.join(mutdir, 'phase1.json')
    if os.path.exists(res_path):
        idx = json.load(open(res_path))
    else:
        with concurrent.futures.ThreadPoolExecutor(jobs) as ex:
            idx = list(ex.map(phase1, idx))
        json.dump(idx, open(res_path, 'w'), indent=1)
    from collections import Counter
    print('phase1', dict(Counter(m['status'] for m in idx)))
    if '--tests' not in args:
        return
    silent = [m for m in idx if m['status'] == 'silent' and 'tests' not in m]
    env = dict(os.environ, GOFLAGS='-mod=mod', GOPROXY='off', GOSUMDB='off', GOTOOLCHAIN='local')
    env.pop('GOWORK', None)
    pool = []
    for k in range(8):
        wt = '/tmp/mutwt%d' % k
        if not os.path.exists(wt):
            subprocess.run(['git', '-C', REPO, 'worktree', 'add', '--detach', wt, 'HEAD'], capture_output=True)
        pool.append(wt)
    import queue
    q = queue.Queue()
    for w in pool: q.put(w)
    def phase2(m):
        wt = q.get()
        try:
            rel = os.path.relpath(m['file'], REPO)
            shutil.copy(m['path'], os.path.join(wt, rel))
            pkgdir = './' + os.path.dirname(rel) + '/...'
            pr = subprocess.run([os.path.join(VERIF, 'scripts', 'runsuite.sh'), wt, pkgdir], capture_output=True, text=True, env=env, timeout=1200)
            m['tests'] = 'pass' if pr.returncode == 0 else 'fail'
            m['tests_out'] = pr.stdout[-300:]
            subprocess.run(['git', '-C', wt, 'checkout', '-q', '--', '.'])
        except Exception as e:
            m['tests'] = 'error: %s' % e
            subprocess.run(['git', '-C', wt, 'checkout', '-q', '--', '.'])
        finally:
            q.put(wt)
        return m
    with concurrent.futures.ThreadPoolExecutor(8) as ex:
        list(ex.map(phase2, silent))
    json.dump(idx, open(res_path, 'w'), indent=1)
    surv = [m for m in idx if m['status'] == 'silent' and m.get('tests') == 'pass']
    print('silent', len([m for m in idx if m['status'] == 'silent']), 'of which the package tests also pass:', len(surv))
    for w in pool:
        subprocess.run(['git', '-C', REPO, 'worktree', 'remove', '--force', w], capture_output=True)

main()
