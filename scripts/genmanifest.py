#!/usr/bin/env python3
"""Regenerates /verif/MANIFEST.json from the per-property table below."""
import json, os, subprocess
VERIF = os.path.dirname(os.path.dirname(os.path.abspath(__file__)))
props = [json.loads(l) for l in open(os.path.join(VERIF, 'properties.jsonl'))]
meta = json.load(open(os.path.join(VERIF, 'scripts', 'manifest_meta.json')))
implemented = subprocess.run([os.path.join(VERIF, 'bin', 'thunderlint'), 'list'], capture_output=True, text=True).stdout.split()
checks, na = [], []
for p in props:
    pid = p['id']
    m = meta.get(pid, {})
    if pid in implemented and m.get('claim', True):
        checks.append({
            "property_id": pid,
            "quick_cmd": "./check %s quick" % pid,
            "thorough_cmd": "./check %s thorough" % pid,
            "evidence_file": "/verif/evidence/%s.json" % pid,
            "replay_cmd_template": "./check replay {path}",
            "engine": "thunderlint",
            "level_claimed": {
                "category": "other",
                "text": m['text'],
                "design_ref": "DESIGN.md section 4, " + pid,
            },
            "level_note": m.get('note', "Trusted: go/types + go/ssa (x/tools v0.29.0) lowering; anchors named in DESIGN.md denote the constructs they name; no reflection/linkname calls into the anchored functions; third-party packages behave as documented. Decides structural necessary conditions only, not the runtime behaviour."),
            "technique": m['technique'],
        })
    else:
        na.append({"property_id": pid, "reason": m.get('na_reason', "static checker for this property not built yet in this session; see DESIGN.md section 4 for the planned structural clauses")})
manifest = {
    "version": 1,
    "setup_cmd": "cd /verif/tool && GOFLAGS=-mod=mod GOPROXY=off GOSUMDB=off GOTOOLCHAIN=local go build -o ../bin/thunderlint ./cmd/thunderlint",
    "hooks": {
        "guard": "verif",
        "enable": "none needed: the source of /repo is analysed (go/packages + go/ssa), never instrumented or executed",
        "baseline_off_cmd": "cd /repo && GOFLAGS=-mod=mod go test -json -vet=off -count=1 -timeout 25m ./...",
        "source_commits": [],
        "add_only": True,
    },
    "engines": [{
        "name": "thunderlint",
        "path": "/verif/tool",
        "serves_properties": [c['property_id'] for c in checks],
        "kind_free_text": "custom static analysis over go/types + go/ssa (x/tools v0.29.0): must-pass-through / post-dominance on the SSA CFG, must-lockset, control-dependence guards, who-may-call / who-may-write, table agreement, provenance of indices; repository-specific rule instances",
    }],
    "checks": checks,
    "notes": "Every check re-loads /repo's working tree on each run and decides structural necessary conditions of the property (level 'other'); what is not decided is stated per property in DESIGN.md and in each evidence file. thorough = quick + GOARCH=386 re-analysis + checker self-test (breaking/benign source variants applied through a go/packages overlay). Genuine defects found on the pinned tree were repaired by 'fix:' commits in /repo and are listed in known_findings.json.",
    "not_applicable": na,
}
json.dump(manifest, open(os.path.join(VERIF, 'MANIFEST.json'), 'w'), indent=1)
print('claimed', [c['property_id'] for c in checks], 'n/a', len(na))
