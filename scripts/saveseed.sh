#!/bin/bash
# saveseed.sh <ID> <name> "<needs>" "<caught_by>" : copy a confirmed seed from /tmp/seed/<ID>.out into /verif/seeded/<name>
ID=$1; NAME=$2; NEEDS=$3; CAUGHT=$4; PROP=${5:-$ID}
D=/verif/seeded/$NAME; mkdir -p $D
cp /tmp/seed/$ID.out/patch.diff $D/patch.diff
cp /tmp/seed/$ID.out/demo_test.go $D/demo_test.go 2>/dev/null || cp -r /tmp/seed/$ID.out/demo $D/ 2>/dev/null
cp /tmp/seed/$ID.out/notes.md $D/notes.md 2>/dev/null
python3 - "$D" "$PROP" "$NEEDS" "$CAUGHT" <<'PY'
import json,sys
d,prop,needs,caught=sys.argv[1:5]
json.dump({"property":prop,"origin":"independent sub-agent given only the property text and a scratch worktree",
 "needs_to_manifest":needs,
 "confirmed":["patch applies to /repo HEAD and builds","baseline suite with patch: stable 398 passing 398 regressed 0 newfail 0 (scripts/runsuite.sh)","demonstration fails with the patch and passes without it (scripts/evalseed.sh)"],
 "checks_run":"every implemented ./check <id> quick with the patch applied to /repo (git apply; checks; git checkout -- .)",
 "caught_by":caught},open(d+'/meta.json','w'),indent=1)
PY
echo saved $D
