package an

import (
	"go/constant"
	"go/token"
	"go/types"
	"strings"

	"golang.org/x/tools/go/ssa"
)

// ---------------------------------------------------------------------------
// Instruction iteration

// Instrs calls f for every instruction of fn (not of nested closures).
func Instrs(fn *ssa.Function, f func(ssa.Instruction)) {
	for _, b := range fn.Blocks {
		for _, i := range b.Instrs {
			f(i)
		}
	}
}

// WithAnons returns fn and all functions nested in it.
func WithAnons(fn *ssa.Function) []*ssa.Function {
	out := []*ssa.Function{fn}
	for _, a := range fn.AnonFuncs {
		out = append(out, WithAnons(a)...)
	}
	return out
}

func idxIn(i ssa.Instruction) int {
	for k, j := range i.Block().Instrs {
		if j == i {
			return k
		}
	}
	return -1
}

// ---------------------------------------------------------------------------
// Callee description

// CalleeSpec identifies a callee: Pkg is a full import path ("" = any),
// Recv the receiver's named type ("" = package-level function, "*" = any),
// Name the function or method name.
type CalleeSpec struct {
	Pkg  string
	Recv string
	Name string
}

// Mod builds a CalleeSpec for a module-relative package.
func Mod(rel, recv, name string) CalleeSpec {
	p := ModulePath
	if rel != "" {
		p += "/" + rel
	}
	return CalleeSpec{Pkg: p, Recv: recv, Name: name}
}

func namedOf(t types.Type) *types.Named {
	for {
		switch x := t.(type) {
		case *types.Pointer:
			t = x.Elem()
			continue
		case *types.Named:
			return x
		case *types.Alias:
			t = types.Unalias(x)
			continue
		}
		return nil
	}
}

// CalleeFunc returns the *types.Func a call resolves to statically (function,
// concrete method, or interface method), or nil (dynamic call of a func value).
func CalleeFunc(c *ssa.CallCommon) *types.Func {
	if c.IsInvoke() {
		return c.Method
	}
	if f := c.StaticCallee(); f != nil {
		if o, ok := f.Object().(*types.Func); ok {
			return o
		}
		if f.Origin() != nil {
			if o, ok := f.Origin().Object().(*types.Func); ok {
				return o
			}
		}
	}
	return nil
}

// Matches reports whether the call's static callee is spec.
func (s CalleeSpec) Matches(c *ssa.CallCommon) bool {
	if b, ok := c.Value.(*ssa.Builtin); ok {
		return s.Pkg == "builtin" && s.Name == b.Name()
	}
	f := CalleeFunc(c)
	if f == nil {
		return false
	}
	return s.MatchesFunc(f)
}

// MatchesFunc reports whether f is the function described by s.
func (s CalleeSpec) MatchesFunc(f *types.Func) bool {
	if f.Name() != s.Name {
		return false
	}
	if s.Pkg != "" && (f.Pkg() == nil || f.Pkg().Path() != s.Pkg) {
		return false
	}
	sig := f.Type().(*types.Signature)
	if sig.Recv() == nil {
		return s.Recv == "" || s.Recv == "*"
	}
	if s.Recv == "*" {
		return true
	}
	n := namedOf(sig.Recv().Type())
	if n == nil {
		return false
	}
	return n.Obj().Name() == s.Recv
}

// CallOf returns the CallCommon of an instruction if it is a call, go or defer.
func CallOf(i ssa.Instruction) *ssa.CallCommon {
	if c, ok := i.(ssa.CallInstruction); ok {
		return c.Common()
	}
	return nil
}

// Calls returns the direct call instructions (not go / defer) in fn that match any spec.
func Calls(fn *ssa.Function, specs ...CalleeSpec) []ssa.Instruction {
	var out []ssa.Instruction
	for _, i := range CallsAny(fn, specs...) {
		if _, ok := i.(*ssa.Call); ok {
			out = append(out, i)
		}
	}
	return out
}

// CallsAny returns the call/go/defer instructions in fn that match any spec.
func CallsAny(fn *ssa.Function, specs ...CalleeSpec) []ssa.Instruction {
	var out []ssa.Instruction
	Instrs(fn, func(i ssa.Instruction) {
		c := CallOf(i)
		if c == nil {
			return
		}
		for _, s := range specs {
			if s.Matches(c) {
				out = append(out, i)
				return
			}
		}
	})
	return out
}

// CallsDeep is Calls over fn and its nested closures.
func CallsDeep(fn *ssa.Function, specs ...CalleeSpec) []ssa.Instruction {
	var out []ssa.Instruction
	for _, f := range WithAnons(fn) {
		out = append(out, Calls(f, specs...)...)
	}
	return out
}

// CallsToFunc returns the call instructions in fn whose static callee is target
// (also matches closures created with MakeClosure of target).
func CallsToFunc(fn *ssa.Function, target *ssa.Function) []ssa.Instruction {
	var out []ssa.Instruction
	Instrs(fn, func(i ssa.Instruction) {
		c := CallOf(i)
		if c == nil || c.IsInvoke() {
			return
		}
		if c.StaticCallee() == target {
			out = append(out, i)
		}
	})
	return out
}

// ---------------------------------------------------------------------------
// Reachability

// Blocker decides which instructions and edges stop a path.
type Blocker struct {
	Instr map[ssa.Instruction]bool
	Edge  map[[2]*ssa.BasicBlock]bool
}

func NewBlocker(instrs ...ssa.Instruction) *Blocker {
	b := &Blocker{Instr: map[ssa.Instruction]bool{}, Edge: map[[2]*ssa.BasicBlock]bool{}}
	for _, i := range instrs {
		b.Instr[i] = true
	}
	return b
}

func (b *Blocker) AddEdge(from, to *ssa.BasicBlock) { b.Edge[[2]*ssa.BasicBlock{from, to}] = true }

// Reach computes the instructions reachable from `from` (exclusive; nil = the
// function entry, inclusive of the first instruction) along paths that do not
// execute a blocked instruction and do not take a blocked edge. A blocked
// instruction itself is not in the result.
func Reach(fn *ssa.Function, from ssa.Instruction, blk *Blocker) map[ssa.Instruction]bool {
	if blk == nil {
		blk = NewBlocker()
	}
	seen := map[ssa.Instruction]bool{}
	entered := map[*ssa.BasicBlock]bool{}
	var work []*ssa.BasicBlock
	// scan runs through block b starting at index k; returns true when the end was reached.
	scan := func(b *ssa.BasicBlock, k int) bool {
		for ; k < len(b.Instrs); k++ {
			i := b.Instrs[k]
			if blk.Instr[i] {
				return false
			}
			seen[i] = true
		}
		return true
	}
	pushSuccs := func(b *ssa.BasicBlock) {
		for _, s := range b.Succs {
			if blk.Edge[[2]*ssa.BasicBlock{b, s}] {
				continue
			}
			if !entered[s] {
				entered[s] = true
				work = append(work, s)
			}
		}
	}
	if from == nil {
		if len(fn.Blocks) == 0 {
			return seen
		}
		entered[fn.Blocks[0]] = true
		work = append(work, fn.Blocks[0])
	} else {
		b := from.Block()
		if scan(b, idxIn(from)+1) {
			pushSuccs(b)
		}
	}
	for len(work) > 0 {
		b := work[len(work)-1]
		work = work[:len(work)-1]
		if scan(b, 0) {
			pushSuccs(b)
		}
	}
	return seen
}

// Exits returns the Return instructions (and, if withPanic, Panic instructions) of fn.
func Exits(fn *ssa.Function, withPanic bool) []ssa.Instruction {
	var out []ssa.Instruction
	Instrs(fn, func(i ssa.Instruction) {
		switch i.(type) {
		case *ssa.Return:
			out = append(out, i)
		case *ssa.Panic:
			if withPanic {
				out = append(out, i)
			}
		}
	})
	return out
}

// ReachableAvoiding reports the first target instruction reachable from `from`
// without passing any of `through` (nil if none): the must-pass-through test.
func ReachableAvoiding(fn *ssa.Function, from ssa.Instruction, blk *Blocker, targets []ssa.Instruction) ssa.Instruction {
	r := Reach(fn, from, blk)
	for _, t := range targets {
		if r[t] {
			return t
		}
	}
	return nil
}

// ---------------------------------------------------------------------------
// Error-tested calls: success edges

// ErrResult returns the SSA value holding the error result of call instruction
// c (the call itself for a single error result, the Extract for tuples), or nil.
func ErrResult(c ssa.Value) []ssa.Value {
	var out []ssa.Value
	if isErrorType(c.Type()) {
		out = append(out, c)
	}
	if tup, ok := c.Type().(*types.Tuple); ok {
		for _, r := range *c.Referrers() {
			if ex, ok := r.(*ssa.Extract); ok && isErrorType(tup.At(ex.Index).Type()) {
				out = append(out, ex)
			}
		}
	}
	return out
}

func isErrorType(t types.Type) bool {
	n, ok := t.(*types.Named)
	return ok && n.Obj().Pkg() == nil && n.Obj().Name() == "error"
}

// IsErrorType is exported for props.
func IsErrorType(t types.Type) bool { return isErrorType(t) }

// flowsTo follows v through phis, ChangeInterface/MakeInterface and stores into
// local allocs that are loaded later (named results / `err =` assignment), and
// returns the set of values that may carry v.
func flowsTo(v ssa.Value) map[ssa.Value]bool {
	seen := map[ssa.Value]bool{}
	var walk func(ssa.Value)
	walk = func(x ssa.Value) {
		if x == nil || seen[x] {
			return
		}
		seen[x] = true
		refs := x.Referrers()
		if refs == nil {
			return
		}
		for _, r := range *refs {
			switch r := r.(type) {
			case *ssa.Phi:
				walk(r)
			case *ssa.ChangeInterface:
				walk(r)
			case *ssa.Store:
				if r.Val == x {
					if a, ok := r.Addr.(*ssa.Alloc); ok {
						for _, ar := range *a.Referrers() {
							if u, ok := ar.(*ssa.UnOp); ok && u.Op == token.MUL {
								walk(u)
							}
						}
					}
				}
			}
		}
	}
	walk(v)
	return seen
}

// NilTest describes an If on `v == nil` / `v != nil`.
type NilTest struct {
	If      *ssa.If
	NilSucc *ssa.BasicBlock // successor taken when v is nil
	NonNil  *ssa.BasicBlock
}

// NilTests finds the If instructions in fn that compare a carrier of v with nil.
func NilTests(fn *ssa.Function, v ssa.Value) []NilTest {
	carriers := flowsTo(v)
	var out []NilTest
	for _, b := range fn.Blocks {
		if len(b.Instrs) == 0 {
			continue
		}
		iff, ok := b.Instrs[len(b.Instrs)-1].(*ssa.If)
		if !ok {
			continue
		}
		bo, ok := iff.Cond.(*ssa.BinOp)
		if !ok || (bo.Op != token.EQL && bo.Op != token.NEQ) {
			continue
		}
		var other ssa.Value
		if carriers[bo.X] {
			other = bo.Y
		} else if carriers[bo.Y] {
			other = bo.X
		} else {
			continue
		}
		if c, ok := other.(*ssa.Const); !ok || !c.IsNil() {
			continue
		}
		nt := NilTest{If: iff}
		if bo.Op == token.EQL {
			nt.NilSucc, nt.NonNil = b.Succs[0], b.Succs[1]
		} else {
			nt.NilSucc, nt.NonNil = b.Succs[1], b.Succs[0]
		}
		out = append(out, nt)
	}
	return out
}

// EqTest describes an If on `x == y` / `x != y`.
type EqTest struct {
	If     *ssa.If
	Eq, Ne *ssa.BasicBlock // successors taken when the operands are equal / differ
	X, Y   ssa.Value       // in the order match accepted them
}

// EqTests finds the Ifs whose condition is an (in)equality of two operands
// accepted by match (tried in both orders); == and != are treated alike.
func EqTests(fn *ssa.Function, match func(x, y ssa.Value) bool) []EqTest {
	var out []EqTest
	for _, b := range fn.Blocks {
		if len(b.Instrs) == 0 {
			continue
		}
		iff, ok := b.Instrs[len(b.Instrs)-1].(*ssa.If)
		if !ok {
			continue
		}
		bo, ok := iff.Cond.(*ssa.BinOp)
		if !ok || (bo.Op != token.EQL && bo.Op != token.NEQ) {
			continue
		}
		x, y := bo.X, bo.Y
		if !match(x, y) {
			x, y = y, x
			if !match(x, y) {
				continue
			}
		}
		t := EqTest{If: iff, X: x, Y: y}
		if bo.Op == token.EQL {
			t.Eq, t.Ne = b.Succs[0], b.Succs[1]
		} else {
			t.Eq, t.Ne = b.Succs[1], b.Succs[0]
		}
		out = append(out, t)
	}
	return out
}

// NilTestsWhere finds the Ifs comparing a value accepted by match with nil.
func NilTestsWhere(fn *ssa.Function, match func(v ssa.Value) bool) []NilTest {
	var out []NilTest
	for _, b := range fn.Blocks {
		if len(b.Instrs) == 0 {
			continue
		}
		iff, ok := b.Instrs[len(b.Instrs)-1].(*ssa.If)
		if !ok {
			continue
		}
		bo, ok := iff.Cond.(*ssa.BinOp)
		if !ok || (bo.Op != token.EQL && bo.Op != token.NEQ) {
			continue
		}
		var subj ssa.Value
		if c, ok := bo.Y.(*ssa.Const); ok && c.IsNil() {
			subj = bo.X
		} else if c, ok := bo.X.(*ssa.Const); ok && c.IsNil() {
			subj = bo.Y
		}
		if subj == nil || !match(subj) {
			continue
		}
		nt := NilTest{If: iff}
		if bo.Op == token.EQL {
			nt.NilSucc, nt.NonNil = b.Succs[0], b.Succs[1]
		} else {
			nt.NilSucc, nt.NonNil = b.Succs[1], b.Succs[0]
		}
		out = append(out, nt)
	}
	return out
}

// BlockFailureEdges adds to blk, for every error-returning call in `checks`,
// (a) the call instruction is NOT blocked, but (b) every successor edge taken
// when its error is nil is blocked. A check call whose error is never tested
// contributes nothing (so everything after it stays reachable = unchecked).
// It returns the number of success edges found.
func BlockSuccessEdges(fn *ssa.Function, blk *Blocker, checks []ssa.Instruction) int {
	n := 0
	for _, c := range checks {
		v, ok := c.(ssa.Value)
		if !ok {
			continue
		}
		for _, e := range ErrResult(v) {
			for _, nt := range NilTests(fn, e) {
				blk.AddEdge(nt.If.Block(), nt.NilSucc)
				n++
			}
		}
	}
	return n
}

// ---------------------------------------------------------------------------
// Guards (control dependence through dominating Ifs)

// Guard is a condition known to hold (Polarity true) or not hold at a block.
type Guard struct {
	Cond     ssa.Value
	Polarity bool
	If       *ssa.If
}

// GuardsOf returns the conditions of dominating Ifs whose branch choice is
// implied at block b: for a dominating If in block d, b must be dominated by
// exactly one successor s of d, and s must have d as its only predecessor.
func GuardsOf(b *ssa.BasicBlock) []Guard {
	var out []Guard
	for d := b.Idom(); d != nil; d = d.Idom() {
		if len(d.Instrs) == 0 {
			continue
		}
		iff, ok := d.Instrs[len(d.Instrs)-1].(*ssa.If)
		if !ok {
			continue
		}
		for k, s := range d.Succs {
			if len(s.Preds) == 1 && (s == b || s.Dominates(b)) {
				other := d.Succs[1-k]
				if other == s {
					continue
				}
				out = append(out, Guard{Cond: iff.Cond, Polarity: k == 0, If: iff})
			}
		}
	}
	return out
}

// ---------------------------------------------------------------------------
// Access paths

// PathOf renders an SSA value as an access path rooted at a parameter, free
// variable, global or local allocation: "c.mu", "bctx.pendingBatchGroups".
// Loads are transparent. Returns "" if no path can be formed.
func PathOf(v ssa.Value) string {
	switch x := v.(type) {
	case *ssa.Parameter:
		return x.Name()
	case *ssa.FreeVar:
		return x.Name()
	case *ssa.Global:
		return x.Name()
	case *ssa.Alloc:
		if x.Comment != "" {
			return x.Comment
		}
		return ""
	case *ssa.UnOp:
		if x.Op == token.MUL {
			return PathOf(x.X)
		}
	case *ssa.FieldAddr:
		base := PathOf(x.X)
		if base == "" {
			return ""
		}
		return base + "." + fieldName(x.X.Type(), x.Field)
	case *ssa.Field:
		base := PathOf(x.X)
		if base == "" {
			return ""
		}
		return base + "." + fieldName(x.X.Type(), x.Field)
	case *ssa.ChangeType:
		return PathOf(x.X)
	case *ssa.MakeInterface:
		return PathOf(x.X)
	case *ssa.IndexAddr:
		base := PathOf(x.X)
		if base == "" {
			return ""
		}
		return base + "[" + indexString(x.Index) + "]"
	case *ssa.Index:
		base := PathOf(x.X)
		if base == "" {
			return ""
		}
		return base + "[" + indexString(x.Index) + "]"
	case *ssa.Phi:
		// a phi all of whose edges are one path is that path
		p := ""
		for _, e := range x.Edges {
			q := PathOf(e)
			if q == "" || (p != "" && p != q) {
				return ""
			}
			p = q
		}
		return p
	}
	return ""
}

func fieldName(t types.Type, idx int) string {
	if p, ok := t.Underlying().(*types.Pointer); ok {
		t = p.Elem()
	}
	if s, ok := t.Underlying().(*types.Struct); ok && idx < s.NumFields() {
		return s.Field(idx).Name()
	}
	return "?"
}

// FieldOf reports whether v is (a load of) field `field` of named struct type
// `typ` (any package), returning the FieldAddr/Field base path.
func IsFieldAccess(v ssa.Value, typ, field string) bool {
	switch x := v.(type) {
	case *ssa.UnOp:
		if x.Op == token.MUL {
			return IsFieldAccess(x.X, typ, field)
		}
	case *ssa.FieldAddr:
		n := namedOf(x.X.Type())
		return n != nil && n.Obj().Name() == typ && fieldName(x.X.Type(), x.Field) == field
	case *ssa.Field:
		n := namedOf(x.X.Type())
		return n != nil && n.Obj().Name() == typ && fieldName(x.X.Type(), x.Field) == field
	}
	return false
}

// ---------------------------------------------------------------------------
// Locks

// LockOp classifies a call as a mutex operation on an access path.
type LockOp struct {
	Path    string
	Acquire bool
	Read    bool // RLock/RUnlock
	Recv    ssa.Value
}

func lockOp(c *ssa.CallCommon) (LockOp, bool) {
	f := CalleeFunc(c)
	if f == nil || f.Pkg() == nil || f.Pkg().Path() != "sync" {
		return LockOp{}, false
	}
	sig := f.Type().(*types.Signature)
	if sig.Recv() == nil {
		return LockOp{}, false
	}
	n := namedOf(sig.Recv().Type())
	if n == nil || (n.Obj().Name() != "Mutex" && n.Obj().Name() != "RWMutex") {
		return LockOp{}, false
	}
	var op LockOp
	switch f.Name() {
	case "Lock":
		op.Acquire = true
	case "Unlock":
	case "RLock":
		op.Acquire, op.Read = true, true
	case "RUnlock":
		op.Read = true
	default:
		return LockOp{}, false
	}
	var recv ssa.Value
	if c.IsInvoke() {
		recv = c.Value
	} else if len(c.Args) > 0 {
		recv = c.Args[0]
	}
	op.Path = PathOf(recv)
	if op.Path == "" {
		// no parameter/local root (e.g. a value taken from a context): fall back to
		// the canonical expression when it is fully resolved
		if e := strings.TrimPrefix(Expr(recv), "&"); !strings.Contains(e, "?") {
			op.Path = e
		}
	}
	op.Recv = recv
	if op.Read {
		op.Path += "^R"
	}
	return op, true
}

// LockSets is the result of the must-lockset analysis of one function.
type LockSets struct {
	fn   *ssa.Function
	in   map[*ssa.BasicBlock]map[string]bool
	recv map[string]ssa.Value
	// Unresolved counts lock operations whose receiver has no access path.
	Unresolved int
}

// ComputeLocks runs a forward must analysis: a lock path is held at a point if
// it is held on every path from entry. `defer mu.Unlock()` keeps the lock
// until the function returns. entry gives locks held on entry (may be nil).
func ComputeLocks(fn *ssa.Function, entry []string) *LockSets {
	ls := &LockSets{fn: fn, in: map[*ssa.BasicBlock]map[string]bool{}, recv: map[string]ssa.Value{}}
	if len(fn.Blocks) == 0 {
		return ls
	}
	Instrs(fn, func(i ssa.Instruction) {
		if c := CallOf(i); c != nil {
			if op, ok := lockOp(c); ok {
				ls.recv[op.Path] = op.Recv
			}
		}
	})
	e := map[string]bool{}
	for _, p := range entry {
		e[p] = true
	}
	ls.in[fn.Blocks[0]] = e
	work := []*ssa.BasicBlock{fn.Blocks[0]}
	for len(work) > 0 {
		b := work[0]
		work = work[1:]
		cur := copySet(ls.in[b])
		for _, i := range b.Instrs {
			ls.transfer(cur, i, false)
		}
		for _, s := range b.Succs {
			old, ok := ls.in[s]
			if !ok {
				ls.in[s] = copySet(cur)
				work = append(work, s)
				continue
			}
			changed := false
			for k := range old {
				if !cur[k] {
					delete(old, k)
					changed = true
				}
			}
			if changed {
				work = append(work, s)
			}
		}
	}
	// count unresolved
	Instrs(fn, func(i ssa.Instruction) {
		if c := CallOf(i); c != nil {
			if op, ok := lockOp(c); ok && strings.TrimSuffix(op.Path, "^R") == "" {
				ls.Unresolved++
			}
		}
	})
	return ls
}

func copySet(m map[string]bool) map[string]bool {
	o := make(map[string]bool, len(m))
	for k := range m {
		o[k] = true
	}
	return o
}

func (ls *LockSets) transfer(cur map[string]bool, i ssa.Instruction, _ bool) {
	switch i.(type) {
	case *ssa.Call:
		c := CallOf(i)
		if op, ok := lockOp(c); ok {
			if op.Acquire {
				cur[op.Path] = true
			} else {
				delete(cur, op.Path)
			}
		}
	}
	// *ssa.Defer of Unlock: the lock stays held until exit. *ssa.Go: separate goroutine.
}

// HeldAt returns the set of lock paths held immediately before instruction i.
func (ls *LockSets) HeldAt(i ssa.Instruction) map[string]bool {
	b := i.Block()
	in, ok := ls.in[b]
	if !ok {
		return map[string]bool{} // unreachable
	}
	cur := copySet(in)
	for _, j := range b.Instrs {
		if j == i {
			break
		}
		ls.transfer(cur, j, false)
	}
	return cur
}

// Held reports whether lock path p is held at i.
func (ls *LockSets) Held(i ssa.Instruction, p string) bool { return ls.HeldAt(i)[p] }

// SameSection reports whether i and j are in one critical section of lock p:
// p is held at both, j is reachable from i, and no Unlock of p is reachable
// from i before j (checked by blocking unlocks of p and requiring j still
// reachable, and requiring no path from i to j through an unlock).
func (ls *LockSets) SameSection(i, j ssa.Instruction, p string) bool {
	if !ls.Held(i, p) || !ls.Held(j, p) {
		return false
	}
	// Any path i -> unlock(p) -> j ?
	var unlocks []ssa.Instruction
	Instrs(ls.fn, func(k ssa.Instruction) {
		if _, isCall := k.(*ssa.Call); !isCall {
			return
		}
		if op, ok := lockOp(CallOf(k)); ok && !op.Acquire && op.Path == p {
			unlocks = append(unlocks, k)
		}
	})
	fromI := Reach(ls.fn, i, nil)
	if !fromI[j] && i != j {
		// allow either order
		fromJ := Reach(ls.fn, j, nil)
		if !fromJ[i] {
			return false
		}
		i, j = j, i
		fromI = fromJ
	}
	for _, u := range unlocks {
		if fromI[u] {
			if Reach(ls.fn, u, nil)[j] {
				// is there a path i->u->j that does not re-pass i? conservative: yes
				// unless j is not reachable from i when u is blocked... we want "no unlock between":
				r := Reach(ls.fn, i, NewBlocker(u))
				if !r[j] {
					return false
				}
				// j reachable both with and without u: loops. Check that u cannot
				// reach j without passing i again.
				r2 := Reach(ls.fn, u, NewBlocker(i))
				if r2[j] {
					return false
				}
			}
		}
	}
	return true
}

// LockCalls lists lock operations in fn.
func LockCalls(fn *ssa.Function) (ops []LockOp, instrs []ssa.Instruction) {
	Instrs(fn, func(i ssa.Instruction) {
		if c := CallOf(i); c != nil {
			if op, ok := lockOp(c); ok {
				ops = append(ops, op)
				instrs = append(instrs, i)
			}
		}
	})
	return
}

// ---------------------------------------------------------------------------
// Channel operations

// ChanOp is a channel operation in a function.
type ChanOp struct {
	Instr ssa.Instruction
	Chan  ssa.Value
	Kind  string // "send", "recv", "select-send", "select-recv", "close", "len", "cap", "range"
}

// ChanOps lists the channel operations of fn.
func ChanOps(fn *ssa.Function) []ChanOp {
	var out []ChanOp
	isChan := func(v ssa.Value) bool {
		_, ok := v.Type().Underlying().(*types.Chan)
		return ok
	}
	Instrs(fn, func(i ssa.Instruction) {
		switch x := i.(type) {
		case *ssa.Send:
			out = append(out, ChanOp{i, x.Chan, "send"})
		case *ssa.UnOp:
			if x.Op == token.ARROW {
				out = append(out, ChanOp{i, x.X, "recv"})
			}
		case *ssa.Select:
			for _, st := range x.States {
				k := "select-recv"
				if st.Dir == types.SendOnly {
					k = "select-send"
				}
				out = append(out, ChanOp{i, st.Chan, k})
			}
		case *ssa.Range:
			if isChan(x.X) {
				out = append(out, ChanOp{i, x.X, "range"})
			}
		default:
			if c := CallOf(i); c != nil {
				if b, ok := c.Value.(*ssa.Builtin); ok && len(c.Args) == 1 && isChan(c.Args[0]) {
					switch b.Name() {
					case "close", "len", "cap":
						out = append(out, ChanOp{i, c.Args[0], b.Name()})
					}
				}
			}
		}
	})
	return out
}

// InCycle reports whether instruction i can reach itself.
func InCycle(fn *ssa.Function, i ssa.Instruction) bool { return Reach(fn, i, nil)[i] }

// ExactlyOnce checks that on every path from entry to a return exactly one of
// the target instructions executes. It returns "" when that holds, else a reason.
func ExactlyOnce(fn *ssa.Function, targets []ssa.Instruction) string {
	if len(targets) == 0 {
		return "no target site"
	}
	blk := NewBlocker(targets...)
	r := Reach(fn, nil, blk)
	for _, e := range Exits(fn, false) {
		if r[e] {
			return "a return is reachable without passing the site"
		}
	}
	for _, t := range targets {
		after := Reach(fn, t, nil)
		for _, u := range targets {
			if after[u] {
				return "the site can execute more than once on one path"
			}
		}
	}
	return ""
}

// ConstInt returns the integer value of an SSA constant.
func ConstInt(v ssa.Value) (int64, bool) {
	c, ok := v.(*ssa.Const)
	if !ok || c.Value == nil {
		return 0, false
	}
	if c.Value.Kind() != constant.Int {
		return 0, false
	}
	n, ok := constant.Int64Val(c.Value)
	return n, ok
}

// PkgConstInt returns the value of a package-level integer constant.
func PkgConstInt(pkg *types.Package, name string) (int64, bool) {
	c, ok := pkg.Scope().Lookup(name).(*types.Const)
	if !ok {
		return 0, false
	}
	n, ok := constant.Int64Val(c.Val())
	return n, ok
}

// Unload strips a pointer load.
func Unload(v ssa.Value) ssa.Value {
	if u, ok := v.(*ssa.UnOp); ok && u.Op == token.MUL {
		return u.X
	}
	return v
}

// NamedOf exports namedOf.
func NamedOf(t types.Type) *types.Named { return namedOf(t) }

// FieldName exports fieldName.
func FieldName(t types.Type, idx int) string { return fieldName(t, idx) }

// QualName names a function within its package: "Name", "(*T).Name", "(*T).Name$1".
func QualName(f *ssa.Function) string {
	if f.Parent() != nil {
		// anonymous: parent name + $index
		par := f.Parent()
		for k, a := range par.AnonFuncs {
			if a == f {
				return QualName(par) + "$" + itoa(k+1)
			}
		}
		return QualName(par) + "$?"
	}
	if sig := f.Signature; sig != nil && sig.Recv() != nil {
		t := sig.Recv().Type()
		if p, ok := t.(*types.Pointer); ok {
			if n := namedOf(p.Elem()); n != nil {
				return "(*" + n.Obj().Name() + ")." + f.Name()
			}
		}
		if n := namedOf(t); n != nil {
			return n.Obj().Name() + "." + f.Name()
		}
	}
	return f.Name()
}

func itoa(n int) string {
	if n == 0 {
		return "0"
	}
	s := ""
	for n > 0 {
		s = string(rune('0'+n%10)) + s
		n /= 10
	}
	return s
}

// StripConv removes ChangeType / ChangeInterface / MakeInterface / Convert wrappers.
func StripConv(v ssa.Value) ssa.Value {
	for {
		switch x := v.(type) {
		case *ssa.ChangeType:
			v = x.X
		case *ssa.ChangeInterface:
			v = x.X
		case *ssa.MakeInterface:
			v = x.X
		default:
			return v
		}
	}
}

// ---------------------------------------------------------------------------
// Field accesses

// FieldRef is an access to a struct field.
type FieldRef struct {
	Instr ssa.Instruction // the load, store, or other user
	Addr  ssa.Value       // FieldAddr / Field
	Kind  string          // "load", "store", "addr" (address escapes to another use)
	Val   ssa.Value       // stored value for stores
}

// FieldRefs lists accesses in fn to field `field` of named type `typ` (any package;
// pkgPath "" = any).
func FieldRefs(fn *ssa.Function, pkgPath, typ, field string) []FieldRef {
	var out []FieldRef
	Instrs(fn, func(i ssa.Instruction) {
		switch x := i.(type) {
		case *ssa.FieldAddr:
			if !isNamedField(x.X.Type(), x.Field, pkgPath, typ, field) {
				return
			}
			refs := x.Referrers()
			if refs == nil {
				return
			}
			for _, r := range *refs {
				switch r := r.(type) {
				case *ssa.UnOp:
					if r.Op == token.MUL {
						out = append(out, FieldRef{r, x, "load", nil})
						continue
					}
					out = append(out, FieldRef{r, x, "addr", nil})
				case *ssa.Store:
					if r.Addr == x {
						out = append(out, FieldRef{r, x, "store", r.Val})
					} else {
						out = append(out, FieldRef{r, x, "addr", nil})
					}
				case *ssa.DebugRef:
				default:
					out = append(out, FieldRef{r, x, "addr", nil})
				}
			}
		case *ssa.Field:
			if isNamedField(x.X.Type(), x.Field, pkgPath, typ, field) {
				out = append(out, FieldRef{x, x, "load", nil})
			}
		}
	})
	return out
}

func isNamedField(t types.Type, idx int, pkgPath, typ, field string) bool {
	n := namedOf(t)
	if n == nil || n.Obj().Name() != typ {
		return false
	}
	if pkgPath != "" && (n.Obj().Pkg() == nil || n.Obj().Pkg().Path() != pkgPath) {
		return false
	}
	return fieldName(t, idx) == field
}

// LeafLoads returns the load instructions (and len/cap calls) that a value is
// computed from, walking through arithmetic, negation, conversions and phis.
func LeafLoads(v ssa.Value) []ssa.Instruction {
	var out []ssa.Instruction
	seen := map[ssa.Value]bool{}
	var walk func(ssa.Value)
	walk = func(x ssa.Value) {
		if x == nil || seen[x] {
			return
		}
		seen[x] = true
		switch y := x.(type) {
		case *ssa.UnOp:
			if y.Op == token.MUL {
				out = append(out, y)
				return
			}
			walk(y.X)
		case *ssa.BinOp:
			walk(y.X)
			walk(y.Y)
		case *ssa.Phi:
			for k, e := range y.Edges {
				walk(e)
				// short-circuit && / ||: the left operand is the If condition of the predecessor
				if c, ok := e.(*ssa.Const); ok && c.Value != nil && isBool(y.Type()) {
					pred := y.Block().Preds[k]
					if iff, ok := pred.Instrs[len(pred.Instrs)-1].(*ssa.If); ok {
						walk(iff.Cond)
					}
				}
			}
		case *ssa.Convert:
			walk(y.X)
		case *ssa.ChangeType:
			walk(y.X)
		case *ssa.Call:
			if b, ok := y.Call.Value.(*ssa.Builtin); ok && (b.Name() == "len" || b.Name() == "cap") {
				out = append(out, y)
				walk(y.Call.Args[0])
			} else {
				out = append(out, y)
			}
		case *ssa.Lookup:
			out = append(out, y)
		case *ssa.Extract:
			walk(y.Tuple)
		}
	}
	walk(v)
	return out
}

// DynCallsThrough returns calls in fn whose callee value is a load of the given field.
func DynCallsThrough(fn *ssa.Function, typ, field string) []ssa.Instruction {
	var out []ssa.Instruction
	Instrs(fn, func(i ssa.Instruction) {
		c := CallOf(i)
		if c == nil || c.IsInvoke() {
			return
		}
		if IsFieldAccess(c.Value, typ, field) {
			out = append(out, i)
		}
	})
	return out
}

// IsRangeIndex reports whether v is the induction value of a loop that visits
// 0, 1, 2, ... below a bound: the t+1 of the rangeindex phi of `for i := range
// slice`, or the phi of an explicit `for i := 0; i < bound; i++` whose only
// update is the increment.
func IsRangeIndex(v ssa.Value) bool {
	switch x := v.(type) {
	case *ssa.BinOp:
		if x.Op != token.ADD {
			return false
		}
		phi, ok := x.X.(*ssa.Phi)
		if !ok || phi.Comment != "rangeindex" {
			return false
		}
		n, ok := ConstInt(x.Y)
		return ok && n == 1
	case *ssa.Phi:
		return countingPhiBound(x) != nil
	}
	return false
}

// countingPhiBound returns the bound B of `for i := 0; i < B; i++` for its phi, or nil.
func countingPhiBound(phi *ssa.Phi) ssa.Value {
	if len(phi.Edges) != 2 || phi.Comment == "rangeindex" {
		return nil
	}
	var init, step ssa.Value
	for _, e := range phi.Edges {
		if n, ok := ConstInt(e); ok && n == 0 && init == nil {
			init = e
		} else {
			step = e
		}
	}
	if init == nil || step == nil {
		return nil
	}
	bo, ok := step.(*ssa.BinOp)
	if !ok || bo.Op != token.ADD || bo.X != ssa.Value(phi) {
		return nil
	}
	if n, ok := ConstInt(bo.Y); !ok || n != 1 {
		return nil
	}
	b := phi.Block()
	iff, ok := b.Instrs[len(b.Instrs)-1].(*ssa.If)
	if !ok {
		return nil
	}
	cmp, ok := iff.Cond.(*ssa.BinOp)
	if !ok || cmp.Op != token.LSS || cmp.X != ssa.Value(phi) {
		return nil
	}
	return cmp.Y
}

// LoopBoundOf: for an induction value (see IsRangeIndex), the bound B of `i < B`.
func LoopBoundOf(idx ssa.Value) ssa.Value {
	switch x := idx.(type) {
	case *ssa.BinOp:
		if !IsRangeIndex(x) {
			return nil
		}
		for _, r := range *x.Referrers() {
			if cmp, ok := r.(*ssa.BinOp); ok && cmp.Op == token.LSS && cmp.X == idx {
				return cmp.Y
			}
		}
	case *ssa.Phi:
		return countingPhiBound(x)
	}
	return nil
}

// LoopSliceOf: for an induction value (see IsRangeIndex) whose bound is len(S), returns S.
func LoopSliceOf(idx ssa.Value) ssa.Value {
	var bound ssa.Value
	switch x := idx.(type) {
	case *ssa.BinOp:
		if !IsRangeIndex(x) {
			return nil
		}
		for _, r := range *x.Referrers() {
			if cmp, ok := r.(*ssa.BinOp); ok && cmp.Op == token.LSS && cmp.X == idx {
				bound = cmp.Y
			}
		}
	case *ssa.Phi:
		bound = countingPhiBound(x)
	}
	if call, ok := bound.(*ssa.Call); ok {
		if b, ok := call.Call.Value.(*ssa.Builtin); ok && b.Name() == "len" {
			return call.Call.Args[0]
		}
	}
	return nil
}

func indexString(v ssa.Value) string {
	if IsRangeIndex(v) {
		return "#i"
	}
	if n, ok := ConstInt(v); ok {
		return itoa(int(n))
	}
	if p := PathOf(v); p != "" {
		return p
	}
	return exprDepth(v, 6)
}

// ResultAt resolves result k of a return: when results are spilled to a local
// (functions with defer / named results) it returns the value stored last into
// that local in the return's block; otherwise the result itself.
func ResultAt(ret *ssa.Return, k int) ssa.Value {
	if k >= len(ret.Results) {
		return nil
	}
	v := ret.Results[k]
	ld, ok := v.(*ssa.UnOp)
	if !ok || ld.Op != token.MUL {
		return v
	}
	al, ok := ld.X.(*ssa.Alloc)
	if !ok {
		return v
	}
	b := ret.Block()
	for b != nil {
		for j := len(b.Instrs) - 1; j >= 0; j-- {
			if st, ok := b.Instrs[j].(*ssa.Store); ok && st.Addr == al {
				return st.Val
			}
		}
		if len(b.Preds) != 1 {
			break
		}
		b = b.Preds[0]
	}
	return v
}

// HeldField reports whether a lock whose receiver is field `field` of named type
// `typ` is held at i, and returns its path.
// HeldOn reports whether a lock that is field `field` of the object `base` is held at i.
func (ls *LockSets) HeldOn(i ssa.Instruction, base ssa.Value, field string) (string, bool) {
	for p := range ls.HeldAt(i) {
		fa, ok := ls.recv[p].(*ssa.FieldAddr)
		if !ok || FieldName(fa.X.Type(), fa.Field) != field {
			continue
		}
		if fa.X == base || Expr(fa.X) == Expr(base) {
			return p, true
		}
	}
	return "", false
}

func (ls *LockSets) HeldField(i ssa.Instruction, typ, field string) (string, bool) {
	for p := range ls.HeldAt(i) {
		if r := ls.recv[p]; r != nil && IsFieldAccess(r, typ, field) {
			return p, true
		}
	}
	return "", false
}

// ---------------------------------------------------------------------------
// Composite literals

// Lit is a struct composite literal built into a local (Alloc "complit").
type Lit struct {
	Alloc  *ssa.Alloc
	Fields map[string]ssa.Value // explicitly stored fields
}

// StructLits finds the composite literals of named struct type `typ` in fn.
func StructLits(fn *ssa.Function, typ string) []Lit {
	var out []Lit
	Instrs(fn, func(i ssa.Instruction) {
		a, ok := i.(*ssa.Alloc)
		if !ok {
			return
		}
		pt, ok := a.Type().(*types.Pointer)
		if !ok {
			return
		}
		n, ok := types.Unalias(pt.Elem()).(*types.Named)
		if !ok || n.Obj().Name() != typ {
			return
		}
		if _, ok := n.Underlying().(*types.Struct); !ok {
			return
		}
		l := Lit{Alloc: a, Fields: map[string]ssa.Value{}}
		if refs := a.Referrers(); refs != nil {
			for _, r := range *refs {
				fa, ok := r.(*ssa.FieldAddr)
				if !ok {
					continue
				}
				for _, u := range *fa.Referrers() {
					if st, ok := u.(*ssa.Store); ok && st.Addr == fa {
						l.Fields[fieldName(fa.X.Type(), fa.Field)] = st.Val
					}
				}
			}
		}
		out = append(out, l)
	})
	return out
}

// ClosureArg returns the function of a MakeClosure (or plain function) value.
func ClosureArg(v ssa.Value) *ssa.Function {
	switch x := StripConv(v).(type) {
	case *ssa.MakeClosure:
		f, _ := x.Fn.(*ssa.Function)
		return unwrapBound(f)
	case *ssa.Function:
		return unwrapBound(x)
	}
	return nil
}

// unwrapBound: a method value (`db.fetchMany`) is a closure over a synthetic
// bound-method wrapper; the function that matters is the method it calls.
func unwrapBound(f *ssa.Function) *ssa.Function {
	if f == nil || f.Synthetic == "" || f.Blocks == nil {
		return f
	}
	for _, b := range f.Blocks {
		for _, in := range b.Instrs {
			if cc := CallOf(in); cc != nil {
				if g := cc.StaticCallee(); g != nil && g.Synthetic == "" && g.Blocks != nil {
					return g
				}
			}
		}
	}
	return f
}

// FreeVarNamed returns fn's free variable called name (nil if none).
func FreeVarNamed(fn *ssa.Function, name string) *ssa.FreeVar {
	for _, fv := range fn.FreeVars {
		if fv.Name() == name {
			return fv
		}
	}
	return nil
}

// ConstString returns the string value of an SSA constant.
func ConstString(v ssa.Value) (string, bool) {
	c, ok := v.(*ssa.Const)
	if !ok || c.Value == nil || c.Value.Kind() != constant.String {
		return "", false
	}
	return constant.StringVal(c.Value), true
}
