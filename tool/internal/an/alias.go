package an

import (
	"go/token"
	"go/types"

	"golang.org/x/tools/go/ssa"
)

// AliasLints (L9): append must not write into storage the function does not
// own. `append(s, x)` writes x into s's backing array whenever s has spare
// capacity; that is harmless in the idioms
//
//	s = append(s, x)            (the result replaces the slice it extended)
//	x.f = append(x.f, e)        (the same place is read and written back)
//	return append(dst, ...)     (append-style helper: the caller owns dst)
//	fresh := append([]T(nil), ...), make(...), literals, call results, s[i:j:j]
//
// and an aliasing bug everywhere else: two values built from one shared prefix
// (a struct field, a parameter, a window x[i:j] into a larger array) overwrite
// each other's element. The rule follows the base of every append through
// phis, earlier appends and re-slicings to its roots and classifies them.
func AliasLints(fn *ssa.Function) []LintFinding {
	var out []LintFinding
	if len(fn.Blocks) == 0 {
		return nil
	}
	// stores of window slices into memory, by rendered address
	windowStores := map[string]*ssa.Slice{}
	Instrs(fn, func(i ssa.Instruction) {
		st, ok := i.(*ssa.Store)
		if !ok {
			return
		}
		if s, ok := st.Val.(*ssa.Slice); ok && isWindow(s) {
			if _, isSlice := s.Type().Underlying().(*types.Slice); isSlice {
				windowStores[Expr(st.Addr)] = s
			}
		}
	})
	Instrs(fn, func(i ssa.Instruction) {
		call, ok := i.(*ssa.Call)
		if !ok {
			return
		}
		if b, ok := call.Call.Value.(*ssa.Builtin); !ok || b.Name() != "append" || len(call.Call.Args) == 0 {
			return
		}
		base := call.Call.Args[0]
		// values the appended-to slice ends up as (the call, and phis it feeds)
		results := resultsOf(call)
		returned := false
		storedTo := map[string]bool{}
		for v := range results {
			if v.Referrers() == nil {
				continue
			}
			for _, r := range *v.Referrers() {
				switch x := r.(type) {
				case *ssa.Return:
					returned = true
				case *ssa.Store:
					if x.Val == v {
						storedTo[Expr(x.Addr)] = true
					}
				}
			}
		}
		// m[k] = append(m[k], x)
		mapBack := func(lk *ssa.Lookup) bool {
			for v := range results {
				if v.Referrers() == nil {
					continue
				}
				for _, r := range *v.Referrers() {
					if mu, ok := r.(*ssa.MapUpdate); ok && mu.Value == v && Expr(mu.Map) == Expr(lk.X) && Expr(mu.Key) == Expr(lk.Index) {
						return true
					}
				}
			}
			return false
		}
		for _, rt := range sliceRoots(base) {
			if rt.kind == "elem" {
				var lk *ssa.Lookup
				switch x := rt.val.(type) {
				case *ssa.Lookup:
					lk = x
				case *ssa.Extract:
					lk, _ = x.Tuple.(*ssa.Lookup)
				}
				if lk != nil && mapBack(lk) {
					continue
				}
			}
			switch rt.kind {
			case "fresh":
			case "mem":
				addr := Expr(rt.addr)
				if w, ok := windowStores[addr]; ok {
					out = append(out, LintFinding{i, "append to " + trimAmp(addr) + ", which was set to the window " + Expr(w) + " of a larger array without a capacity limit (x[i:j] instead of x[i:j:j]): the appended element overwrites the array element behind the window, which belongs to a neighbour"})
					continue
				}
				if !storedTo[addr] && !ownedObject(rt.addr) {
					out = append(out, LintFinding{i, "append to " + trimAmp(addr) + " whose result is kept somewhere else: when the slice has spare capacity the new element is written into the backing array it shares with " + trimAmp(addr) + ", so two values built this way from the same prefix overwrite each other's last element (copy the prefix first)"})
				}
			case "param":
				if !returned {
					out = append(out, LintFinding{i, "append to the slice parameter " + rt.val.Name() + " whose result is neither returned nor the parameter itself: when the caller's slice has spare capacity the new element is written into storage shared with the caller and with every other value built from the same slice (copy it first)"})
				}
			case "window":
				// buf = append(buf[:0], ...) on the place the slice lives in: reuse of one's own buffer
				if sl, ok := rt.val.(*ssa.Slice); ok {
					back := true
					inner := sliceRoots(sl.X)
					for _, r := range inner {
						if r.kind == "fresh" {
							continue
						}
						if r.kind != "mem" || !(storedTo[Expr(r.addr)] || ownedObject(r.addr)) {
							back = false
						}
					}
					if back && len(inner) > 0 && !isWindow(sl) {
						continue
					}
				}
				out = append(out, LintFinding{i, "append to " + Expr(rt.val) + ", a re-sliced view without a capacity limit of a slice this function did not allocate: the appended elements overwrite the original's elements"})
			case "elem":
				out = append(out, LintFinding{i, "append to " + Expr(rt.val) + ", a slice taken out of another value, with the result kept elsewhere: spare capacity is shared with that value"})
			}
		}
	})
	return out
}

func trimAmp(s string) string {
	if len(s) > 0 && s[0] == '&' {
		return s[1:]
	}
	return s
}

// isWindow: x[i:j] with a high bound, no capacity limit and a low bound that is
// not the constant 0 - a window into the middle of an array.
func isWindow(s *ssa.Slice) bool {
	if s.High == nil || s.Max != nil || s.Low == nil {
		return false
	}
	if n, ok := ConstInt(s.Low); ok && n == 0 {
		return false
	}
	return true
}

// resultsOf: the call and every phi it (transitively) feeds.
func resultsOf(v ssa.Value) map[ssa.Value]bool {
	out := map[ssa.Value]bool{}
	var walk func(v ssa.Value)
	walk = func(v ssa.Value) {
		if out[v] {
			return
		}
		out[v] = true
		if v.Referrers() == nil {
			return
		}
		for _, r := range *v.Referrers() {
			switch x := r.(type) {
			case *ssa.Phi:
				walk(x)
			case *ssa.Call:
				// s = append(append(s, a), b): the outer append continues the chain
				if b, ok := x.Call.Value.(*ssa.Builtin); ok && b.Name() == "append" && len(x.Call.Args) > 0 && x.Call.Args[0] == v {
					walk(x)
				}
			case *ssa.ChangeType:
				walk(x)
			}
		}
	}
	walk(v)
	return out
}

type sliceRoot struct {
	kind string // fresh, mem, param, window, elem
	val  ssa.Value
	addr ssa.Value
}

// sliceRoots follows the base of an append to where its backing array comes from.
func sliceRoots(v ssa.Value) []sliceRoot {
	return collectRoots(v, map[ssa.Value]bool{})
}

func collectRoots(v ssa.Value, seen map[ssa.Value]bool) []sliceRoot {
	var out []sliceRoot
	var walk func(v ssa.Value)
	walk = func(v ssa.Value) {
		if v == nil || seen[v] {
			return
		}
		seen[v] = true
		switch x := v.(type) {
		case *ssa.Phi:
			for _, e := range x.Edges {
				walk(e)
			}
		case *ssa.Const, *ssa.MakeSlice:
			out = append(out, sliceRoot{kind: "fresh", val: v})
		case *ssa.ChangeType:
			walk(x.X)
		case *ssa.Convert:
			out = append(out, sliceRoot{kind: "fresh", val: v}) // []byte(string) allocates
		case *ssa.Call:
			if b, ok := x.Call.Value.(*ssa.Builtin); ok && b.Name() == "append" && len(x.Call.Args) > 0 {
				walk(x.Call.Args[0])
				return
			}
			out = append(out, sliceRoot{kind: "fresh", val: v}) // a callee hands out what it returns
		case *ssa.Slice:
			if x.Max != nil {
				out = append(out, sliceRoot{kind: "fresh", val: v})
				return
			}
			// slicing an array (through a pointer): the array's owner decides
			if pt, ok := x.X.Type().Underlying().(*types.Pointer); ok {
				if _, isArr := pt.Elem().Underlying().(*types.Array); isArr {
					if _, isAlloc := x.X.(*ssa.Alloc); isAlloc {
						out = append(out, sliceRoot{kind: "fresh", val: v})
					} else {
						out = append(out, sliceRoot{kind: "elem", val: v})
					}
					return
				}
			}
			if _, isStr := x.X.Type().Underlying().(*types.Basic); isStr {
				out = append(out, sliceRoot{kind: "fresh", val: v})
				return
			}
			if x.High == nil {
				walk(x.X) // x[i:] keeps x's tail and capacity
				return
			}
			// x[i:j]: fine on a slice the function allocated itself and views from the start
			// (buf = buf[:0] reuse); a view of anything else is a window
			inner := collectRoots(x.X, seen) // (a loop-carried slice re-sliced in the loop: the other phi edges decide)
			allFresh := true
			for _, r := range inner {
				if r.kind != "fresh" {
					allFresh = false
				}
			}
			if allFresh && !isWindow(x) {
				out = append(out, sliceRoot{kind: "fresh", val: v})
			} else {
				out = append(out, sliceRoot{kind: "window", val: v})
			}
		case *ssa.UnOp:
			if x.Op != token.MUL {
				out = append(out, sliceRoot{kind: "fresh", val: v})
				return
			}
			if al, ok := x.X.(*ssa.Alloc); ok {
				// a local variable kept in memory (captured by a closure, or address taken)
				if tv := throughCell(v); tv != v {
					walk(tv)
					return
				}
				_ = al
			}
			out = append(out, sliceRoot{kind: "mem", val: v, addr: x.X})
		case *ssa.Parameter:
			out = append(out, sliceRoot{kind: "param", val: v})
		case *ssa.FreeVar:
			out = append(out, sliceRoot{kind: "param", val: v})
		case *ssa.Lookup, *ssa.Index, *ssa.Field, *ssa.Extract, *ssa.TypeAssert:
			if ex, ok := v.(*ssa.Extract); ok {
				if _, isCall := ex.Tuple.(*ssa.Call); isCall {
					out = append(out, sliceRoot{kind: "fresh", val: v})
					return
				}
			}
			out = append(out, sliceRoot{kind: "elem", val: v})
		default:
			out = append(out, sliceRoot{kind: "fresh", val: v})
		}
	}
	walk(v)
	return out
}

// ownedObject: the address lies inside an object this function created or obtained
// from a call during this invocation (nobody else appends to its slices meanwhile).
func ownedObject(addr ssa.Value) bool {
	v := addr
	for depth := 0; depth < 12; depth++ {
		switch x := v.(type) {
		case *ssa.FieldAddr:
			v = x.X
		case *ssa.IndexAddr:
			v = x.X
		case *ssa.Field:
			v = x.X
		case *ssa.UnOp:
			if x.Op != token.MUL {
				return false
			}
			if tv := throughCell(x); tv != ssa.Value(x) {
				v = tv
			} else {
				v = x.X
			}
		case *ssa.Alloc:
			// a local variable holding a pointer does not make the pointee local; a local object does
			return x.Heap || true
		case *ssa.Call:
			if b, ok := x.Call.Value.(*ssa.Builtin); ok {
				return b.Name() == "new"
			}
			return true
		case *ssa.Extract:
			_, isCall := x.Tuple.(*ssa.Call)
			return isCall
		case *ssa.MakeSlice, *ssa.MakeMap:
			return true
		default:
			return false
		}
	}
	return false
}

// OrderLints (L10): a closure that runs as a goroutine (started with `go`, or handed to a
// Go method such as errgroup.Group.Go) must not append to a slice it shares with its
// siblings: the elements then arrive in the order the goroutines finish, so whatever is
// computed from the slice's order (a stable sort's tie order, positions, "first") depends
// on scheduling. Concurrent producers write at their own index instead.
func OrderLints(fn *ssa.Function) []LintFinding {
	var out []LintFinding
	if fn.Parent() == nil || len(fn.Blocks) == 0 {
		return nil
	}
	concurrent := false
	Instrs(fn.Parent(), func(i ssa.Instruction) {
		mc, ok := i.(*ssa.MakeClosure)
		if !ok || mc.Fn != ssa.Value(fn) || mc.Referrers() == nil {
			return
		}
		for _, r := range *mc.Referrers() {
			switch x := r.(type) {
			case *ssa.Go:
				if x.Call.Value == ssa.Value(mc) {
					concurrent = true
				}
			case *ssa.Call:
				if f := CalleeFunc(&x.Call); f != nil && f.Name() == "Go" {
					concurrent = true
				}
			}
		}
	})
	if !concurrent {
		return nil
	}
	Instrs(fn, func(i ssa.Instruction) {
		call, ok := i.(*ssa.Call)
		if !ok {
			return
		}
		if b, ok := call.Call.Value.(*ssa.Builtin); !ok || b.Name() != "append" || len(call.Call.Args) == 0 {
			return
		}
		for _, rt := range sliceRoots(call.Call.Args[0]) {
			if rt.kind != "mem" {
				continue
			}
			if fv, ok := rt.addr.(*ssa.FreeVar); ok {
				out = append(out, LintFinding{i, "a goroutine appends to " + fv.Name() + ", which it shares with the goroutines started next to it: the elements end up in the order the goroutines finish, so anything that depends on their order (a stable sort's ties, positions) changes from run to run; write each result at its own index instead"})
			}
		}
	})
	return out
}
