package an

import (
	"fmt"
	"go/token"
	"go/types"
	"sort"
	"strings"

	"golang.org/x/tools/go/ssa"
)

// Expr renders an SSA value as a canonical expression string. Loads render as
// access paths, parameters by name, calls as callee(args), short-circuit phis
// as (a && b) / (a || b). Values with no stable rendering become "?tN".
func Expr(v ssa.Value) string { return exprDepth(v, 0) }

func exprDepth(v ssa.Value, d int) string {
	if v == nil {
		return "<nil>"
	}
	if d > 12 {
		return "?deep"
	}
	switch x := v.(type) {
	case *ssa.Const:
		if x.Value == nil {
			if x.IsNil() {
				return "nil"
			}
			return types.TypeString(x.Type(), shortQual) + "{}"
		}
		return x.Value.ExactString()
	case *ssa.Parameter, *ssa.FreeVar, *ssa.Global:
		return PathOf(v)
	case *ssa.Function:
		return x.Name()
	case *ssa.Builtin:
		return x.Name()
	case *ssa.UnOp:
		switch x.Op {
		case token.MUL:
			if p := PathOf(x); p != "" {
				return p
			}
			switch a := x.X.(type) {
			case *ssa.FieldAddr:
				return strings.TrimPrefix(exprDepth(a.X, d+1), "&") + "." + fieldName(a.X.Type(), a.Field)
			case *ssa.IndexAddr:
				return exprDepth(a.X, d+1) + "[" + indexString(a.Index) + "]"
			}
			return "*" + exprDepth(x.X, d+1)
		case token.NOT:
			return "!" + exprDepth(x.X, d+1)
		case token.ARROW:
			return "<-" + exprDepth(x.X, d+1)
		case token.SUB:
			return "-" + exprDepth(x.X, d+1)
		}
		return x.Op.String() + exprDepth(x.X, d+1)
	case *ssa.BinOp:
		if IsRangeIndex(x) {
			return "#i"
		}
		return "(" + exprDepth(x.X, d+1) + " " + x.Op.String() + " " + exprDepth(x.Y, d+1) + ")"
	case *ssa.FieldAddr:
		if p := PathOf(x); p != "" {
			return "&" + p
		}
		return "&" + strings.TrimPrefix(exprDepth(x.X, d+1), "&") + "." + fieldName(x.X.Type(), x.Field)
	case *ssa.Field:
		if p := PathOf(x); p != "" {
			return p
		}
		return exprDepth(x.X, d+1) + "." + fieldName(x.X.Type(), x.Field)
	case *ssa.Alloc:
		if x.Comment != "" {
			return "&" + x.Comment
		}
	case *ssa.Call:
		return callExpr(x.Common(), d)
	case *ssa.Extract:
		return exprDepth(x.Tuple, d+1) + "#" + itoa(x.Index)
	case *ssa.TypeAssert:
		return exprDepth(x.X, d+1) + ".(" + types.TypeString(x.AssertedType, shortQual) + ")"
	case *ssa.ChangeType:
		return exprDepth(x.X, d+1)
	case *ssa.ChangeInterface:
		return exprDepth(x.X, d+1)
	case *ssa.MakeInterface:
		return exprDepth(x.X, d+1)
	case *ssa.Convert:
		return types.TypeString(x.Type(), shortQual) + "(" + exprDepth(x.X, d+1) + ")"
	case *ssa.Index:
		return exprDepth(x.X, d+1) + "[" + exprDepth(x.Index, d+1) + "]"
	case *ssa.IndexAddr:
		return "&" + exprDepth(x.X, d+1) + "[" + indexString(x.Index) + "]"
	case *ssa.Lookup:
		return exprDepth(x.X, d+1) + "[" + exprDepth(x.Index, d+1) + "]"
	case *ssa.Slice:
		lo, hi := "", ""
		if x.Low != nil {
			lo = exprDepth(x.Low, d+1)
		}
		if x.High != nil {
			hi = exprDepth(x.High, d+1)
		}
		return exprDepth(x.X, d+1) + "[" + lo + ":" + hi + "]"
	case *ssa.Phi:
		if IsRangeIndex(x) {
			return "#i"
		}
		if s := shortCircuit(x, d); s != "" {
			return s
		}
		if p := PathOf(x); p != "" {
			return p
		}
		if x.Comment != "" {
			return "phi:" + x.Comment
		}
	case *ssa.MakeClosure:
		return "closure:" + x.Fn.Name()
	}
	return "?" + v.Name()
}

func shortQual(p *types.Package) string { return p.Name() }

func callExpr(c *ssa.CallCommon, d int) string {
	var args []string
	name := ""
	if c.IsInvoke() {
		name = exprDepth(c.Value, d+1) + "." + c.Method.Name()
	} else if f := CalleeFunc(c); f != nil {
		name = f.Name()
		if sig := f.Type().(*types.Signature); sig.Recv() != nil && len(c.Args) > 0 {
			recv := exprDepth(c.Args[0], d+1)
			recv = strings.TrimPrefix(recv, "&")
			name = recv + "." + name
			for _, a := range c.Args[1:] {
				args = append(args, clip(exprDepth(a, d+1)))
			}
			return name + "(" + strings.Join(args, ", ") + ")"
		} else if f.Pkg() != nil && c.StaticCallee() != nil && c.StaticCallee().Pkg != nil {
			// qualify package-level functions of other packages
			name = f.Pkg().Name() + "." + name
		}
	} else {
		name = exprDepth(c.Value, d+1)
	}
	for _, a := range c.Args {
		args = append(args, clip(exprDepth(a, d+1)))
	}
	return name + "(" + strings.Join(args, ", ") + ")"
}

// clip abbreviates long nested call arguments.
func clip(s string) string {
	if len(s) > 70 {
		if i := strings.Index(s, "("); i > 0 && i < 40 {
			return s[:i] + "(…)"
		}
		return s[:40] + "…"
	}
	return s
}

// shortCircuit recognises the phi produced by `a && b` / `a || b`.
func shortCircuit(phi *ssa.Phi, d int) string {
	b := phi.Block()
	if len(phi.Edges) < 2 || !isBool(phi.Type()) {
		return ""
	}
	// All constant edges must agree (false for &&, true for ||), and come from
	// predecessors ending in an If whose corresponding branch jumps to b.
	var op string
	var conds []string
	var rhs ssa.Value
	for k, e := range phi.Edges {
		pred := b.Preds[k]
		c, isConst := e.(*ssa.Const)
		if isConst && c.Value != nil {
			iff, ok := pred.Instrs[len(pred.Instrs)-1].(*ssa.If)
			if !ok {
				return ""
			}
			val := c.Value.ExactString() == "true"
			// which successor of pred is b?
			if val && pred.Succs[0] == b {
				if op == "&&" {
					return ""
				}
				op = "||"
			} else if !val && pred.Succs[1] == b {
				if op == "||" {
					return ""
				}
				op = "&&"
			} else {
				return ""
			}
			conds = append(conds, exprDepth(iff.Cond, d+1))
			continue
		}
		if rhs != nil {
			return ""
		}
		rhs = e
	}
	if rhs == nil || op == "" {
		return ""
	}
	parts := append(conds, exprDepth(rhs, d+1))
	return "(" + strings.Join(parts, " "+op+" ") + ")"
}

func isBool(t types.Type) bool {
	b, ok := t.Underlying().(*types.Basic)
	return ok && b.Kind() == types.Bool
}

// GuardStrings renders the guards of a block as strings ("cond" or "!cond"), sorted.
func GuardStrings(b *ssa.BasicBlock) []string {
	var out []string
	for _, g := range GuardsOf(b) {
		s := Expr(g.Cond)
		if !g.Polarity {
			s = negate(s)
		}
		out = append(out, s)
	}
	sort.Strings(out)
	return out
}

func negate(s string) string {
	if strings.HasPrefix(s, "!") {
		return canonGuard(s[1:])
	}
	if f, ok := flipTopComparison(s); ok {
		return f
	}
	return "!" + s
}

// flipTopComparison: s = "(L == R)" or "(L != R)" with the operator at
// parenthesis depth 1 exactly once: returns the complementary comparison.
func flipTopComparison(s string) (string, bool) {
	if !strings.HasPrefix(s, "(") || !strings.HasSuffix(s, ")") {
		return "", false
	}
	depth, at, n := 0, -1, 0
	inStr := false
	for i := 0; i < len(s); i++ {
		c := s[i]
		if c == '"' && (i == 0 || s[i-1] != '\\') {
			inStr = !inStr
		}
		if inStr {
			continue
		}
		switch c {
		case '(', '[', '{':
			depth++
		case ')', ']', '}':
			depth--
			if depth == 0 && i != len(s)-1 {
				return "", false // "(a)(b)": the outer parentheses do not match each other
			}
		case ' ':
			if depth == 1 && i+4 <= len(s) && (s[i:i+4] == " == " || s[i:i+4] == " != ") {
				at = i
				n++
			}
		}
	}
	if n != 1 {
		return "", false
	}
	op := " != "
	if s[at:at+4] == " != " {
		op = " == "
	}
	return s[:at] + op + s[at+4:], true
}

// canonGuard removes a leading negation from a negated equality test:
// "!(a != b)" and "(a == b)" are the same guard.
func canonGuard(s string) string {
	if strings.HasPrefix(s, "!") {
		if f, ok := flipTopComparison(s[1:]); ok {
			return f
		}
	}
	return s
}

// HasGuard reports whether block b has a guard whose rendering equals one of want.
func HasGuard(b *ssa.BasicBlock, want ...string) bool {
	for _, g := range GuardStrings(b) {
		for _, w := range want {
			if g == w || canonGuard(g) == canonGuard(w) {
				return true
			}
		}
	}
	return false
}

// NormalizeParams rewrites the roots of paths in s that name fn's receiver or
// parameters to $recv / $1.. so that rules do not depend on parameter names.
func NormalizeParams(fn *ssa.Function, s string) string {
	outer := fn
	for outer.Parent() != nil {
		outer = outer.Parent()
	}
	idx := 1
	repl := map[string]string{}
	for k, p := range outer.Params {
		if k == 0 && outer.Signature.Recv() != nil {
			repl[p.Name()] = "$recv"
			continue
		}
		repl[p.Name()] = fmt.Sprintf("$%d", idx)
		idx++
	}
	// token-wise replace of identifiers at path roots
	var out strings.Builder
	i := 0
	for i < len(s) {
		c := s[i]
		if isIdentStart(c) && (i == 0 || !isIdentChar(s[i-1]) && s[i-1] != '.' && s[i-1] != '$') {
			j := i
			for j < len(s) && isIdentChar(s[j]) {
				j++
			}
			word := s[i:j]
			if r, ok := repl[word]; ok {
				out.WriteString(r)
			} else {
				out.WriteString(word)
			}
			i = j
			continue
		}
		out.WriteByte(c)
		i++
	}
	return out.String()
}

func isIdentStart(c byte) bool {
	return c == '_' || (c >= 'a' && c <= 'z') || (c >= 'A' && c <= 'Z')
}
func isIdentChar(c byte) bool { return isIdentStart(c) || (c >= '0' && c <= '9') }

// ---------------------------------------------------------------------------
// Edge helpers for If conditions

// CondEdges finds Ifs in fn whose rendered condition equals cond and returns
// (if, trueSucc, falseSucc) triples.
type CondIf struct {
	If          *ssa.If
	True, False *ssa.BasicBlock
}

func CondIfs(fn *ssa.Function, match func(cond ssa.Value) bool) []CondIf {
	var out []CondIf
	for _, b := range fn.Blocks {
		if len(b.Instrs) == 0 {
			continue
		}
		iff, ok := b.Instrs[len(b.Instrs)-1].(*ssa.If)
		if !ok || !match(iff.Cond) {
			continue
		}
		out = append(out, CondIf{iff, b.Succs[0], b.Succs[1]})
	}
	return out
}

// LoopHeaderOf returns the nearest dominating block of i's block that lies on a
// cycle with it (the loop header), or nil if i is not in a loop.
func LoopHeaderOf(i ssa.Instruction) *ssa.BasicBlock {
	b := i.Block()
	for d := b; d != nil; d = d.Idom() {
		var reach map[*ssa.BasicBlock]bool
		for _, p := range d.Preds {
			if p != d && !d.Dominates(p) {
				continue
			}
			// back edge p -> d; b is in that natural loop iff b reaches p without passing d
			if p == b || d == b {
				return d
			}
			if reach == nil {
				reach = blockReachAvoiding(b, d)
			}
			if reach[p] {
				return d
			}
		}
	}
	return nil
}

// blockReachAvoiding: blocks reachable from b's successors without entering `avoid`.
func blockReachAvoiding(b, avoid *ssa.BasicBlock) map[*ssa.BasicBlock]bool {
	seen := map[*ssa.BasicBlock]bool{}
	work := append([]*ssa.BasicBlock{}, b.Succs...)
	for len(work) > 0 {
		x := work[len(work)-1]
		work = work[:len(work)-1]
		if seen[x] || x == avoid {
			continue
		}
		seen[x] = true
		work = append(work, x.Succs...)
	}
	return seen
}

// blockReach: blocks reachable from b's successors.
func blockReach(b *ssa.BasicBlock) map[*ssa.BasicBlock]bool {
	seen := map[*ssa.BasicBlock]bool{}
	work := append([]*ssa.BasicBlock{}, b.Succs...)
	for len(work) > 0 {
		x := work[len(work)-1]
		work = work[:len(work)-1]
		if seen[x] {
			continue
		}
		seen[x] = true
		work = append(work, x.Succs...)
	}
	return seen
}

// ---------------------------------------------------------------------------
// Lock pairing

// UnreleasedExit returns an exit instruction reachable from the acquire
// instruction `lock` without executing an Unlock (or registering a deferred
// Unlock) of the same path, or nil when the lock is released on all paths.
func UnreleasedExit(fn *ssa.Function, lock ssa.Instruction) ssa.Instruction {
	op, ok := lockOp(CallOf(lock))
	if !ok || !op.Acquire {
		return nil
	}
	blk := NewBlocker()
	Instrs(fn, func(i ssa.Instruction) {
		c := CallOf(i)
		if c == nil {
			return
		}
		if o2, ok := lockOp(c); ok && !o2.Acquire && o2.Path == op.Path {
			switch i.(type) {
			case *ssa.Call, *ssa.Defer:
				blk.Instr[i] = true
			}
		}
	})
	r := Reach(fn, lock, blk)
	for _, e := range Exits(fn, false) {
		if r[e] {
			return e
		}
	}
	return nil
}

// NonNilGuard reports whether block b is only reached when the value rendered
// as `path` was tested non-nil.
func NonNilGuard(b *ssa.BasicBlock, path string) bool {
	for _, g := range GuardsOf(b) {
		bo, ok := g.Cond.(*ssa.BinOp)
		if !ok {
			continue
		}
		c, ok := bo.Y.(*ssa.Const)
		if !ok || !c.IsNil() || Expr(bo.X) != path {
			continue
		}
		if (bo.Op == token.NEQ && g.Polarity) || (bo.Op == token.EQL && !g.Polarity) {
			return true
		}
	}
	return false
}

// DisjunctGuards handles `if a || b || c { B }`: when every predecessor of b
// ends in an If that jumps to b, it returns the rendered condition under which
// each predecessor enters b (negated for false edges); nil otherwise.
func DisjunctGuards(b *ssa.BasicBlock) []string {
	if len(b.Preds) < 2 {
		return nil
	}
	var out []string
	for _, p := range b.Preds {
		if len(p.Instrs) == 0 {
			return nil
		}
		iff, ok := p.Instrs[len(p.Instrs)-1].(*ssa.If)
		if !ok {
			return nil
		}
		s := Expr(iff.Cond)
		if p.Succs[0] == b {
			out = append(out, s)
		} else {
			out = append(out, negate(s))
		}
	}
	sort.Strings(out)
	return out
}

// EnclosingLoops returns the headers of the natural loops containing i, innermost first.
func EnclosingLoops(i ssa.Instruction) []*ssa.BasicBlock {
	var out []*ssa.BasicBlock
	b := i.Block()
	for d := b; d != nil; d = d.Idom() {
		var reach map[*ssa.BasicBlock]bool
		for _, p := range d.Preds {
			if p != d && !d.Dominates(p) {
				continue
			}
			in := p == b || d == b
			if !in {
				if reach == nil {
					reach = blockReachAvoiding(b, d)
				}
				in = reach[p]
			}
			if in {
				out = append(out, d)
				break
			}
		}
	}
	return out
}

// OnlyAfterLoop reports whether instruction i can only execute after the loop
// with header h has run to completion (i.e. i is unreachable from the function
// entry once the loop's exit edge is removed).
func OnlyAfterLoop(fn *ssa.Function, h *ssa.BasicBlock, i ssa.Instruction) bool {
	if h == nil || len(h.Succs) != 2 {
		return false
	}
	blk := NewBlocker()
	// the exit successor is the one that is not part of the loop body
	reach := blockReachAvoiding(h.Succs[0], nil)
	exit := h.Succs[1]
	if !reach[h] && h.Succs[0] != h {
		// Succs[0] does not lead back: then Succs[1] is the body
		exit = h.Succs[0]
	}
	blk.AddEdge(h, exit)
	return !Reach(fn, nil, blk)[i]
}
