package an

// SSA-level inlining of helper functions the rule tables do not know.
//
// Every rule in package props is anchored in functions that exist on the tree
// the rules were written against (baseline_funcs.txt lists them). A refactor
// that moves a few statements of an anchor into a new helper leaves behaviour
// unchanged but hides those statements from an intraprocedural rule. To stay
// silent on such edits - and to keep seeing a violation that was moved into a
// helper - every statically resolved call to a module function that is NOT in
// the baseline list is expanded in place: the callee's blocks are cloned into
// the caller, parameters are replaced by the arguments, every return becomes
// a jump to the continuation (results merged with phis), and, where the
// continuation immediately branches on a boolean result that is constant on a
// return site, that edge is threaded to the branch target. The list only
// selects the view; inlining preserves semantics whichever functions are on it.
//
// go/ssa exposes no constructor for blocks or instructions, so the few
// unexported fields involved (instruction.block, register.{num,typ,referrers},
// BasicBlock.{parent,dom}) are written through reflect+unsafe. The module pins
// golang.org/x/tools v0.29.0, and Validate re-checks the structural invariants
// of every function that was changed.

import (
	"fmt"
	"go/constant"
	"go/token"
	"go/types"
	"reflect"
	"sort"
	"strings"
	"unsafe"

	"golang.org/x/tools/go/ssa"
)

// InlineStats reports what the inliner did (goes into the evidence).
type InlineStats struct {
	Sites   int               // call sites expanded
	Callees map[string]int    // callee -> number of sites expanded
	Kept    map[string]string // unknown callee -> reason it was not (always) expanded
	Changed []string          // functions whose bodies were changed
}

func unexported(v reflect.Value, name string) reflect.Value {
	f := v.FieldByName(name)
	if !f.IsValid() {
		return f
	}
	return reflect.NewAt(f.Type(), unsafe.Pointer(f.UnsafeAddr())).Elem()
}

func setBlock(in ssa.Instruction, b *ssa.BasicBlock) {
	f := unexported(reflect.ValueOf(in).Elem(), "block")
	if !f.IsValid() {
		panic(fmt.Sprintf("inline: %T has no block field", in))
	}
	f.Set(reflect.ValueOf(b))
}

func setParent(b *ssa.BasicBlock, fn *ssa.Function) {
	unexported(reflect.ValueOf(b).Elem(), "parent").Set(reflect.ValueOf(fn))
}

func resetRegister(in ssa.Instruction, num int) {
	e := reflect.ValueOf(in).Elem()
	if f := unexported(e, "referrers"); f.IsValid() {
		f.Set(reflect.Zero(f.Type()))
	}
	if f := unexported(e, "num"); f.IsValid() {
		f.SetInt(int64(num))
	}
}

func setRegType(in ssa.Instruction, t types.Type) {
	unexported(reflect.ValueOf(in).Elem(), "typ").Set(reflect.ValueOf(&t).Elem())
}

func newBlock(fn *ssa.Function, comment string) *ssa.BasicBlock {
	b := &ssa.BasicBlock{Comment: comment}
	setParent(b, fn)
	return b
}

func addRef(v ssa.Value, in ssa.Instruction) {
	if v == nil {
		return
	}
	if r := v.Referrers(); r != nil {
		*r = append(*r, in)
	}
}

func dropRef(v ssa.Value, in ssa.Instruction) {
	if v == nil {
		return
	}
	r := v.Referrers()
	if r == nil {
		return
	}
	out := (*r)[:0]
	for _, x := range *r {
		if x != in {
			out = append(out, x)
		}
	}
	*r = out
}

// replaceUses rewrites every operand equal to old into nw.
func replaceUses(old, nw ssa.Value) {
	r := old.Referrers()
	if r == nil {
		return
	}
	users := append([]ssa.Instruction(nil), *r...)
	*r = nil
	seen := map[ssa.Instruction]bool{}
	for _, u := range users {
		if seen[u] {
			continue
		}
		seen[u] = true
		for _, op := range u.Operands(nil) {
			if *op == old {
				*op = nw
				addRef(nw, u)
			}
		}
	}
}

func cloneInstr(in ssa.Instruction, num int) ssa.Instruction {
	ov := reflect.ValueOf(in)
	nv := reflect.New(ov.Type().Elem())
	nv.Elem().Set(ov.Elem())
	out := nv.Interface().(ssa.Instruction)
	switch x := out.(type) {
	case *ssa.Phi:
		x.Edges = append([]ssa.Value(nil), x.Edges...)
	case *ssa.Call:
		x.Call.Args = append([]ssa.Value(nil), x.Call.Args...)
	case *ssa.Go:
		x.Call.Args = append([]ssa.Value(nil), x.Call.Args...)
	case *ssa.Defer:
		x.Call.Args = append([]ssa.Value(nil), x.Call.Args...)
	case *ssa.Return:
		x.Results = append([]ssa.Value(nil), x.Results...)
	case *ssa.MakeClosure:
		x.Bindings = append([]ssa.Value(nil), x.Bindings...)
	case *ssa.Select:
		st := make([]*ssa.SelectState, len(x.States))
		for i, s := range x.States {
			c := *s
			st[i] = &c
		}
		x.States = st
	}
	resetRegister(out, num)
	return out
}

type inliner struct {
	p       *Prog
	known   map[string]bool
	stats   *InlineStats
	changed map[*ssa.Function]bool
	num     int
	budget  map[*ssa.Function]int
	rec     map[*ssa.Function]bool
}

// InlineUnknown expands calls to module functions whose String() is not in known.
func (p *Prog) InlineUnknown(known map[string]bool) (*InlineStats, error) {
	p.known = known
	il := &inliner{p: p, known: known, changed: map[*ssa.Function]bool{}, budget: map[*ssa.Function]int{},
		stats: &InlineStats{Callees: map[string]int{}, Kept: map[string]string{}}, num: 100000}
	var fns []*ssa.Function
	for f := range p.allFuncs {
		if pk := FuncPkg(f); pk != nil && strings.HasPrefix(pk.Path(), ModulePath) && f.Blocks != nil && f.Parent() == nil {
			fns = append(fns, f)
		}
	}
	sort.Slice(fns, func(i, j int) bool { return fns[i].String() < fns[j].String() })
	for _, f := range fns {
		il.expand(f, map[*ssa.Function]bool{})
	}
	p.inlinedAway = map[*ssa.Function]bool{}
	// A helper whose every use is a call that was expanded is fully
	// represented inside its callers: whole-module sweeps skip it.
	for _, f := range fns {
		if !il.unknown(f) {
			continue
		}
		if il.stats.Callees[f.String()] == 0 {
			continue
		}
		if reason, kept := il.stats.Kept[f.String()]; kept {
			_ = reason
			continue
		}
		if f.Object() != nil && f.Object().Exported() {
			il.stats.Kept[f.String()] = "exported: also analysed on its own"
			continue
		}
		if f.Signature.Recv() != nil && il.p.ifaceMethodNames()[f.Name()] {
			il.stats.Kept[f.String()] = "method that may be called through an interface: also analysed on its own"
			continue
		}
		if il.hasOtherUses(f) {
			il.stats.Kept[f.String()] = "used as a value or through go/defer: also analysed on its own"
			continue
		}
		p.inlinedAway[f] = true
	}
	for f := range il.changed {
		il.stats.Changed = append(il.stats.Changed, f.String())
		if err := Validate(f); err != nil {
			return il.stats, fmt.Errorf("inliner produced an inconsistent body for %s: %v", f, err)
		}
	}
	sort.Strings(il.stats.Changed)
	return il.stats, nil
}

// hasOtherUses reports whether f is referenced other than by a direct call
// (all direct calls from module functions have been expanded by now).
func (il *inliner) hasOtherUses(f *ssa.Function) bool {
	for g := range il.p.allFuncs {
		if g == f || il.p.inlinedAwayCandidate(g, il) {
			continue
		}
		for _, b := range g.Blocks {
			for _, in := range b.Instrs {
				for _, op := range in.Operands(nil) {
					if *op == ssa.Value(f) {
						return true
					}
				}
			}
		}
	}
	return false
}

// ifaceMethodNames is the set of method names of the module's named interfaces.
func (p *Prog) ifaceMethodNames() map[string]bool {
	if p.ifaceNames != nil {
		return p.ifaceNames
	}
	p.ifaceNames = map[string]bool{}
	for _, pk := range p.Pkgs {
		sc := pk.Types.Scope()
		for _, n := range sc.Names() {
			tn, ok := sc.Lookup(n).(*types.TypeName)
			if !ok {
				continue
			}
			it, ok := tn.Type().Underlying().(*types.Interface)
			if !ok {
				continue
			}
			for i := 0; i < it.NumMethods(); i++ {
				p.ifaceNames[it.Method(i).Name()] = true
			}
		}
	}
	for _, n := range []string{"String", "Error", "Len", "Less", "Swap", "MarshalJSON", "UnmarshalJSON", "Scan", "Value", "MarshalText", "UnmarshalText", "MarshalBinary", "UnmarshalBinary", "Read", "Write", "Close", "ServeHTTP"} {
		p.ifaceNames[n] = true
	}
	return p.ifaceNames
}

// inlinedAwayCandidate: bodies of other unknown helpers are not evidence of an
// outside use when those helpers are themselves only reached through inlining;
// being conservative here only means analysing a helper twice.
func (p *Prog) inlinedAwayCandidate(g *ssa.Function, il *inliner) bool { return false }

func (il *inliner) unknown(f *ssa.Function) bool {
	if f == nil || f.Blocks == nil || f.Synthetic != "" || f.Parent() != nil {
		return false
	}
	pk := FuncPkg(f)
	if pk == nil || !strings.HasPrefix(pk.Path(), ModulePath) {
		return false
	}
	if f.TypeParams().Len() > 0 || len(f.TypeArgs()) > 0 {
		return false
	}
	return !il.known[f.String()]
}

// recursive: f can reach itself through static calls to unknown functions.
func (il *inliner) recursive(f *ssa.Function) bool {
	if r, ok := il.rec[f]; ok {
		return r
	}
	seen := map[*ssa.Function]bool{}
	var walk func(g *ssa.Function) bool
	walk = func(g *ssa.Function) bool {
		for _, b := range g.Blocks {
			for _, in := range b.Instrs {
				cc := CallOf(in)
				if cc == nil {
					continue
				}
				c := cc.StaticCallee()
				if c == nil {
					continue
				}
				if c == f {
					return true
				}
				if il.unknown(c) && !seen[c] {
					seen[c] = true
					if walk(c) {
						return true
					}
				}
			}
		}
		for _, a := range g.AnonFuncs {
			if walk(a) {
				return true
			}
		}
		return false
	}
	r := walk(f)
	if il.rec == nil {
		il.rec = map[*ssa.Function]bool{}
	}
	il.rec[f] = r
	return r
}

func (il *inliner) inlinable(f *ssa.Function) (bool, string) {
	if f.Recover != nil {
		return false, "has a recover block"
	}
	if il.recursive(f) {
		return false, "recursive"
	}
	n := 0
	for _, b := range f.Blocks {
		for _, in := range b.Instrs {
			n++
			switch in.(type) {
			case *ssa.Defer, *ssa.RunDefers:
				return false, "contains defer"
			}
		}
	}
	if n > 1500 {
		return false, "too large"
	}
	return true, ""
}

func (il *inliner) expand(fn *ssa.Function, stack map[*ssa.Function]bool) {
	if stack[fn] {
		return
	}
	stack[fn] = true
	defer delete(stack, fn)
	for again := true; again; {
		again = false
	scan:
		for _, b := range fn.Blocks {
			for i, in := range b.Instrs {
				var callee *ssa.Function
				switch c := in.(type) {
				case *ssa.Call:
					callee = c.Call.StaticCallee()
				case *ssa.Go:
					if g := c.Call.StaticCallee(); g != nil && il.unknown(g) {
						il.stats.Kept[g.String()] = "started with go"
					}
					continue
				case *ssa.Defer:
					if g := c.Call.StaticCallee(); g != nil && il.unknown(g) {
						il.stats.Kept[g.String()] = "deferred"
					}
					continue
				default:
					continue
				}
				if callee == nil || !il.unknown(callee) {
					continue
				}
				if _, isClosure := in.(*ssa.Call).Call.Value.(*ssa.MakeClosure); isClosure {
					continue
				}
				if stack[callee] || il.recursive(callee) {
					il.stats.Kept[callee.String()] = "recursive"
					continue
				}
				il.expand(callee, stack)
				if ok, why := il.inlinable(callee); !ok {
					il.stats.Kept[callee.String()] = why
					continue
				}
				if il.budget[fn] >= 60 {
					il.stats.Kept[callee.String()] = "caller inlining budget exhausted"
					continue
				}
				il.budget[fn]++
				il.inlineCall(fn, b, i, in.(*ssa.Call), callee)
				il.stats.Sites++
				il.stats.Callees[callee.String()]++
				il.changed[fn] = true
				again = true
				break scan
			}
		}
	}
	for _, a := range fn.AnonFuncs {
		il.expand(a, stack)
	}
}

func (il *inliner) nextNum() int { il.num++; return il.num }

func (il *inliner) inlineCall(fn *ssa.Function, b *ssa.BasicBlock, idx int, call *ssa.Call, callee *ssa.Function) {
	// 1. split the block after the call
	cont := newBlock(fn, "inl.cont")
	cont.Instrs = append([]ssa.Instruction(nil), b.Instrs[idx+1:]...)
	for _, in := range cont.Instrs {
		setBlock(in, cont)
	}
	cont.Succs = append([]*ssa.BasicBlock(nil), b.Succs...)
	for _, s := range cont.Succs {
		for i, pr := range s.Preds {
			if pr == b {
				s.Preds[i] = cont
			}
		}
	}
	b.Instrs = append([]ssa.Instruction(nil), b.Instrs[:idx]...)
	b.Succs = nil

	// 2. clone the callee
	bm := map[*ssa.BasicBlock]*ssa.BasicBlock{}
	var nblocks []*ssa.BasicBlock
	for _, ob := range callee.Blocks {
		nb := newBlock(fn, "inl."+callee.Name()+"."+ob.Comment)
		bm[ob] = nb
		nblocks = append(nblocks, nb)
	}
	vm := map[ssa.Value]ssa.Value{}
	for i, prm := range callee.Params {
		vm[prm] = call.Call.Args[i]
	}
	isLocal := map[*ssa.Alloc]bool{}
	for _, l := range callee.Locals {
		isLocal[l] = true
	}
	type retSite struct {
		blk     *ssa.BasicBlock
		results []ssa.Value
	}
	var rets []retSite
	var clones []ssa.Instruction
	for _, ob := range callee.Blocks {
		nb := bm[ob]
		for _, oin := range ob.Instrs {
			if r, ok := oin.(*ssa.Return); ok {
				rets = append(rets, retSite{nb, append([]ssa.Value(nil), r.Results...)})
				continue
			}
			nin := cloneInstr(oin, il.nextNum())
			setBlock(nin, nb)
			nb.Instrs = append(nb.Instrs, nin)
			if v, ok := oin.(ssa.Value); ok {
				vm[v] = nin.(ssa.Value)
			}
			if a, ok := oin.(*ssa.Alloc); ok && isLocal[a] {
				fn.Locals = append(fn.Locals, nin.(*ssa.Alloc))
			}
			clones = append(clones, nin)
		}
		for _, s := range ob.Succs {
			nb.Succs = append(nb.Succs, bm[s])
		}
		for _, pr := range ob.Preds {
			nb.Preds = append(nb.Preds, bm[pr])
		}
	}
	remap := func(v ssa.Value) ssa.Value {
		if nv, ok := vm[v]; ok {
			return nv
		}
		return v
	}
	// 3. operands
	for _, nin := range clones {
		for _, op := range nin.Operands(nil) {
			if *op == nil {
				continue
			}
			*op = remap(*op)
			addRef(*op, nin)
		}
	}
	// 4. returns
	for _, r := range rets {
		j := &ssa.Jump{}
		setBlock(j, r.blk)
		r.blk.Instrs = append(r.blk.Instrs, j)
		r.blk.Succs = []*ssa.BasicBlock{cont}
		cont.Preds = append(cont.Preds, r.blk)
	}
	res := callee.Signature.Results()
	vals := make([]ssa.Value, res.Len())
	var phis []ssa.Instruction
	for j := 0; j < res.Len(); j++ {
		if len(rets) == 1 {
			vals[j] = remap(rets[0].results[j])
			continue
		}
		if len(rets) == 0 {
			// the callee never returns: the continuation is dead code
			vals[j] = ssa.NewConst(nil, res.At(j).Type())
			if !isNillable(res.At(j).Type()) {
				vals[j] = zeroConst(res.At(j).Type())
			}
			continue
		}
		phi := &ssa.Phi{Comment: "inl." + callee.Name() + "#" + fmt.Sprint(j)}
		setBlock(phi, cont)
		resetRegister(phi, il.nextNum())
		setRegType(phi, res.At(j).Type())
		for _, r := range rets {
			e := remap(r.results[j])
			phi.Edges = append(phi.Edges, e)
			addRef(e, phi)
		}
		vals[j] = phi
		phis = append(phis, phi)
	}
	cont.Instrs = append(phis, cont.Instrs...)
	// 5. uses of the call
	if res.Len() == 1 {
		replaceUses(call, vals[0])
	} else if res.Len() > 1 {
		for _, u := range append([]ssa.Instruction(nil), *call.Referrers()...) {
			ex, ok := u.(*ssa.Extract)
			if !ok {
				continue
			}
			replaceUses(ex, vals[ex.Index])
			removeInstr(ex)
		}
	}
	// 6. enter the clone
	j := &ssa.Jump{}
	setBlock(j, b)
	b.Instrs = append(b.Instrs, j)
	entry := bm[callee.Blocks[0]]
	b.Succs = []*ssa.BasicBlock{entry}
	entry.Preds = append(entry.Preds, b)
	// 7. the call is gone
	for _, op := range call.Operands(nil) {
		if *op != nil {
			dropRef(*op, call)
		}
	}
	// 8. block list
	var out []*ssa.BasicBlock
	for _, x := range fn.Blocks {
		out = append(out, x)
		if x == b {
			out = append(out, nblocks...)
			out = append(out, cont)
		}
	}
	fn.Blocks = out
	cleanup(fn)
	if len(phis) > 0 {
		threadConstantResults(fn, cont)
		cleanup(fn)
		if splitReturn(cont) {
			cleanup(fn)
		}
		// threading can move the results into the block behind the caller's test of them
		// (`v, err := helper(); if err != nil { return x, err }`): that return is split the same way
		for again := true; again; {
			again = false
			for _, blk := range fn.Blocks {
				inl := false
				for _, in := range blk.Instrs {
					if ph, ok := in.(*ssa.Phi); ok && strings.HasPrefix(ph.Comment, "inl.") {
						inl = true
					}
				}
				if inl && splitReturn(blk) {
					cleanup(fn)
					again = true
					break
				}
			}
		}
	}
}

// splitReturn: `return helper(...)` leaves cont = [phis..., (rundefers), return phis].
// The source form of the same code has one return per return site of the
// helper, so the return is duplicated into every predecessor.
func splitReturn(cont *ssa.BasicBlock) bool {
	if len(cont.Instrs) == 0 || len(cont.Preds) < 2 {
		return false
	}
	ret, ok := cont.Instrs[len(cont.Instrs)-1].(*ssa.Return)
	if !ok {
		return false
	}
	var phis []*ssa.Phi
	hasRunDefers := false
	for _, in := range cont.Instrs[:len(cont.Instrs)-1] {
		switch x := in.(type) {
		case *ssa.Phi:
			phis = append(phis, x)
		case *ssa.RunDefers:
			hasRunDefers = true
		default:
			return false
		}
	}
	if len(phis) == 0 {
		return false
	}
	for _, ph := range phis {
		for _, u := range *ph.Referrers() {
			if u != ssa.Instruction(ret) {
				return false
			}
		}
	}
	for _, p := range cont.Preds {
		if _, ok := p.Instrs[len(p.Instrs)-1].(*ssa.Jump); !ok || len(p.Succs) != 1 {
			return false
		}
	}
	for k, p := range cont.Preds {
		nr := &ssa.Return{}
		setBlock(nr, p)
		for _, r := range ret.Results {
			v := r
			if ph, ok := r.(*ssa.Phi); ok && ph.Block() == cont {
				v = ph.Edges[k]
			}
			nr.Results = append(nr.Results, v)
			addRef(v, nr)
		}
		p.Instrs = p.Instrs[:len(p.Instrs)-1]
		if hasRunDefers {
			rd := &ssa.RunDefers{}
			setBlock(rd, p)
			p.Instrs = append(p.Instrs, rd)
		}
		p.Instrs = append(p.Instrs, nr)
		p.Succs = nil
	}
	cont.Preds = nil // now unreachable; cleanup drops it and its operand references
	return true
}

func isNillable(t types.Type) bool {
	switch t.Underlying().(type) {
	case *types.Pointer, *types.Slice, *types.Map, *types.Chan, *types.Interface, *types.Signature:
		return true
	}
	return false
}

func zeroConst(t types.Type) *ssa.Const {
	if b, ok := t.Underlying().(*types.Basic); ok {
		switch {
		case b.Info()&types.IsBoolean != 0:
			return ssa.NewConst(constant.MakeBool(false), t)
		case b.Info()&types.IsString != 0:
			return ssa.NewConst(constant.MakeString(""), t)
		case b.Info()&types.IsNumeric != 0:
			return ssa.NewConst(constant.MakeInt64(0), t)
		}
	}
	return ssa.NewConst(nil, t)
}

func removeInstr(in ssa.Instruction) {
	b := in.Block()
	for _, op := range in.Operands(nil) {
		if *op != nil {
			dropRef(*op, in)
		}
	}
	out := b.Instrs[:0]
	for _, x := range b.Instrs {
		if x != in {
			out = append(out, x)
		}
	}
	b.Instrs = out
}

// threadConstantResults: cont = [phis..., test, If] where test is a chain of
// `!` over a boolean phi of cont, or a comparison of a phi of cont with nil. A
// predecessor on which the outcome of the test is known (constant bool edge /
// constant nil edge) goes straight to the branch target; values of cont that
// are used below the target get a phi there.
func threadConstantResults(fn *ssa.Function, cont *ssa.BasicBlock) {
	if len(cont.Instrs) == 0 || len(cont.Succs) != 2 || cont.Succs[0] == cont.Succs[1] {
		return
	}
	term, ok := cont.Instrs[len(cont.Instrs)-1].(*ssa.If)
	if !ok {
		return
	}
	// the test, as a function from predecessor index to a known outcome
	testDefs := map[ssa.Instruction]bool{}
	var outcome func(k int) (bool, bool)
	{
		cond := term.Cond
		neg := false
		for {
			u, ok := cond.(*ssa.UnOp)
			if !ok || u.Op != token.NOT || u.Block() != cont {
				break
			}
			testDefs[u] = true
			cond = u.X
			neg = !neg
		}
		switch x := cond.(type) {
		case *ssa.Phi:
			if x.Block() != cont {
				return
			}
			outcome = func(k int) (bool, bool) {
				c, ok := x.Edges[k].(*ssa.Const)
				if !ok || c.Value == nil || c.Value.Kind() != constant.Bool {
					return false, false
				}
				return constant.BoolVal(c.Value) != neg, true
			}
		case *ssa.BinOp:
			if x.Block() != cont || (x.Op != token.EQL && x.Op != token.NEQ) {
				return
			}
			var ph *ssa.Phi
			if c, ok := x.Y.(*ssa.Const); ok && c.IsNil() {
				ph, _ = x.X.(*ssa.Phi)
			} else if c, ok := x.X.(*ssa.Const); ok && c.IsNil() {
				ph, _ = x.Y.(*ssa.Phi)
			}
			if ph == nil || ph.Block() != cont {
				return
			}
			testDefs[x] = true
			outcome = func(k int) (bool, bool) {
				if c, ok := ph.Edges[k].(*ssa.Const); ok && c.IsNil() {
					return (x.Op == token.EQL) != neg, true
				}
				if DefinitelyNonNil(ph.Edges[k], 0) {
					return (x.Op == token.NEQ) != neg, true
				}
				return false, false // unknown
			}
		default:
			return
		}
	}
	var phis []*ssa.Phi
	for _, in := range cont.Instrs {
		switch x := in.(type) {
		case *ssa.Phi:
			phis = append(phis, x)
		case *ssa.If:
		default:
			if !testDefs[in] {
				return
			}
		}
	}
	type edge struct {
		k      int
		target *ssa.BasicBlock
	}
	var edges []edge
	for k := range cont.Preds {
		if v, known := outcome(k); known {
			t := cont.Succs[1]
			if v {
				t = cont.Succs[0]
			}
			edges = append(edges, edge{k, t})
		}
	}
	if len(edges) == 0 {
		return
	}
	// uses of cont's phis outside cont (the test values themselves must not escape)
	for in := range testDefs {
		for _, u := range *in.(ssa.Value).Referrers() {
			if u.Block() != cont {
				return
			}
		}
	}
	type use struct {
		in  ssa.Instruction
		def *ssa.Phi
		blk *ssa.BasicBlock // block at whose end the value must be available
		op  *ssa.Value
	}
	var outside []use
	for _, d := range phis {
		for _, u := range *d.Referrers() {
			if u.Block() == cont {
				continue
			}
			if p, ok := u.(*ssa.Phi); ok {
				for i := range p.Edges {
					if p.Edges[i] == ssa.Value(d) {
						pb := p.Block().Preds[i]
						if pb == cont {
							continue // rewritten when the edge is redirected
						}
						outside = append(outside, use{u, d, pb, &p.Edges[i]})
					}
				}
				continue
			}
			for _, op := range u.Operands(nil) {
				if *op == ssa.Value(d) {
					outside = append(outside, use{u, d, u.Block(), op})
				}
			}
		}
	}
	threadedTo := map[*ssa.BasicBlock]bool{}
	for _, e := range edges {
		threadedTo[e.target] = true
	}
	// every outside use must lie below exactly one successor; below a successor
	// that receives threaded edges it needs a merge there, so that successor must
	// have cont as its only predecessor
	useSucc := map[int]*ssa.BasicBlock{}
	for i, u := range outside {
		var owner *ssa.BasicBlock
		for _, s := range cont.Succs {
			if len(s.Preds) == 1 && s.Dominates(u.blk) {
				owner = s
			}
		}
		if owner == nil {
			if threadedTo[cont.Succs[0]] || threadedTo[cont.Succs[1]] {
				// used at a join below both successors: would need full SSA reconstruction
				return
			}
		}
		useSucc[i] = owner
	}
	valueAt := func(v ssa.Value, k int) ssa.Value {
		if ph, ok := v.(*ssa.Phi); ok && ph.Block() == cont {
			return ph.Edges[k]
		}
		return v
	}
	// redirect
	perSucc := map[*ssa.BasicBlock][]int{}
	for _, e := range edges {
		p := cont.Preds[e.k]
		s := e.target
		ci := -1
		for i, pr := range s.Preds {
			if pr == cont {
				ci = i
			}
		}
		for i := range p.Succs {
			if p.Succs[i] == cont {
				p.Succs[i] = s
			}
		}
		s.Preds = append(s.Preds, p)
		for _, in := range s.Instrs {
			sp, ok := in.(*ssa.Phi)
			if !ok {
				break
			}
			v := valueAt(sp.Edges[ci], e.k)
			sp.Edges = append(sp.Edges, v)
			addRef(v, sp)
		}
		perSucc[s] = append(perSucc[s], e.k)
	}
	// merges for the outside uses
	repl := map[*ssa.BasicBlock]map[*ssa.Phi]ssa.Value{}
	for i, u := range outside {
		s := useSucc[i]
		if s == nil || len(perSucc[s]) == 0 {
			continue
		}
		if repl[s] == nil {
			repl[s] = map[*ssa.Phi]ssa.Value{}
		}
		nv := repl[s][u.def]
		if nv == nil {
			np := &ssa.Phi{Comment: u.def.Comment}
			setBlock(np, s)
			resetRegister(np, 900000+len(s.Instrs)+s.Index*100)
			setRegType(np, u.def.Type())
			// edge order = s.Preds: cont first, then the threaded predecessors
			np.Edges = append(np.Edges, u.def)
			addRef(u.def, np)
			for _, k := range perSucc[s] {
				v := valueAt(u.def, k)
				np.Edges = append(np.Edges, v)
				addRef(v, np)
			}
			s.Instrs = append([]ssa.Instruction{np}, s.Instrs...)
			repl[s][u.def] = np
			nv = np
		}
		dropRef(u.def, u.in)
		*u.op = nv
		addRef(nv, u.in)
	}
	// drop the threaded predecessors from cont
	gone := map[int]bool{}
	for _, e := range edges {
		gone[e.k] = true
	}
	var np []*ssa.BasicBlock
	for k, p := range cont.Preds {
		if !gone[k] {
			np = append(np, p)
		}
	}
	for _, ph := range phis {
		var ne []ssa.Value
		for k, e := range ph.Edges {
			if !gone[k] {
				ne = append(ne, e)
			}
		}
		for k, e := range ph.Edges {
			if gone[k] {
				still := false
				for _, x := range ne {
					if x == e {
						still = true
					}
				}
				// the merges created above may also refer to e: addRef was called for them
				if !still {
					dropRefOnce(e, ph)
				}
			}
		}
		ph.Edges = ne
	}
	cont.Preds = np
}

// dropRefOnce removes one occurrence of in from v's referrers.
func dropRefOnce(v ssa.Value, in ssa.Instruction) {
	if v == nil {
		return
	}
	r := v.Referrers()
	if r == nil {
		return
	}
	for i, x := range *r {
		if x == in {
			*r = append((*r)[:i], (*r)[i+1:]...)
			return
		}
	}
}

// cleanup removes unreachable blocks, renumbers, and rebuilds dominators.
func cleanup(fn *ssa.Function) {
	reach := map[*ssa.BasicBlock]bool{}
	var walk func(b *ssa.BasicBlock)
	walk = func(b *ssa.BasicBlock) {
		if reach[b] {
			return
		}
		reach[b] = true
		for _, s := range b.Succs {
			walk(s)
		}
	}
	walk(fn.Blocks[0])
	if fn.Recover != nil {
		walk(fn.Recover)
	}
	var live []*ssa.BasicBlock
	for _, b := range fn.Blocks {
		if reach[b] {
			live = append(live, b)
			continue
		}
		for _, in := range b.Instrs {
			for _, op := range in.Operands(nil) {
				if *op != nil {
					dropRef(*op, in)
				}
			}
		}
	}
	for _, b := range live {
		// predecessors that died
		dead := false
		for _, p := range b.Preds {
			if !reach[p] {
				dead = true
			}
		}
		if !dead {
			continue
		}
		var np []*ssa.BasicBlock
		keep := make([]bool, len(b.Preds))
		for i, p := range b.Preds {
			if reach[p] {
				np = append(np, p)
				keep[i] = true
			}
		}
		for _, in := range b.Instrs {
			ph, ok := in.(*ssa.Phi)
			if !ok {
				continue
			}
			var ne []ssa.Value
			for i, e := range ph.Edges {
				if keep[i] {
					ne = append(ne, e)
				}
			}
			for i, e := range ph.Edges {
				if !keep[i] && e != nil {
					still := false
					for _, x := range ne {
						if x == e {
							still = true
						}
					}
					if !still {
						dropRef(e, ph)
					}
				}
			}
			ph.Edges = ne
		}
		b.Preds = np
	}
	// values defined in dead blocks may still be listed as operands of dead
	// instructions only; live code cannot use them (they did not dominate it).
	fn.Blocks = live
	for i, b := range fn.Blocks {
		b.Index = i
	}
	// single-edge phis become their operand
	for _, b := range fn.Blocks {
		for _, in := range append([]ssa.Instruction(nil), b.Instrs...) {
			ph, ok := in.(*ssa.Phi)
			if !ok {
				break
			}
			if len(ph.Edges) == 1 && ph.Edges[0] != ssa.Value(ph) {
				e := ph.Edges[0]
				dropRef(e, ph)
				replaceUses(ph, e)
				out := b.Instrs[:0]
				for _, x := range b.Instrs {
					if x != in {
						out = append(out, x)
					}
				}
				b.Instrs = out
			}
		}
	}
	// `if !x` (only an inlined boolean result can produce it; the SSA builder
	// swaps the targets itself) becomes `if x` with the successors exchanged
	for _, b := range fn.Blocks {
		iff, ok := b.Instrs[len(b.Instrs)-1].(*ssa.If)
		if !ok {
			continue
		}
		for {
			u, ok := iff.Cond.(*ssa.UnOp)
			if !ok || u.Op != token.NOT {
				break
			}
			dropRef(u, iff)
			iff.Cond = u.X
			addRef(u.X, iff)
			b.Succs[0], b.Succs[1] = b.Succs[1], b.Succs[0]
		}
	}
	rebuildDom(fn)
}

type domFields struct {
	idom     reflect.Value
	children reflect.Value
	pre      reflect.Value
	post     reflect.Value
}

func domOf(b *ssa.BasicBlock) domFields {
	d := unexported(reflect.ValueOf(b).Elem(), "dom")
	return domFields{unexported(d, "idom"), unexported(d, "children"), unexported(d, "pre"), unexported(d, "post")}
}

// rebuildDom recomputes BasicBlock.dom (iterative algorithm of Cooper, Harvey
// and Kennedy) with the same conventions as go/ssa: entry and Recover are roots.
func rebuildDom(fn *ssa.Function) {
	n := len(fn.Blocks)
	roots := []*ssa.BasicBlock{fn.Blocks[0]}
	if fn.Recover != nil {
		roots = append(roots, fn.Recover)
	}
	// reverse postorder over a virtual root
	order := make([]*ssa.BasicBlock, 0, n)
	seen := make([]bool, n)
	var dfs func(b *ssa.BasicBlock)
	dfs = func(b *ssa.BasicBlock) {
		seen[b.Index] = true
		for _, s := range b.Succs {
			if !seen[s.Index] {
				dfs(s)
			}
		}
		order = append(order, b)
	}
	for i := len(roots) - 1; i >= 0; i-- {
		if !seen[roots[i].Index] {
			dfs(roots[i])
		}
	}
	rpo := make([]int, n) // block index -> position in reverse postorder (virtual root = -1)
	for i := range order {
		rpo[order[i].Index] = len(order) - 1 - i
	}
	const virt = -1
	idom := make([]int, n)
	for i := range idom {
		idom[i] = -2 // undefined
	}
	isRoot := make([]bool, n)
	for _, r := range roots {
		idom[r.Index] = virt
		isRoot[r.Index] = true
	}
	intersect := func(a, b int) int {
		for a != b {
			if a == virt || b == virt {
				return virt
			}
			for a != virt && b != virt && rpo[a] > rpo[b] {
				a = idom[a]
			}
			for a != virt && b != virt && rpo[b] > rpo[a] {
				b = idom[b]
			}
		}
		return a
	}
	for changed := true; changed; {
		changed = false
		for i := len(order) - 1; i >= 0; i-- {
			b := order[i]
			if isRoot[b.Index] {
				continue
			}
			nw := -2
			for _, p := range b.Preds {
				if idom[p.Index] == -2 {
					continue
				}
				if nw == -2 {
					nw = p.Index
				} else {
					nw = intersect(p.Index, nw)
				}
			}
			if nw != -2 && idom[b.Index] != nw {
				idom[b.Index] = nw
				changed = true
			}
		}
	}
	children := make([][]*ssa.BasicBlock, n)
	for _, b := range fn.Blocks {
		d := domOf(b)
		var parent *ssa.BasicBlock
		if id := idom[b.Index]; id >= 0 {
			parent = fn.Blocks[id]
			children[id] = append(children[id], b)
		} else if id == virt && !isRoot[b.Index] {
			// dominated only by the virtual root (reachable from both roots): attach to entry
			parent = fn.Blocks[0]
			children[0] = append(children[0], b)
		}
		if parent != nil {
			d.idom.Set(reflect.ValueOf(parent))
		} else {
			d.idom.Set(reflect.Zero(d.idom.Type()))
		}
	}
	for _, b := range fn.Blocks {
		d := domOf(b)
		if len(children[b.Index]) == 0 {
			d.children.Set(reflect.Zero(d.children.Type()))
		} else {
			d.children.Set(reflect.ValueOf(children[b.Index]))
		}
	}
	var pre, post int32
	var number func(b *ssa.BasicBlock)
	number = func(b *ssa.BasicBlock) {
		d := domOf(b)
		d.pre.SetInt(int64(pre))
		pre++
		for _, c := range children[b.Index] {
			number(c)
		}
		d.post.SetInt(int64(post))
		post++
	}
	for _, r := range roots {
		number(r)
	}
}

// Validate checks the structural invariants the primitives rely on.
func Validate(fn *ssa.Function) error {
	idx := map[*ssa.BasicBlock]bool{}
	for i, b := range fn.Blocks {
		if b.Index != i {
			return fmt.Errorf("block %d has index %d", i, b.Index)
		}
		if b.Parent() != fn {
			return fmt.Errorf("block %d has the wrong parent", i)
		}
		idx[b] = true
	}
	where := map[ssa.Value]*ssa.BasicBlock{}
	pos := map[ssa.Instruction]int{}
	for _, b := range fn.Blocks {
		for i, in := range b.Instrs {
			pos[in] = i
			if v, ok := in.(ssa.Value); ok {
				where[v] = b
			}
		}
	}
	for _, b := range fn.Blocks {
		if len(b.Instrs) == 0 {
			return fmt.Errorf("block %d is empty", b.Index)
		}
		for _, s := range b.Succs {
			if !idx[s] {
				return fmt.Errorf("block %d has a successor outside the function", b.Index)
			}
			n, m := 0, 0
			for _, x := range b.Succs {
				if x == s {
					n++
				}
			}
			for _, x := range s.Preds {
				if x == b {
					m++
				}
			}
			if n != m {
				return fmt.Errorf("edge %d->%d: %d succ entries, %d pred entries", b.Index, s.Index, n, m)
			}
		}
		for _, p := range b.Preds {
			if !idx[p] {
				return fmt.Errorf("block %d has a predecessor outside the function", b.Index)
			}
		}
		last := b.Instrs[len(b.Instrs)-1]
		switch last.(type) {
		case *ssa.If:
			if len(b.Succs) != 2 {
				return fmt.Errorf("block %d: If with %d successors", b.Index, len(b.Succs))
			}
		case *ssa.Jump:
			if len(b.Succs) != 1 {
				return fmt.Errorf("block %d: Jump with %d successors", b.Index, len(b.Succs))
			}
		case *ssa.Return, *ssa.Panic:
			if len(b.Succs) != 0 {
				return fmt.Errorf("block %d: exit with successors", b.Index)
			}
		default:
			return fmt.Errorf("block %d does not end in a terminator (%T)", b.Index, last)
		}
		for i, in := range b.Instrs {
			if in.Block() != b {
				return fmt.Errorf("block %d instr %d (%T) records another block", b.Index, i, in)
			}
			if ph, ok := in.(*ssa.Phi); ok {
				if len(ph.Edges) != len(b.Preds) {
					return fmt.Errorf("block %d: phi with %d edges, %d preds", b.Index, len(ph.Edges), len(b.Preds))
				}
			}
			for oi, op := range in.Operands(nil) {
				v := *op
				if v == nil {
					continue
				}
				db, isInstr := where[v]
				if _, ok := v.(ssa.Instruction); ok && !isInstr {
					return fmt.Errorf("block %d: %T uses %s (%T) which is not in the function", b.Index, in, v.Name(), v)
				}
				if r := v.Referrers(); r != nil {
					found := false
					for _, x := range *r {
						if x == in {
							found = true
						}
					}
					if !found {
						return fmt.Errorf("block %d: %T is not among the referrers of its operand %s", b.Index, in, v.Name())
					}
				}
				if isInstr && !(fn.Recover != nil && fn.Recover.Dominates(b)) {
					ub := b
					if ph, ok := in.(*ssa.Phi); ok {
						ub = b.Preds[oi]
						_ = ph
						if !db.Dominates(ub) {
							return fmt.Errorf("block %d: phi edge %d uses %s defined in block %d which does not dominate block %d", b.Index, oi, v.Name(), db.Index, ub.Index)
						}
						continue
					}
					if db == ub {
						if pos[v.(ssa.Instruction)] >= i {
							return fmt.Errorf("block %d: %T uses %s before its definition", b.Index, in, v.Name())
						}
					} else if !db.Dominates(ub) {
						return fmt.Errorf("block %d: %T uses %s defined in block %d which does not dominate it", b.Index, in, v.Name(), db.Index)
					}
				}
			}
		}
	}
	return nil
}

// LoadKnownFuncs reads the baseline function list (one String() per line).
func LoadKnownFuncs(data []byte) map[string]bool {
	m := map[string]bool{}
	for _, l := range strings.Split(string(data), "\n") {
		l = strings.TrimSpace(l)
		if l != "" && !strings.HasPrefix(l, "#") {
			m[l] = true
		}
	}
	return m
}

// DeclaredFuncNames lists the String() of every declared module function.
func (p *Prog) DeclaredFuncNames() []string {
	var out []string
	for f := range p.allFuncs {
		if pk := FuncPkg(f); pk != nil && strings.HasPrefix(pk.Path(), ModulePath) && f.Blocks != nil && f.Parent() == nil && f.Synthetic == "" {
			out = append(out, f.String())
		}
	}
	sort.Strings(out)
	return out
}

// Delegators: for a function that is not on the baseline list, is not exported
// and is referenced only in call position (call, defer, go), the functions that
// call it. Such a helper acts on behalf of its callers: who-may-touch rules treat
// it like them (see AllowedFunc). nil for every other function.
func (p *Prog) Delegators(fn *ssa.Function) []*ssa.Function {
	if p.known == nil || fn == nil || fn.Parent() != nil || fn.Synthetic != "" || p.known[fn.String()] {
		return nil
	}
	if fn.Object() == nil || fn.Object().Exported() {
		return nil
	}
	if fn.Signature.Recv() != nil && p.ifaceMethodNames()[fn.Name()] {
		return nil
	}
	if d, ok := p.delegators[fn]; ok {
		return d
	}
	var out []*ssa.Function
	seen := map[*ssa.Function]bool{}
	bad := false
	for g := range p.allFuncs {
		if strings.HasPrefix(g.Synthetic, "wrapper for ") && fn.Signature.Recv() != nil {
			// promoted-method wrapper (a type embedding the receiver) of an unexported method that
			// no interface names: nothing can reach it. (Bound-method and method-expression thunks
			// are not skipped: they mean the method escapes as a value.)
			continue
		}
		for _, b := range g.Blocks {
			for _, in := range b.Instrs {
				cc := CallOf(in)
				for _, op := range in.Operands(nil) {
					if *op != ssa.Value(fn) {
						continue
					}
					if cc == nil || cc.Value != ssa.Value(fn) || op != &cc.Value {
						bad = true
						continue
					}
					if !seen[g] {
						seen[g] = true
						out = append(out, g)
					}
				}
			}
		}
	}
	if bad || len(out) == 0 {
		out = nil
	}
	sort.Slice(out, func(i, j int) bool { return out[i].String() < out[j].String() })
	if p.delegators == nil {
		p.delegators = map[*ssa.Function][]*ssa.Function{}
	}
	p.delegators[fn] = out
	return out
}

// AllowedFunc reports whether fn satisfies allowed, either itself or - for a
// helper the rule tables do not know - because every function it acts for does.
func (p *Prog) AllowedFunc(fn *ssa.Function, allowed func(f *ssa.Function) bool) bool {
	return p.allowedFunc(fn, allowed, 0)
}

func (p *Prog) allowedFunc(fn *ssa.Function, allowed func(f *ssa.Function) bool, depth int) bool {
	if allowed(fn) {
		return true
	}
	if depth > 3 {
		return false
	}
	// a closure acts for the function it is written in (its position among the
	// parent's closures is not part of any rule)
	outer := fn
	for outer.Parent() != nil {
		outer = outer.Parent()
	}
	if outer != fn && allowed(outer) {
		return true
	}
	ds := p.Delegators(outer)
	if len(ds) == 0 {
		return false
	}
	for _, d := range ds {
		if !p.allowedFunc(d, allowed, depth+1) {
			return false
		}
	}
	return true
}

// DefinitelyNonNil: v cannot be nil - a freshly made interface value or
// allocation, or the result of a constructor that never returns nil
// (errors.New, fmt.Errorf, oops.Errorf, or a module function all of whose
// returns are such values).
func DefinitelyNonNil(v ssa.Value, depth int) bool {
	if depth > 3 {
		return false
	}
	switch x := v.(type) {
	case *ssa.MakeInterface, *ssa.Alloc, *ssa.MakeMap, *ssa.MakeSlice, *ssa.MakeChan, *ssa.MakeClosure, *ssa.Function:
		return true
	case *ssa.ChangeInterface:
		return DefinitelyNonNil(x.X, depth+1)
	case *ssa.ChangeType:
		return DefinitelyNonNil(x.X, depth+1)
	case *ssa.Phi:
		for _, e := range x.Edges {
			if e == ssa.Value(x) || !DefinitelyNonNil(e, depth+1) {
				return false
			}
		}
		return len(x.Edges) > 0
	case *ssa.Call:
		f := x.Call.StaticCallee()
		if f == nil {
			return false
		}
		if f.Pkg != nil {
			switch f.Pkg.Pkg.Path() + "." + f.Name() {
			case "errors.New", "fmt.Errorf", "github.com/samsarahq/go/oops.Errorf":
				return true
			}
		}
		if f.Blocks == nil || f.Signature.Results().Len() != 1 {
			return false
		}
		pk := FuncPkg(f)
		if pk == nil || !strings.HasPrefix(pk.Path(), ModulePath) {
			return false
		}
		n := 0
		for _, b := range f.Blocks {
			if ret, ok := b.Instrs[len(b.Instrs)-1].(*ssa.Return); ok {
				n++
				if !DefinitelyNonNil(ret.Results[0], depth+1) {
					return false
				}
			}
		}
		return n > 0
	}
	return false
}
