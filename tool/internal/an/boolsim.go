package an

import (
	"fmt"
	"go/constant"
	"go/token"
	"sort"
	"strings"

	"golang.org/x/tools/go/ssa"
)

// BoolSim explores the control flow of one function under a fixed truth
// assignment for a few boolean atoms (R-BOOL rules). Conditions that are
// boolean combinations of atoms, constants and phis of such values are
// followed exactly; every other condition forks. The result is the set of
// blocks that some execution consistent with the assignment can reach - so a
// decision written with flag variables, early returns, negations or nested ifs
// gives the same answer as long as it computes the same function of the atoms.
type BoolSim struct {
	Fn *ssa.Function
	// Atom returns the truth value assigned to v, if v is an atom.
	Atom func(v ssa.Value) (val, ok bool)
	// Stop: a block containing one of these instructions is reached but not left
	// (used for "cannot get from A to B without passing X" under an assignment).
	Stop map[ssa.Instruction]bool
	// In records, after Run, through which predecessor indices each block was entered.
	In map[*ssa.BasicBlock]map[int]bool
	// Returns records, after Run, every (return, evaluated boolean results) that was reached;
	// a result that is not a known boolean is "?".
	Returns []SimReturn
	// Watch: when a block containing the key instruction is processed, the listed
	// values are evaluated in the current environment; Observed[instr][k] collects
	// "true", "false" or "?" for the k-th value.
	Watch    map[ssa.Instruction][]ssa.Value
	Observed map[ssa.Instruction][]map[string]bool
	// Track: phis (of any type) whose incoming value is followed per path; for a watched
	// value that is a tracked phi, ObservedVals collects the values it stood for.
	Track        map[*ssa.Phi]bool
	ObservedVals map[ssa.Instruction][]map[ssa.Value]bool
}

// SimReturn is one way a return was reached: Vals[k] is "true", "false" or "?".
type SimReturn struct {
	Ret  *ssa.Return
	Vals []string
}

// ReturnedBools lists the distinct values result k took over all reached returns.
func (s *BoolSim) ReturnedBools(k int) map[string]bool {
	out := map[string]bool{}
	for _, r := range s.Returns {
		if k < len(r.Vals) {
			out[r.Vals[k]] = true
		}
	}
	return out
}

// ValuesAt resolves v at the end of block b after Run: a phi of b becomes the
// edge values of the predecessors b was entered through; anything else is itself.
func (s *BoolSim) ValuesAt(v ssa.Value, b *ssa.BasicBlock) []ssa.Value {
	ph, ok := v.(*ssa.Phi)
	if !ok || ph.Block() != b {
		return []ssa.Value{v}
	}
	var out []ssa.Value
	for k := range ph.Edges {
		if s.In[b][k] {
			out = append(out, ph.Edges[k])
		}
	}
	return out
}

type simState struct {
	b      *ssa.BasicBlock
	pred   int
	env    map[ssa.Value]bool
	choice map[*ssa.Phi]ssa.Value
}

func (s *BoolSim) eval(v ssa.Value, env map[ssa.Value]bool) (bool, bool) {
	if val, ok := s.Atom(v); ok {
		return val, true
	}
	if val, ok := env[v]; ok {
		return val, true
	}
	switch x := v.(type) {
	case *ssa.Const:
		if x.Value != nil && x.Value.Kind() == constant.Bool {
			return constant.BoolVal(x.Value), true
		}
	case *ssa.UnOp:
		if x.Op == token.NOT {
			if val, ok := s.eval(x.X, env); ok {
				return !val, true
			}
		}
	case *ssa.BinOp:
		if x.Op == token.EQL || x.Op == token.NEQ {
			a, oka := s.eval(x.X, env)
			b, okb := s.eval(x.Y, env)
			if oka && okb {
				return (a == b) == (x.Op == token.EQL), true
			}
		}
	case *ssa.ChangeType:
		return s.eval(x.X, env)
	}
	return false, false
}

func envKey(env map[ssa.Value]bool) string {
	var ks []string
	for v, b := range env {
		ks = append(ks, fmt.Sprintf("%s=%v", v.Name(), b))
	}
	sort.Strings(ks)
	return strings.Join(ks, ",")
}

func choiceKey(ch map[*ssa.Phi]ssa.Value) string {
	if len(ch) == 0 {
		return ""
	}
	var ks []string
	for p, v := range ch {
		ks = append(ks, p.Name()+"="+v.Name())
	}
	sort.Strings(ks)
	return strings.Join(ks, ",")
}

// Run returns the blocks reachable from the entry under the assignment.
func (s *BoolSim) Run() map[*ssa.BasicBlock]bool {
	reached := map[*ssa.BasicBlock]bool{}
	s.In = map[*ssa.BasicBlock]map[int]bool{}
	s.Returns = nil
	seenRet := map[string]bool{}
	seen := map[string]bool{}
	work := []simState{{s.Fn.Blocks[0], -1, map[ssa.Value]bool{}, nil}}
	steps := 0
	for len(work) > 0 && steps < 200000 {
		steps++
		st := work[len(work)-1]
		work = work[:len(work)-1]
		// phis take the value of the edge we came in on (all read the old environment)
		env := st.env
		if st.pred >= 0 {
			nenv := make(map[ssa.Value]bool, len(env)+2)
			for k, v := range env {
				nenv[k] = v
			}
			for _, in := range st.b.Instrs {
				ph, ok := in.(*ssa.Phi)
				if !ok {
					break
				}
				if val, ok := s.eval(ph.Edges[st.pred], env); ok {
					nenv[ph] = val
				} else {
					delete(nenv, ph)
				}
			}
			env = nenv
		}
		choice := st.choice
		if st.pred >= 0 && len(s.Track) > 0 {
			var nch map[*ssa.Phi]ssa.Value
			for _, in := range st.b.Instrs {
				ph, ok := in.(*ssa.Phi)
				if !ok {
					break
				}
				if !s.Track[ph] {
					continue
				}
				if nch == nil {
					nch = make(map[*ssa.Phi]ssa.Value, len(choice)+1)
					for k, v := range choice {
						nch[k] = v
					}
				}
				e := ph.Edges[st.pred]
				if eph, ok := e.(*ssa.Phi); ok {
					if cv, ok := choice[eph]; ok { // (phis read the old choices)
						e = cv
					}
				}
				nch[ph] = e
			}
			if nch != nil {
				choice = nch
			}
		}
		if st.pred >= 0 {
			if s.In[st.b] == nil {
				s.In[st.b] = map[int]bool{}
			}
			s.In[st.b][st.pred] = true
		}
		key := fmt.Sprintf("%d|%s|%s", st.b.Index, envKey(env), choiceKey(choice))
		if seen[key] {
			continue
		}
		seen[key] = true
		reached[st.b] = true
		predIdx := func(succ *ssa.BasicBlock, k int) int {
			// index of the k-th edge b->succ among succ.Preds
			n := 0
			for i, p := range succ.Preds {
				if p == st.b {
					if n == k {
						return i
					}
					n++
				}
			}
			return -1
		}
		stopped := false
		for _, in := range st.b.Instrs {
			if s.Stop[in] {
				stopped = true
			}
			if vals, ok := s.Watch[in]; ok {
				if s.Observed == nil {
					s.Observed = map[ssa.Instruction][]map[string]bool{}
				}
				if s.Observed[in] == nil {
					s.Observed[in] = make([]map[string]bool, len(vals))
				}
				for k, v := range vals {
					if s.Observed[in][k] == nil {
						s.Observed[in][k] = map[string]bool{}
					}
					if val, known := s.eval(v, env); known {
						s.Observed[in][k][fmt.Sprint(val)] = true
					} else {
						s.Observed[in][k]["?"] = true
					}
					if ph, ok := v.(*ssa.Phi); ok && s.Track[ph] {
						if s.ObservedVals == nil {
							s.ObservedVals = map[ssa.Instruction][]map[ssa.Value]bool{}
						}
						if s.ObservedVals[in] == nil {
							s.ObservedVals[in] = make([]map[ssa.Value]bool, len(vals))
						}
						if s.ObservedVals[in][k] == nil {
							s.ObservedVals[in][k] = map[ssa.Value]bool{}
						}
						if cv, ok := choice[ph]; ok {
							s.ObservedVals[in][k][cv] = true
						} else {
							s.ObservedVals[in][k][ph] = true
						}
					}
				}
			}
		}
		if stopped {
			continue
		}
		last := st.b.Instrs[len(st.b.Instrs)-1]
		if ret, ok := last.(*ssa.Return); ok {
			sr := SimReturn{Ret: ret}
			for _, rv := range ret.Results {
				if val, known := s.eval(rv, env); known {
					sr.Vals = append(sr.Vals, fmt.Sprint(val))
				} else {
					sr.Vals = append(sr.Vals, "?")
				}
			}
			k := fmt.Sprintf("%p|%v", ret, sr.Vals)
			if !seenRet[k] {
				seenRet[k] = true
				s.Returns = append(s.Returns, sr)
			}
		}
		if iff, ok := last.(*ssa.If); ok {
			val, known := s.eval(iff.Cond, env)
			same := st.b.Succs[0] == st.b.Succs[1]
			for si, succ := range st.b.Succs {
				if known && (val != (si == 0)) {
					continue
				}
				k := 0
				if same && si == 1 {
					k = 1
				}
				work = append(work, simState{succ, predIdx(succ, k), env, choice})
			}
			continue
		}
		for _, succ := range st.b.Succs {
			work = append(work, simState{succ, predIdx(succ, 0), env, choice})
		}
	}
	return reached
}
