package an

import (
	"encoding/json"
	"fmt"
	"os"
	"path/filepath"
	"runtime/debug"
	"sort"
	"strings"
	"time"

	"golang.org/x/tools/go/ssa"
)

// Status of an obligation.
type Status string

const (
	Holds     Status = "holds"
	Violated  Status = "violated"
	Undecided Status = "undecided"
)

// Obl is one obligation: (property, rule, construct) with its verdict.
type Obl struct {
	Property  string   `json:"property"`
	Rule      string   `json:"rule"`
	Construct string   `json:"construct"`
	Status    Status   `json:"status"`
	Sites     []string `json:"sites,omitempty"` // file:line of constructs examined
	Pos       string   `json:"pos,omitempty"`   // where it fails
	Msg       string   `json:"msg,omitempty"`
	Note      string   `json:"note,omitempty"`
	Min       int      `json:"min_sites,omitempty"`
	Known     string   `json:"known,omitempty"`
}

func (o *Obl) Key() string { return o.Property + "|" + o.Rule + "|" + o.Construct }

// O is the handle an obligation body uses to record what it examined.
type O struct {
	obl  *Obl
	prog *Prog
}

// Site records that a construct was examined.
func (o *O) Site(i ssa.Instruction) { o.obl.Sites = append(o.obl.Sites, o.prog.InstrPos(i)) }

// SitePos records an examined construct by rendered position.
func (o *O) SitePos(pos string) { o.obl.Sites = append(o.obl.Sites, pos) }

// Fail marks the obligation violated (first failure wins for Pos; messages accumulate).
func (o *O) Fail(pos string, format string, args ...interface{}) {
	msg := fmt.Sprintf(format, args...)
	if o.obl.Status != Violated {
		o.obl.Status = Violated
		o.obl.Pos = pos
		o.obl.Msg = msg
		return
	}
	o.obl.Msg += "; " + pos + ": " + msg
}

// FailAt is Fail positioned at an instruction.
func (o *O) FailAt(i ssa.Instruction, format string, args ...interface{}) {
	o.Fail(o.prog.InstrPos(i), format, args...)
}

// Undecided marks the obligation as not decidable (anchor missing, shape unknown).
func (o *O) Undecided(format string, args ...interface{}) {
	if o.obl.Status == Violated {
		return
	}
	o.obl.Status = Undecided
	o.obl.Msg = fmt.Sprintf(format, args...)
}

// Note attaches free text to the obligation.
func (o *O) Note(format string, args ...interface{}) { o.obl.Note = fmt.Sprintf(format, args...) }

// Failed reports whether the obligation has been marked violated.
func (o *O) Failed() bool { return o.obl.Status == Violated }

// Ctx collects the obligations of one property check.
type Ctx struct {
	P        *Prog
	Property string
	Tier     string
	Obls     []*Obl
}

// anchorMissing is panicked by Need* helpers.
type anchorMissing string

// Check evaluates one obligation. min is the minimum number of Site() calls the
// body must make (hand-confirmed instance count); fewer makes it undecided.
func (c *Ctx) Check(rule, construct string, min int, body func(o *O)) *Obl {
	obl := &Obl{Property: c.Property, Rule: rule, Construct: construct, Status: Holds, Min: min}
	c.Obls = append(c.Obls, obl)
	o := &O{obl: obl, prog: c.P}
	func() {
		defer func() {
			if r := recover(); r != nil {
				if am, ok := r.(anchorMissing); ok {
					obl.Status = Undecided
					obl.Msg = "anchor not found: " + string(am)
					return
				}
				obl.Status = Undecided
				obl.Msg = fmt.Sprintf("analysis panic: %v\n%s", r, debug.Stack())
			}
		}()
		body(o)
	}()
	if obl.Status == Holds && len(obl.Sites) < min {
		obl.Status = Undecided
		obl.Msg = fmt.Sprintf("rule matched %d constructs, expected at least %d (anchor drifted?)", len(obl.Sites), min)
	}
	return obl
}

// NeedFunc returns the function or aborts the obligation as undecided.
func (c *Ctx) NeedFunc(rel, name string) *ssa.Function {
	f := c.P.Func(rel, name)
	if f == nil || f.Blocks == nil {
		panic(anchorMissing(rel + "." + name))
	}
	return f
}

// Need aborts the obligation as undecided when cond is false.
func Need(cond bool, what string) {
	if !cond {
		panic(anchorMissing(what))
	}
}

// ---------------------------------------------------------------------------
// Known findings

// Finding is an entry of known_findings.json.
type Finding struct {
	Status    string `json:"status"` // "finding" or "fixed"
	Property  string `json:"property"`
	Rule      string `json:"rule"`
	Construct string `json:"construct"`
	What      string `json:"what"`
	Commit    string `json:"commit,omitempty"`
	ID        string `json:"id,omitempty"`
	Line      string `json:"line,omitempty"`
}

type findingsFile struct {
	Comment  string    `json:"comment"`
	Findings []Finding `json:"findings"`
}

// LoadFindings reads known_findings.json.
func LoadFindings(path string) ([]Finding, error) {
	b, err := os.ReadFile(path)
	if err != nil {
		return nil, err
	}
	var ff findingsFile
	if err := json.Unmarshal(b, &ff); err != nil {
		return nil, err
	}
	return ff.Findings, nil
}

// ---------------------------------------------------------------------------
// Output

// Result summarises a run.
type Result struct {
	Violations int
	Known      int
	Undecided  int
	Lines      []string
}

// Finish matches violated obligations against the known findings, writes the
// violation replay files and the evidence file, and prints the verdict lines.
func (c *Ctx) Finish(verifDir string, findings []Finding, start time.Time, seed int64, extra map[string]interface{}) Result {
	var res Result
	known := map[string]Finding{}
	for _, f := range findings {
		if f.Status == "finding" {
			known[f.Property+"|"+f.Rule+"|"+f.Construct] = f
		}
	}
	vdir := filepath.Join(verifDir, "out", "violations")
	os.MkdirAll(vdir, 0o755)
	// remove stale replay files of this property
	if old, _ := filepath.Glob(filepath.Join(vdir, c.Property+"-*.json")); old != nil {
		for _, f := range old {
			os.Remove(f)
		}
	}
	n := 0
	for _, o := range c.Obls {
		switch o.Status {
		case Violated:
			if f, ok := known[o.Key()]; ok {
				o.Known = f.ID
				res.Known++
				res.Lines = append(res.Lines, fmt.Sprintf("KNOWN-FINDING: property=%s %s %s %s [%s: %s]", c.Property, o.Rule, o.Construct, f.What, o.Pos, o.Msg))
				continue
			}
			n++
			res.Violations++
			path := filepath.Join(vdir, fmt.Sprintf("%s-%d.json", c.Property, n))
			b, _ := json.MarshalIndent(o, "", " ")
			os.WriteFile(path, b, 0o644)
			res.Lines = append(res.Lines, fmt.Sprintf("VIOLATION property=%s replay=%s", c.Property, path))
			res.Lines = append(res.Lines, fmt.Sprintf("  rule=%s construct=%s at %s: %s", o.Rule, o.Construct, o.Pos, o.Msg))
		case Undecided:
			res.Undecided++
			res.Lines = append(res.Lines, fmt.Sprintf("ERROR property=%s undecided rule=%s construct=%s: %s", c.Property, o.Rule, o.Construct, o.Msg))
		}
	}
	c.writeEvidence(verifDir, res, start, seed, extra)
	return res
}

func (c *Ctx) writeEvidence(verifDir string, res Result, start time.Time, seed int64, extra map[string]interface{}) {
	discharged, nontrivial := 0, 0
	distinct := map[string]bool{}
	rules := map[string]int{}
	sites := 0
	var samples []interface{}
	for _, o := range c.Obls {
		if o.Status == Holds || o.Known != "" {
			discharged++
		}
		if len(o.Sites) > 0 && !distinct[o.Key()] {
			distinct[o.Key()] = true
			nontrivial++
		}
		rules[o.Rule]++
		sites += len(o.Sites)
		s := map[string]interface{}{"rule": o.Rule, "construct": o.Construct, "status": string(o.Status), "sites": o.Sites}
		if o.Msg != "" {
			s["msg"] = o.Msg
			s["pos"] = o.Pos
		}
		if o.Note != "" {
			s["note"] = o.Note
		}
		if o.Known != "" {
			s["known_finding"] = o.Known
		}
		samples = append(samples, s)
	}
	var ruleList []string
	for r, n := range rules {
		ruleList = append(ruleList, fmt.Sprintf("%s x%d", r, n))
	}
	sort.Strings(ruleList)
	cov := map[string]interface{}{
		"explanation":         Explanations[c.Property],
		"obligations":         len(c.Obls),
		"discharged":          discharged,
		"evaluations":         len(c.Obls),
		"distinct_nontrivial": nontrivial,
		"rule":                "one obligation per (rule, construct) listed in DESIGN.md section 4 for this property; an obligation is non-trivial when it examined at least one construct (call site, store, branch, case table) of the current /repo source; distinct by rule+construct key",
		"samples":             samples,
		"rule_instances":      ruleList,
		"constructs_examined": sites,
		"packages_loaded":     len(c.P.Pkgs),
		"functions_in_module": c.P.NumFuncs,
		"undecided":           res.Undecided,
		"known_findings":      res.Known,
		"checker_cmd":         "./check " + c.Property + " " + c.Tier,
		"trusted_base": []string{
			"go/types and go/ssa (x/tools v0.29.0) model the compiled program faithfully",
			"anchors (function, type and field names) listed in DESIGN.md section 4 denote the constructs they name",
			"no reflection-based or linkname calls reach the anchored functions from inside the module",
			"third-party packages behave as documented",
		},
	}
	for k, v := range extra {
		cov[k] = v
	}
	ev := map[string]interface{}{
		"property_id": c.Property,
		"tier":        c.Tier,
		"seed":        seed,
		"level":       "other",
		"coverage":    cov,
		"assumptions": []string{
			"decides structural necessary conditions (DESIGN.md section 4), not the runtime behaviour itself",
			"seed is recorded but unused: the analysis is deterministic",
		},
		"wall_s":     time.Since(start).Seconds(),
		"violations": res.Violations,
	}
	os.MkdirAll(filepath.Join(verifDir, "evidence"), 0o755)
	b, _ := json.MarshalIndent(ev, "", " ")
	os.WriteFile(filepath.Join(verifDir, "evidence", c.Property+".json"), b, 0o644)
}

// Explanations holds, per property, the evidence text saying what is decided.
var Explanations = map[string]string{}

// Short trims a string for messages.
func Short(s string, n int) string {
	s = strings.ReplaceAll(s, "\n", " ")
	if len(s) > n {
		return s[:n] + "…"
	}
	return s
}
