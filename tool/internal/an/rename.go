package an

// Rename normalisation. The rule tables name functions, methods and struct
// fields of the tree they were written against. A refactor that merely renames
// one of them (updating all uses) leaves behaviour unchanged; to keep deciding
// such a tree, the loader compares the declared functions and fields with the
// baseline (name + signature / name + type): when a baseline name has
// disappeared and exactly one new declaration with the identical signature (or
// field type) has appeared in the same package and receiver type (same struct),
// the new name is rewritten back to the old one in an in-memory overlay and the
// module is loaded again. Nothing under the repository is written, and the
// evidence lists the renames that were undone.

import (
	"go/ast"
	"go/types"
	"os"
	"sort"
	"strings"

	"golang.org/x/tools/go/packages"
)

// Baseline is the parsed baseline_funcs.txt.
type Baseline struct {
	Funcs  map[string]string // ssa-style name -> signature
	Fields map[string]string // pkgpath.Type.field -> type
}

func ParseBaseline(data []byte) *Baseline {
	b := &Baseline{Funcs: map[string]string{}, Fields: map[string]string{}}
	for _, l := range strings.Split(string(data), "\n") {
		l = strings.TrimRight(l, "\r")
		if strings.TrimSpace(l) == "" || strings.HasPrefix(l, "#") {
			continue
		}
		parts := strings.SplitN(l, "\t", 2)
		sig := ""
		if len(parts) == 2 {
			sig = parts[1]
		}
		if strings.HasPrefix(parts[0], "field:") {
			b.Fields[strings.TrimPrefix(parts[0], "field:")] = sig
		} else {
			b.Funcs[parts[0]] = sig
		}
	}
	return b
}

func qualFull(p *types.Package) string { return p.Path() }

// funcKey renders a declared function like go/ssa's Function.String().
func funcKey(f *types.Func) (key, container, sig string) {
	s := f.Type().(*types.Signature)
	sigNoRecv := types.NewSignatureType(nil, nil, nil, s.Params(), s.Results(), s.Variadic())
	sig = types.TypeString(sigNoRecv, qualFull)
	if r := s.Recv(); r != nil {
		rt := types.TypeString(r.Type(), qualFull)
		return "(" + rt + ")." + f.Name(), "(" + rt + ")", sig
	}
	return f.Pkg().Path() + "." + f.Name(), f.Pkg().Path(), sig
}

type declared struct {
	obj       types.Object
	key       string
	container string
	sig       string
}

func declaredObjects(pkgs []*packages.Package) (funcs, fields []declared) {
	for _, pk := range pkgs {
		if pk.Types == nil || !strings.HasPrefix(pk.PkgPath, ModulePath) {
			continue
		}
		sc := pk.Types.Scope()
		for _, n := range sc.Names() {
			switch o := sc.Lookup(n).(type) {
			case *types.Func:
				k, c, s := funcKey(o)
				funcs = append(funcs, declared{o, k, c, s})
			case *types.TypeName:
				if o.IsAlias() {
					continue
				}
				named, ok := o.Type().(*types.Named)
				if !ok {
					continue
				}
				for i := 0; i < named.NumMethods(); i++ {
					m := named.Method(i)
					k, c, s := funcKey(m)
					funcs = append(funcs, declared{m, k, c, s})
				}
				if st, ok := named.Underlying().(*types.Struct); ok {
					cont := pk.PkgPath + "." + o.Name()
					for i := 0; i < st.NumFields(); i++ {
						f := st.Field(i)
						if f.Embedded() {
							continue
						}
						fields = append(fields, declared{f, cont + "." + f.Name(), cont, types.TypeString(f.Type(), qualFull)})
					}
				}
			}
		}
	}
	return
}

// BaselineLines renders the current declarations in the baseline file format.
func BaselineLines(pkgs []*packages.Package) []string {
	funcs, fields := declaredObjects(pkgs)
	var out []string
	for _, d := range funcs {
		out = append(out, d.key+"\t"+d.sig)
	}
	for _, d := range fields {
		out = append(out, "field:"+d.key+"\t"+d.sig)
	}
	sort.Strings(out)
	return out
}

// undoRenames returns an overlay that renames back what was renamed relative to
// the baseline, and a description of each rename. nil when there is nothing to do.
func undoRenames(pkgs []*packages.Package, base *Baseline, overlay map[string][]byte) (map[string][]byte, []string) {
	funcs, fields := declaredObjects(pkgs)
	renames := map[types.Object]string{} // object -> old name
	var notes []string
	match := func(cur []declared, baseline map[string]string, kind string) {
		have := map[string]bool{}
		for _, d := range cur {
			have[d.key] = true
		}
		// candidates: declarations the baseline does not know, by container+signature
		type ck struct{ container, sig string }
		cands := map[ck][]declared{}
		for _, d := range cur {
			if _, known := baseline[d.key]; !known {
				cands[ck{d.container, d.sig}] = append(cands[ck{d.container, d.sig}], d)
			}
		}
		// missing baseline entries, by container+signature
		missing := map[ck][]string{}
		for key, sig := range baseline {
			if have[key] || sig == "" {
				continue
			}
			i := strings.LastIndex(key, ".")
			if i < 0 {
				continue
			}
			missing[ck{key[:i], sig}] = append(missing[ck{key[:i], sig}], key[i+1:])
		}
		for k, olds := range missing {
			cs := cands[k]
			if len(olds) != 1 || len(cs) != 1 {
				continue // ambiguous or no counterpart: leave the anchor missing
			}
			renames[cs[0].obj] = olds[0]
			notes = append(notes, kind+" "+cs[0].key+" is treated as the renamed "+k.container+"."+olds[0])
		}
	}
	match(funcs, base.Funcs, "function")
	match(fields, base.Fields, "field")
	if len(renames) == 0 {
		return nil, nil
	}
	sort.Strings(notes)
	out := map[string][]byte{}
	for k, v := range overlay {
		out[k] = v
	}
	for _, pk := range pkgs {
		if pk.TypesInfo == nil || !strings.HasPrefix(pk.PkgPath, ModulePath) {
			continue
		}
		type edit struct {
			off, end int
			text     string
		}
		edits := map[string][]edit{}
		add := func(id *ast.Ident, obj types.Object) {
			old, ok := renames[obj]
			if !ok || id.Name == old {
				return
			}
			pos := pk.Fset.Position(id.Pos())
			edits[pos.Filename] = append(edits[pos.Filename], edit{pos.Offset, pos.Offset + len(id.Name), old})
		}
		for id, obj := range pk.TypesInfo.Defs {
			if obj != nil {
				add(id, obj)
			}
		}
		for id, obj := range pk.TypesInfo.Uses {
			add(id, obj)
		}
		for file, es := range edits {
			src, ok := out[file]
			if !ok {
				b, err := os.ReadFile(file)
				if err != nil {
					return nil, nil
				}
				src = b
			}
			sort.Slice(es, func(i, j int) bool { return es[i].off > es[j].off })
			buf := append([]byte(nil), src...)
			last := -1
			for _, e := range es {
				if e.off == last {
					continue
				}
				last = e.off
				if e.end > len(buf) {
					return nil, nil
				}
				buf = append(buf[:e.off], append([]byte(e.text), buf[e.end:]...)...)
			}
			out[file] = buf
		}
	}
	return out, notes
}
