package an

import (
	"go/ast"
	"go/types"
	"sort"

	"golang.org/x/tools/go/packages"
)

// Clause is one clause of a (type) switch.
type Clause struct {
	Types   []string // rendered case types / expressions; "default" for the default clause
	Body    []ast.Stmt
	Node    *ast.CaseClause
	Default bool
}

// SwitchInfo describes a switch statement.
type SwitchInfo struct {
	Node    ast.Stmt
	Tag     string // rendered tag / asserted expression
	Clauses []Clause
	IsType  bool
}

// Switches returns the switch statements in fd's body (outermost first), with
// case lists rendered through type information.
func Switches(fd *ast.FuncDecl, pp *packages.Package) []SwitchInfo {
	var out []SwitchInfo
	if fd == nil || fd.Body == nil {
		return nil
	}
	qual := func(p *types.Package) string { return p.Name() }
	ast.Inspect(fd.Body, func(n ast.Node) bool {
		switch s := n.(type) {
		case *ast.TypeSwitchStmt:
			si := SwitchInfo{Node: s, IsType: true}
			// tag expression
			switch a := s.Assign.(type) {
			case *ast.AssignStmt:
				if ta, ok := a.Rhs[0].(*ast.TypeAssertExpr); ok {
					si.Tag = types.ExprString(ta.X)
				}
			case *ast.ExprStmt:
				if ta, ok := a.X.(*ast.TypeAssertExpr); ok {
					si.Tag = types.ExprString(ta.X)
				}
			}
			for _, st := range s.Body.List {
				cc := st.(*ast.CaseClause)
				cl := Clause{Body: cc.Body, Node: cc}
				if cc.List == nil {
					cl.Default = true
					cl.Types = []string{"default"}
				}
				for _, e := range cc.List {
					if tv, ok := pp.TypesInfo.Types[e]; ok && tv.Type != nil {
						if tv.IsNil() {
							cl.Types = append(cl.Types, "nil")
						} else {
							cl.Types = append(cl.Types, types.TypeString(tv.Type, qual))
						}
					} else {
						cl.Types = append(cl.Types, types.ExprString(e))
					}
				}
				si.Clauses = append(si.Clauses, cl)
			}
			out = append(out, si)
		case *ast.SwitchStmt:
			si := SwitchInfo{Node: s}
			if s.Tag != nil {
				si.Tag = types.ExprString(s.Tag)
			}
			for _, st := range s.Body.List {
				cc := st.(*ast.CaseClause)
				cl := Clause{Body: cc.Body, Node: cc}
				if cc.List == nil {
					cl.Default = true
					cl.Types = []string{"default"}
				}
				for _, e := range cc.List {
					if tv, ok := pp.TypesInfo.Types[e]; ok && tv.Value != nil {
						// constant: render by object name when it is a named constant
						if id := identOf(e); id != nil {
							if obj := pp.TypesInfo.Uses[id]; obj != nil {
								cl.Types = append(cl.Types, obj.Name())
								continue
							}
						}
						cl.Types = append(cl.Types, tv.Value.ExactString())
					} else {
						cl.Types = append(cl.Types, types.ExprString(e))
					}
				}
				si.Clauses = append(si.Clauses, cl)
			}
			out = append(out, si)
		}
		return true
	})
	return out
}

func identOf(e ast.Expr) *ast.Ident {
	switch x := e.(type) {
	case *ast.Ident:
		return x
	case *ast.SelectorExpr:
		return x.Sel
	}
	return nil
}

// AllCaseTypes flattens the non-default case entries of a switch, sorted.
func (s SwitchInfo) AllCaseTypes() []string {
	var out []string
	for _, c := range s.Clauses {
		if c.Default {
			continue
		}
		out = append(out, c.Types...)
	}
	sort.Strings(out)
	return out
}

// HasDefault reports whether the switch has a default clause.
func (s SwitchInfo) HasDefault() *Clause {
	for i := range s.Clauses {
		if s.Clauses[i].Default {
			return &s.Clauses[i]
		}
	}
	return nil
}

// SetDiff returns the elements of a not in b and of b not in a.
func SetDiff(a, b []string) (onlyA, onlyB []string) {
	ma, mb := map[string]bool{}, map[string]bool{}
	for _, x := range a {
		ma[x] = true
	}
	for _, x := range b {
		mb[x] = true
	}
	for x := range ma {
		if !mb[x] {
			onlyA = append(onlyA, x)
		}
	}
	for x := range mb {
		if !ma[x] {
			onlyB = append(onlyB, x)
		}
	}
	sort.Strings(onlyA)
	sort.Strings(onlyB)
	return
}

// CallsInStmts returns the names of functions called (statically, by identifier) in the statements.
func CallsInStmts(stmts []ast.Stmt, pp *packages.Package) []string {
	var out []string
	for _, st := range stmts {
		ast.Inspect(st, func(n ast.Node) bool {
			if ce, ok := n.(*ast.CallExpr); ok {
				if id := identOf(ce.Fun); id != nil {
					if obj, ok := pp.TypesInfo.Uses[id].(*types.Func); ok {
						out = append(out, obj.Name())
					} else if _, ok := pp.TypesInfo.Uses[id].(*types.Builtin); ok {
						out = append(out, id.Name)
					}
				}
			}
			return true
		})
	}
	return out
}

// EndsInPanicOrError reports whether the statement list's last statement is a
// panic call or a return whose last result is a non-nil expression.
func EndsInPanicOrError(stmts []ast.Stmt) bool {
	if len(stmts) == 0 {
		return false
	}
	switch s := stmts[len(stmts)-1].(type) {
	case *ast.ExprStmt:
		if ce, ok := s.X.(*ast.CallExpr); ok {
			if id, ok := ce.Fun.(*ast.Ident); ok && id.Name == "panic" {
				return true
			}
		}
	case *ast.ReturnStmt:
		if len(s.Results) > 0 {
			last := s.Results[len(s.Results)-1]
			if id, ok := last.(*ast.Ident); ok && id.Name == "nil" {
				return false
			}
			return true
		}
	}
	return false
}
