package an

// Generic value-validity rules (R-VALID). They are evaluated on the functions a
// property's own rules are anchored in: each states a condition whose
// violation makes the function panic or work on garbage on the affected path,
// which breaks the "always returns a result or an error / never crashes /
// every call returns" clause that every property here carries.
//
//	L1  a value result of a call is not used on the path where the call's
//	    error result was tested non-nil
//	L2  the value of a comma-ok map lookup / type assertion / receive is not
//	    dereferenced on the path where ok was tested false
//	L3  a pointer, interface, map or function value is not dereferenced,
//	    invoked or written through on the path where it was tested nil
//	L4  an error value that was just tested is used on the path where it is
//	    non-nil (returned, wrapped, recorded, compared, logged), and is not
//	    handed back as "the error" on the path where it is nil
//
// "Path where X was tested" = blocks dominated by the successor of the test
// that has the test's block as its only predecessor (so the fact holds on
// every path into them).

import (
	"go/token"
	"go/types"

	"golang.org/x/tools/go/ssa"
)

// LintFinding is one violation of a generic rule.
type LintFinding struct {
	Instr ssa.Instruction
	Msg   string
}

// regionOf returns the blocks in which the fact established on edge b->s
// holds: s and everything it dominates, provided s has b as only predecessor.
func regionOf(b, s *ssa.BasicBlock) func(x *ssa.BasicBlock) bool {
	if len(s.Preds) != 1 || s.Preds[0] != b {
		return func(*ssa.BasicBlock) bool { return false }
	}
	return func(x *ssa.BasicBlock) bool { return s == x || s.Dominates(x) }
}

// isReporting: the instruction only reports the value (error construction,
// logging, formatting) or hands it back unchanged.
func isReporting(u ssa.Instruction) bool {
	switch x := u.(type) {
	case *ssa.Return:
		return true
	case *ssa.MakeInterface:
		// boxed for a variadic ...interface{} of a formatting / logging call, or returned
		for _, r := range *x.Referrers() {
			if !isReporting(r) {
				return false
			}
		}
		return true
	case *ssa.Store:
		// stored into a varargs array or a result variable
		if ia, ok := x.Addr.(*ssa.IndexAddr); ok {
			if al, ok := ia.X.(*ssa.Alloc); ok && al.Comment == "varargs" {
				return true
			}
		}
		if al, ok := x.Addr.(*ssa.Alloc); ok && !al.Heap {
			return true
		}
		return false
	case *ssa.Phi:
		return true
	case *ssa.Call:
		if f := x.Call.StaticCallee(); f != nil && f.Pkg != nil {
			switch f.Pkg.Pkg.Path() {
			case "fmt", "log", "errors", "github.com/samsarahq/go/oops":
				return true
			}
		}
		return false
	case *ssa.BinOp:
		return x.Op == token.EQL || x.Op == token.NEQ
	}
	return false
}

func derefKind(v ssa.Value, u ssa.Instruction) string {
	switch x := u.(type) {
	case *ssa.FieldAddr:
		if x.X == v {
			return "field access"
		}
	case *ssa.UnOp:
		if x.Op == token.MUL && x.X == v {
			return "load through it"
		}
	case *ssa.Store:
		if x.Addr == v {
			return "store through it"
		}
	case *ssa.MapUpdate:
		if x.Map == v {
			return "write to the map"
		}
	case *ssa.Call:
		if x.Call.IsInvoke() && x.Call.Value == v {
			return "method call on it"
		}
		if !x.Call.IsInvoke() && x.Call.Value == v {
			return "call of it"
		}
		// pointer-receiver method of a module type: the receiver is dereferenced by almost every method
		if f := x.Call.StaticCallee(); f != nil && f.Signature.Recv() != nil && len(x.Call.Args) > 0 && x.Call.Args[0] == v {
			if _, isPtr := v.Type().Underlying().(*types.Pointer); isPtr {
				return "method call on it"
			}
		}
	case *ssa.Go:
		if x.Call.Value == v {
			return "go call of it"
		}
	case *ssa.Defer:
		if x.Call.Value == v {
			return "deferred call of it"
		}
	}
	return ""
}

func nillable(t types.Type) bool {
	switch t.Underlying().(type) {
	case *types.Pointer, *types.Interface, *types.Map, *types.Signature, *types.Chan, *types.Slice:
		return true
	}
	return false
}

// ValidityLints evaluates L1-L4 on fn. (Branches on constants, tautological
// length tests and never-written local maps were tried as further rules and
// dropped: they fired on behaviour-equivalent edits and on constants produced
// by inlining, for a gain of 9 of 397 reviewed mutants.)
func ValidityLints(fn *ssa.Function) []LintFinding {
	var out []LintFinding
	if len(fn.Blocks) == 0 {
		return nil
	}
	for _, b := range fn.Blocks {
		iff, ok := b.Instrs[len(b.Instrs)-1].(*ssa.If)
		if !ok {
			continue
		}
		// --- ok flags (L2) --------------------------------------------------
		if ex, ok := iff.Cond.(*ssa.Extract); ok && ex.Index == 1 {
			var val ssa.Value
			what := ""
			switch t := ex.Tuple.(type) {
			case *ssa.TypeAssert:
				if t.CommaOk {
					what = "type assertion"
				}
			case *ssa.Lookup:
				if t.CommaOk {
					what = "map lookup"
				}
			}
			if what != "" {
				for _, r := range *ex.Tuple.Referrers() {
					if e0, ok := r.(*ssa.Extract); ok && e0.Index == 0 {
						val = e0
					}
				}
				if val != nil && nillable(val.Type()) {
					in := regionOf(b, b.Succs[1]) // ok == false
					for _, u := range *val.Referrers() {
						if in(u.Block()) {
							if k := derefKind(val, u); k != "" {
								out = append(out, LintFinding{u, "the value of a failed " + what + " (" + Short(Expr(val), 50) + ") is used (" + k + ") on the path where ok is false: it is the zero value"})
							}
						}
					}
				}
			}
		}
		bo, ok := iff.Cond.(*ssa.BinOp)
		if !ok || (bo.Op != token.EQL && bo.Op != token.NEQ) {
			continue
		}
		var subj ssa.Value
		if c, ok := bo.Y.(*ssa.Const); ok && c.IsNil() {
			subj = bo.X
		} else if c, ok := bo.X.(*ssa.Const); ok && c.IsNil() {
			subj = bo.Y
		}
		if subj == nil {
			continue
		}
		nilSucc, nonNilSucc := b.Succs[0], b.Succs[1]
		if bo.Op == token.NEQ {
			nilSucc, nonNilSucc = b.Succs[1], b.Succs[0]
		}
		// --- error results (L1, L4) -----------------------------------------
		if isErrorType(subj.Type()) {
			// L4a: on the non-nil path the error must be used somewhere
			if call, isCall := errorSource(subj); isCall && !isStateQuery(call) {
				inNon := regionOf(b, nonNilSucc)
				inNil := regionOf(b, nilSucc)
				if len(nonNilSucc.Preds) == 1 {
					used := false
					carriers := flowsTo(subj)
					for cv := range carriers {
						refs := cv.Referrers()
						if refs == nil {
							continue
						}
						for _, u := range *refs {
							if u == ssa.Instruction(iff) || u == ssa.Instruction(bo) {
								continue
							}
							if inNon(u.Block()) {
								used = true
							}
							// a use after the region re-joins (e.g. `return v, err` at the end) also counts
							if !inNon(u.Block()) && !inNil(u.Block()) && u.Block() != b {
								if blockReachAvoiding(nonNilSucc, nil)[u.Block()] || nonNilSucc == u.Block() {
									used = true
								}
							}
						}
					}
					// ... unless the non-nil path simply bails out (returns without a nil error / panics)
					if !used {
						reachesSuccess := false
						reach := blockReachAvoiding(nonNilSucc, nil)
						reach[nonNilSucc] = true
						for rb := range reach {
							ret, ok := rb.Instrs[len(rb.Instrs)-1].(*ssa.Return)
							if !ok || len(ret.Results) == 0 {
								continue
							}
							last := ResultAt(ret, len(ret.Results)-1)
							if isErrorType(last.Type()) {
								if c, ok := last.(*ssa.Const); ok && c.IsNil() {
									reachesSuccess = true
								}
							}
						}
						used = !reachesSuccess
					}
					if !used {
						out = append(out, LintFinding{iff, "the error of " + Short(Expr(call), 50) + " is tested but never used on the path where it is non-nil: the failure is ignored and execution continues as if the call had succeeded"})
					}
				}
				// L4a': the non-nil edge goes straight back into a loop (or to a join): the error is
				// ignored if no use of it can be reached before the call is made again, while the
				// function can still return success
				if ci, ok := call.(ssa.Instruction); ok && len(nonNilSucc.Preds) > 1 && len(nilSucc.Preds) == 1 {
					defBlock := ci.Block()
					reach := map[*ssa.BasicBlock]bool{}
					if nonNilSucc != defBlock {
						reach = blockReachAvoiding(nonNilSucc, defBlock)
						reach[nonNilSucc] = true
						delete(reach, defBlock)
					}
					used := false
					for cv := range flowsTo(subj) {
						if refs := cv.Referrers(); refs != nil {
							for _, u := range *refs {
								if u == ssa.Instruction(iff) || u == ssa.Instruction(bo) {
									continue
								}
								if reach[u.Block()] {
									used = true
								}
							}
						}
					}
					usedOnNil := false
					for cv := range flowsTo(subj) {
						if refs := cv.Referrers(); refs != nil {
							for _, u := range *refs {
								if inNil(u.Block()) {
									usedOnNil = true
								}
							}
						}
					}
					if !used && usedOnNil {
						// (only when the nil path does use it: the test is then plainly inverted; a bare
						// `if err != nil { continue }` is a deliberate skip and not reported)
						all := blockReachAvoiding(nonNilSucc, nil)
						all[nonNilSucc] = true
						for rb := range all {
							ret, ok := rb.Instrs[len(rb.Instrs)-1].(*ssa.Return)
							if !ok || len(ret.Results) == 0 {
								continue
							}
							if c, ok := ResultAt(ret, len(ret.Results)-1).(*ssa.Const); ok && c.IsNil() && isErrorType(c.Type()) {
								out = append(out, LintFinding{iff, "the error of " + Short(Expr(call), 50) + " is used only on the path where it is nil; where it is non-nil the loop simply continues: the failure is ignored"})
								break
							}
						}
					}
				}
				// L4b: returned as the error on the path where it is nil, next to zero results
				if len(nilSucc.Preds) == 1 {
					for _, rb := range fn.Blocks {
						if !inNil(rb) {
							continue
						}
						ret, ok := rb.Instrs[len(rb.Instrs)-1].(*ssa.Return)
						if !ok || len(ret.Results) == 0 {
							continue
						}
						last := ResultAt(ret, len(ret.Results)-1)
						if last != subj && throughCell(last) != throughCell(subj) {
							continue
						}
						// only the early-exit shape: the return sits directly in the tested branch
						if rb != nilSucc {
							continue
						}
						out = append(out, LintFinding{ret, "the error of " + Short(Expr(call), 50) + " is returned on the path where it is nil (and the path where it is non-nil goes on): the test is inverted"})
					}
				}
			}

			var call ssa.Value
			var errIdx int
			if ex, ok := throughCell(subj).(*ssa.Extract); ok {
				if c, ok := ex.Tuple.(*ssa.Call); ok {
					call, errIdx = c, ex.Index
				}
			}
			if call != nil {
				in := regionOf(b, nonNilSucc)
				for _, r := range *call.Referrers() {
					ex, ok := r.(*ssa.Extract)
					if !ok || ex.Index == errIdx {
						continue
					}
					for _, cv := range carriersIn(ex, in) {
						for _, u := range *cv.Referrers() {
							if !in(u.Block()) || isReporting(u) {
								continue
							}
							if st, ok := u.(*ssa.Store); ok && st.Val == cv {
								continue // copied into a variable: the uses of that variable are examined
							}
							out = append(out, LintFinding{u, "result #" + itoa(ex.Index) + " of " + Short(Expr(call), 50) + " is used on the path where its error is non-nil: the call failed, the value is not valid"})
						}
					}
				}
			}
			continue
		}
		// --- nil tests (L3) --------------------------------------------------
		if !nillable(subj.Type()) {
			continue
		}
		if _, isSlice := subj.Type().Underlying().(*types.Slice); isSlice {
			continue // a nil slice can be ranged over, appended to and measured
		}
		in := regionOf(b, nilSucc)
		// the tested value, and re-loads of the same location inside the region (go/ssa does
		// not reuse loads; a store to the location in between is not modelled - the region is
		// the code directly behind the test)
		cands := []ssa.Value{subj}
		if ld, ok := subj.(*ssa.UnOp); ok && ld.Op == token.MUL {
			if path := PathOf(ld.X); path != "" {
				stored := false
				Instrs(fn, func(i ssa.Instruction) {
					if st, ok := i.(*ssa.Store); ok && in(st.Block()) && PathOf(st.Addr) == path {
						stored = true
					}
				})
				if !stored {
					Instrs(fn, func(i ssa.Instruction) {
						if l2, ok := i.(*ssa.UnOp); ok && l2 != ld && l2.Op == token.MUL && in(l2.Block()) && PathOf(l2.X) == path {
							cands = append(cands, l2)
						}
					})
				}
			}
		}
		for _, cv := range cands {
			refs := cv.Referrers()
			if refs == nil {
				continue
			}
			for _, u := range *refs {
				if !in(u.Block()) {
					continue
				}
				if k := derefKind(cv, u); k != "" {
					out = append(out, LintFinding{u, Short(Expr(cv), 50) + " is nil on this path (it was just tested) and is dereferenced (" + k + ")"})
				}
			}
		}
	}
	return out
}

// errorSource: v is the error result of a call (directly, or an extract of its tuple).
func errorSource(v ssa.Value) (ssa.Value, bool) {
	v = throughCell(v)
	switch x := v.(type) {
	case *ssa.Extract:
		if c, ok := x.Tuple.(*ssa.Call); ok {
			return c, true
		}
	case *ssa.Call:
		return x, true
	}
	return nil, false
}

// throughCell: v is a load of a local variable cell (a variable captured by a
// closure lives in a heap cell); returns the value most recently stored into
// the cell when that is unambiguous (a store earlier in the same block, or the
// only store), else v.
// ThroughCell resolves a load from a local cell (a variable captured by a closure) to the value stored in it.
func ThroughCell(v ssa.Value) ssa.Value { return throughCell(v) }

func throughCell(v ssa.Value) ssa.Value {
	ld, ok := v.(*ssa.UnOp)
	if !ok || ld.Op != token.MUL {
		return v
	}
	al, ok := ld.X.(*ssa.Alloc)
	if !ok || al.Referrers() == nil {
		return v
	}
	var stores []*ssa.Store
	for _, r := range *al.Referrers() {
		if st, ok := r.(*ssa.Store); ok && st.Addr == ssa.Value(al) {
			stores = append(stores, st)
		}
	}
	// last store before the load in the same block
	b := ld.Block()
	var last *ssa.Store
	for _, in := range b.Instrs {
		if in == ssa.Instruction(ld) {
			break
		}
		if st, ok := in.(*ssa.Store); ok && st.Addr == ssa.Value(al) {
			last = st
		}
	}
	if last != nil {
		return last.Val
	}
	if len(stores) == 1 {
		return stores[0].Val
	}
	// the store in the nearest dominating block
	for d := b.Idom(); d != nil; d = d.Idom() {
		var found *ssa.Store
		for _, in := range d.Instrs {
			if st, ok := in.(*ssa.Store); ok && st.Addr == ssa.Value(al) {
				found = st
			}
		}
		if found != nil {
			return found.Val
		}
	}
	return v
}

// carriersIn: v itself plus loads, inside the region, of local cells that hold v
// (stored once from v, or last stored from v before the region).
func carriersIn(v ssa.Value, in func(*ssa.BasicBlock) bool) []ssa.Value {
	out := []ssa.Value{v}
	if v.Referrers() == nil {
		return out
	}
	for _, r := range *v.Referrers() {
		st, ok := r.(*ssa.Store)
		if !ok || st.Val != v {
			continue
		}
		al, ok := st.Addr.(*ssa.Alloc)
		if !ok || al.Referrers() == nil {
			continue
		}
		for _, r2 := range *al.Referrers() {
			if ld, ok := r2.(*ssa.UnOp); ok && ld.Op == token.MUL && in(ld.Block()) && throughCell(ld) == v {
				out = append(out, ld)
			}
		}
	}
	return out
}

// LockBalanceLints (L8): a sync.Mutex / RWMutex locked in fn is released on
// every path to a return (directly, or by a deferred unlock installed on every
// such path), and an unlock - direct or deferred - is matched by a lock taken
// in the same function.
func LockBalanceLints(fn *ssa.Function) []LintFinding {
	var out []LintFinding
	ops, instrs := LockCalls(fn)
	if len(ops) == 0 {
		return nil
	}
	ls := ComputeLocks(fn, nil)
	locked := map[string]bool{}
	for _, op := range ops {
		if op.Acquire {
			locked[op.Path] = true
		}
	}
	// deferred unlocks per path
	deferred := map[string][]ssa.Instruction{}
	for k, in := range instrs {
		if _, isDefer := in.(*ssa.Defer); isDefer && !ops[k].Acquire {
			deferred[ops[k].Path] = append(deferred[ops[k].Path], in)
		}
	}
	for _, e := range Exits(fn, false) {
		for pth := range ls.HeldAt(e) {
			if !locked[pth] {
				continue
			}
			ok := false
			for _, d := range deferred[pth] {
				if d.Block() == e.Block() || d.Block().Dominates(e.Block()) {
					ok = true
				}
			}
			if !ok {
				out = append(out, LintFinding{e, "the function can return with " + pth + " still locked (no unlock and no deferred unlock on this path): every later use of the lock blocks forever"})
			}
		}
	}
	// L8b: a second exclusive Lock of the same mutex is reachable from a Lock without an
	// Unlock in between (sync.Mutex is not reentrant: the goroutine blocks forever). Only for
	// mutexes reached from a parameter, receiver or captured variable - the same object on
	// every iteration - and only for plain (non-deferred) operations.
	for k, in := range instrs {
		op := ops[k]
		if !op.Acquire || op.Read || !stableRoot(op.Recv) {
			continue
		}
		if _, isCall := in.(*ssa.Call); !isCall {
			continue
		}
		var unlocks []ssa.Instruction
		for j, other := range instrs {
			if !ops[j].Acquire && ops[j].Path == op.Path {
				if _, isCall := other.(*ssa.Call); isCall {
					unlocks = append(unlocks, other)
				}
			}
		}
		reached := Reach(fn, in, NewBlocker(unlocks...))
		for j, other := range instrs {
			if ops[j].Acquire && !ops[j].Read && ops[j].Path == op.Path && reached[other] {
				if _, isCall := other.(*ssa.Call); isCall {
					out = append(out, LintFinding{other, "this Lock of " + op.Path + " can be reached while the same goroutine still holds it (locked at line " + itoa(fn.Prog.Fset.Position(in.Pos()).Line) + ", no Unlock on the way): sync.Mutex is not reentrant, the goroutine blocks forever"})
					break
				}
			}
		}
	}
	for k, in := range instrs {
		op := ops[k]
		if op.Acquire {
			continue
		}
		if !locked[op.Path] {
			// an unlock helper (the caller holds the lock) is legitimate only if nothing in this
			// function suggests it owns the critical section: a *deferred* unlock does, and so does
			// a plain unlock in an exported function or method (its callers are outside the module's
			// control, and no exported function of this module is documented as "call with the lock held")
			if _, isCall := in.(*ssa.Call); isCall && fn.Parent() == nil && fn.Object() != nil && fn.Object().Exported() && stableRoot(op.Recv) {
				out = append(out, LintFinding{in, "an exported function unlocks " + op.Path + " without ever locking it: unlock of an unlocked mutex is a fatal error"})
				continue
			}
			if _, isDefer := in.(*ssa.Defer); isDefer {
				out = append(out, LintFinding{in, "a deferred unlock of " + op.Path + " is installed but the function never locks it: unlock of an unlocked mutex is a fatal error"})
			}
			continue
		}
	}
	return out
}

// stableRoot: the lock's receiver is reached from a parameter, receiver, free variable or
// global through field selections only (the same object every time the code runs).
func stableRoot(v ssa.Value) bool {
	for depth := 0; depth < 10 && v != nil; depth++ {
		switch x := v.(type) {
		case *ssa.Parameter, *ssa.FreeVar, *ssa.Global:
			return true
		case *ssa.FieldAddr:
			v = x.X
		case *ssa.Field:
			v = x.X
		case *ssa.UnOp:
			if x.Op != token.MUL {
				return false
			}
			if al, ok := x.X.(*ssa.Alloc); ok {
				// the spilled receiver / parameter: `t0 = new *T (c); *t0 = c`
				if tv := throughCell(x); tv != ssa.Value(x) {
					v = tv
					continue
				}
				_ = al
				return false
			}
			v = x.X
		default:
			return false
		}
	}
	return false
}

// isStateQuery: the "error" is the state of an object (context.Context.Err), not the outcome
// of an operation: testing it and asking again on the failing path is not a dropped failure.
func isStateQuery(v ssa.Value) bool {
	call, ok := v.(*ssa.Call)
	if !ok {
		return false
	}
	f := CalleeFunc(&call.Call)
	return f != nil && f.Name() == "Err" && f.Pkg() != nil && f.Pkg().Path() == "context"
}
