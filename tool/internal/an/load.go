// Package an holds the program loader and the analysis primitives (R-* rules)
// that the per-property checkers in package props are built from.
package an

import (
	"fmt"
	"go/ast"
	"go/token"
	"go/types"
	"os"
	"sort"
	"strings"

	"golang.org/x/tools/go/packages"
	"golang.org/x/tools/go/ssa"
	"golang.org/x/tools/go/ssa/ssautil"
)

// ModulePath is the import path prefix of the analysed module.
const ModulePath = "github.com/samsarahq/thunder"

// Prog is the loaded, type-checked and SSA-lowered module.
type Prog struct {
	Dir   string
	Fset  *token.FileSet
	Pkgs  []*packages.Package // module packages (in ./...)
	All   map[string]*packages.Package
	SSA   *ssa.Program
	SPkgs map[string]*ssa.Package // by import path
	// stats
	NumFuncs int

	allFuncs    map[*ssa.Function]bool
	inlinedAway map[*ssa.Function]bool // unknown helpers fully expanded into their callers
	ifaceNames  map[string]bool
	known       map[string]bool
	delegators  map[*ssa.Function][]*ssa.Function
	Inlined     *InlineStats
	// Anchors: every function a rule looked up by name during this run
	Anchors map[*ssa.Function]bool
	// Renamed: renames relative to the baseline that were undone in memory before analysing
	Renamed []string
}

// Load loads ./... of dir. overlay maps absolute file names to replacement
// contents (used only by the checker's self-tests).
func Load(dir string, overlay map[string][]byte, goarch string) (*Prog, error) {
	return load(dir, overlay, goarch, true)
}

func load(dir string, overlay map[string][]byte, goarch string, normaliseNames bool) (*Prog, error) {
	env := append(os.Environ(), "GOFLAGS=-mod=mod", "GOPROXY=off", "GOSUMDB=off", "GOTOOLCHAIN=local", "GOWORK=off")
	if goarch != "" {
		env = append(env, "GOARCH="+goarch)
	}
	cfg := &packages.Config{
		Mode:    packages.LoadAllSyntax,
		Dir:     dir,
		Env:     env,
		Overlay: overlay,
		Tests:   false,
	}
	pkgs, err := packages.Load(cfg, "./...")
	if err != nil {
		return nil, fmt.Errorf("packages.Load: %v", err)
	}
	if len(pkgs) < 25 {
		return nil, fmt.Errorf("only %d packages loaded from %s (expected >= 25)", len(pkgs), dir)
	}
	var errs []string
	packages.Visit(pkgs, nil, func(p *packages.Package) {
		if !strings.HasPrefix(p.PkgPath, ModulePath) {
			return
		}
		for _, e := range p.Errors {
			errs = append(errs, e.Error())
		}
	})
	if len(errs) > 0 {
		sort.Strings(errs)
		if len(errs) > 10 {
			errs = errs[:10]
		}
		return nil, fmt.Errorf("type errors in module packages:\n  %s", strings.Join(errs, "\n  "))
	}
	var base *Baseline
	var renamed []string
	if BaselineFile != "" {
		data, err := os.ReadFile(BaselineFile)
		if err != nil {
			return nil, fmt.Errorf("baseline function list: %v", err)
		}
		base = ParseBaseline(data)
		if normaliseNames {
			if ov, notes := undoRenames(pkgs, base, overlay); ov != nil {
				p2, err := load(dir, ov, goarch, false)
				if err == nil {
					p2.Renamed = notes
					return p2, nil
				}
				// the rewritten tree does not type-check (name clash): analyse the tree as it is
			}
		}
	}
	_ = renamed
	prog, _ := ssautil.AllPackages(pkgs, ssa.InstantiateGenerics)
	prog.Build()
	p := &Prog{Dir: dir, Fset: pkgs[0].Fset, Pkgs: pkgs, SSA: prog, SPkgs: map[string]*ssa.Package{}, All: map[string]*packages.Package{}}
	packages.Visit(pkgs, nil, func(pp *packages.Package) {
		p.All[pp.PkgPath] = pp
		if sp := prog.Package(pp.Types); sp != nil {
			p.SPkgs[pp.PkgPath] = sp
		}
	})
	p.allFuncs = ssautil.AllFunctions(prog)
	for f := range p.allFuncs {
		if f.Pkg != nil && strings.HasPrefix(f.Pkg.Pkg.Path(), ModulePath) {
			p.NumFuncs++
		}
	}
	if base != nil {
		known := map[string]bool{}
		for k := range base.Funcs {
			known[k] = true
		}
		if len(known) < 500 {
			return nil, fmt.Errorf("baseline function list %s has only %d entries", BaselineFile, len(known))
		}
		st, err := p.InlineUnknown(known)
		p.Inlined = st
		if err != nil && os.Getenv("THUNDERLINT_DEBUG_INLINE") == "" {
			return nil, err
		}
	}
	return p, nil
}

// BaselineFile names the list of functions the rule tables were written
// against; calls to module functions not on it are expanded in place (see
// inline.go). Empty: no inlining.
var BaselineFile string

// Pkg returns the SSA package "graphql", "reactive", ... (path relative to the module).
func (p *Prog) Pkg(rel string) *ssa.Package {
	path := ModulePath
	if rel != "" {
		path += "/" + rel
	}
	return p.SPkgs[path]
}

// PkgSyntax returns the go/packages package for a module-relative path.
func (p *Prog) PkgSyntax(rel string) *packages.Package {
	path := ModulePath
	if rel != "" {
		path += "/" + rel
	}
	return p.All[path]
}

// ExtPkg returns a non-module package by full import path.
func (p *Prog) ExtPkg(path string) *packages.Package { return p.All[path] }

// Func finds a function by module-relative package and name. name forms:
// "Name", "(*T).Name", "T.Name" (either receiver form), "Name$1" (anonymous,
// positional — avoid; prefer Anon* helpers).
func (p *Prog) Func(rel, name string) *ssa.Function {
	f := p.lookupFunc(rel, name)
	if f != nil {
		if p.Anchors == nil {
			p.Anchors = map[*ssa.Function]bool{}
		}
		outer := f
		for outer.Parent() != nil {
			outer = outer.Parent()
		}
		p.Anchors[outer] = true
	}
	return f
}

func (p *Prog) lookupFunc(rel, name string) *ssa.Function {
	sp := p.Pkg(rel)
	if sp == nil {
		return nil
	}
	base, anon := name, ""
	if i := strings.Index(name, "$"); i >= 0 {
		base, anon = name[:i], name[i:]
	}
	var fn *ssa.Function
	if strings.Contains(base, ".") {
		recv := base[:strings.LastIndex(base, ".")]
		meth := base[strings.LastIndex(base, ".")+1:]
		recv = strings.Trim(recv, "(*)")
		tn, _ := sp.Pkg.Scope().Lookup(recv).(*types.TypeName)
		if tn == nil {
			return nil
		}
		for _, T := range []types.Type{tn.Type(), types.NewPointer(tn.Type())} {
			ms := p.SSA.MethodSets.MethodSet(T)
			if sel := ms.Lookup(sp.Pkg, meth); sel != nil {
				f := p.SSA.MethodValue(sel)
				if f != nil && f.Synthetic == "" {
					fn = f
					break
				}
				if f != nil && fn == nil {
					fn = f
				}
			}
		}
		// unwrap synthetic wrappers for value-receiver methods
		if fn != nil && fn.Synthetic != "" {
			if obj, ok := fn.Object().(*types.Func); ok {
				if f := p.SSA.FuncValue(obj); f != nil {
					fn = f
				}
			}
		}
	} else {
		fn = sp.Func(base)
	}
	if fn == nil || anon == "" {
		return fn
	}
	for _, part := range strings.Split(anon[1:], "$") {
		var idx int
		fmt.Sscanf(part, "%d", &idx)
		if idx < 1 || idx > len(fn.AnonFuncs) {
			return nil
		}
		fn = fn.AnonFuncs[idx-1]
	}
	return fn
}

// ModuleFuncs returns every function (including anonymous ones) of module
// packages whose relative path satisfies keep (nil = all), sorted by name.
func (p *Prog) ModuleFuncs(keep func(rel string) bool) []*ssa.Function {
	var out []*ssa.Function
	for f := range p.allFuncs {
		pk := FuncPkg(f)
		if pk == nil || !strings.HasPrefix(pk.Path(), ModulePath) {
			continue
		}
		if f.Blocks == nil || f.Synthetic != "" {
			continue // promoted-method wrappers, bound-method thunks: they only delegate
		}
		if p.inlinedAway[f] {
			continue // its body is analysed inside every caller
		}
		rel := strings.TrimPrefix(strings.TrimPrefix(pk.Path(), ModulePath), "/")
		if keep != nil && !keep(rel) {
			continue
		}
		out = append(out, f)
	}
	sort.Slice(out, func(i, j int) bool {
		if out[i].String() != out[j].String() {
			return out[i].String() < out[j].String()
		}
		return out[i].Pos() < out[j].Pos()
	})
	return out
}

// FuncPkg returns the types.Package a function (or its outermost parent) belongs to.
func FuncPkg(f *ssa.Function) *types.Package {
	for f != nil {
		if f.Pkg != nil {
			return f.Pkg.Pkg
		}
		if f.Parent() == nil {
			if o := f.Object(); o != nil {
				return o.Pkg()
			}
			if f.Origin() != nil && f.Origin() != f {
				f = f.Origin()
				continue
			}
			return nil
		}
		f = f.Parent()
	}
	return nil
}

// RelPkg returns the module-relative package path of f ("" for the root, "?" outside the module).
func RelPkg(f *ssa.Function) string {
	pk := FuncPkg(f)
	if pk == nil || !strings.HasPrefix(pk.Path(), ModulePath) {
		return "?"
	}
	return strings.TrimPrefix(strings.TrimPrefix(pk.Path(), ModulePath), "/")
}

// Pos renders a position relative to the repository root.
func (p *Prog) Pos(pos token.Pos) string {
	if !pos.IsValid() {
		return "-"
	}
	ps := p.Fset.Position(pos)
	fn := ps.Filename
	if strings.HasPrefix(fn, p.Dir+"/") {
		fn = fn[len(p.Dir)+1:]
	}
	return fmt.Sprintf("%s:%d", fn, ps.Line)
}

// InstrPos gives the best available position for an instruction.
func (p *Prog) InstrPos(i ssa.Instruction) string {
	if i == nil {
		return "-"
	}
	if i.Pos().IsValid() {
		return p.Pos(i.Pos())
	}
	// fall back to operands / block neighbours
	if v, ok := i.(ssa.Value); ok {
		_ = v
	}
	b := i.Block()
	if b != nil {
		for _, j := range b.Instrs {
			if j.Pos().IsValid() {
				return p.Pos(j.Pos()) + "(~)"
			}
		}
		return p.Pos(b.Parent().Pos()) + "(fn)"
	}
	return "-"
}

// FuncDecl returns the AST declaration of a named function, and its file.
func (p *Prog) FuncDecl(rel, name string) (*ast.FuncDecl, *packages.Package) {
	pp := p.PkgSyntax(rel)
	if pp == nil {
		return nil, nil
	}
	recv := ""
	meth := name
	if strings.Contains(name, ".") {
		recv = strings.Trim(name[:strings.LastIndex(name, ".")], "(*)")
		meth = name[strings.LastIndex(name, ".")+1:]
	}
	for _, f := range pp.Syntax {
		for _, d := range f.Decls {
			fd, ok := d.(*ast.FuncDecl)
			if !ok || fd.Name.Name != meth {
				continue
			}
			if recv == "" && fd.Recv == nil {
				return fd, pp
			}
			if recv != "" && fd.Recv != nil && len(fd.Recv.List) == 1 {
				t := fd.Recv.List[0].Type
				if s, ok := t.(*ast.StarExpr); ok {
					t = s.X
				}
				if id, ok := t.(*ast.Ident); ok && id.Name == recv {
					return fd, pp
				}
			}
		}
	}
	return nil, pp
}
