package props

import (
	"fmt"
	"go/token"
	"strings"

	"golang.org/x/tools/go/ssa"

	"thunderlint/internal/an"
)

// ruleBatchAdapterTables (shared by C01 and C14): the reflection adapter around
// a batch field function is a pair of small decision procedures over the
// flags computed at schema-build time. They are evaluated with BoolSim.
func ruleBatchAdapterTables(c *an.Ctx, o *an.O) {
	p := c.P
	const sb = "graphql/schemabuilder"
	flagLoad := func(v ssa.Value, name string) bool { // load of funcCtx.<name>
		ld, ok := v.(*ssa.UnOp)
		if !ok || ld.Op != token.MUL {
			return false
		}
		fa, ok := ld.X.(*ssa.FieldAddr)
		return ok && an.FieldName(fa.X.Type(), fa.Field) == name
	}
	reflectCall := func(v ssa.Value, name string) (*ssa.Call, bool) {
		call, ok := v.(*ssa.Call)
		if !ok {
			return nil, false
		}
		f := an.CalleeFunc(call.Common())
		return call, f != nil && f.Pkg() != nil && f.Pkg().Path() == "reflect" && f.Name() == name
	}

	// ---- prepareResolveArgs --------------------------------------------------------
	prep := c.NeedFunc(sb, "(*batchFuncContext).prepareResolveArgs")
	o.SitePos(p.Pos(prep.Pos()))
	// the appends to the argument list, classified by what is appended
	type app struct {
		instr ssa.Instruction
		what  string
	}
	var apps []app
	an.Instrs(prep, func(i ssa.Instruction) {
		call, ok := i.(*ssa.Call)
		if !ok {
			return
		}
		b, ok := call.Call.Value.(*ssa.Builtin)
		if !ok || b.Name() != "append" || !strings.HasSuffix(call.Type().String(), "reflect.Value") {
			return
		}
		el := singleElem(call.Call.Args[1])
		what := "?"
		if vo, ok := reflectCall(el, "ValueOf"); ok {
			arg := an.StripConv(vo.Call.Args[0])
			if ci, ok := arg.(*ssa.ChangeInterface); ok {
				arg = ci.X
			}
			for k, pa := range prep.Params {
				if arg == ssa.Value(pa) {
					switch pa.Type().String() {
					case "context.Context":
						what = "ctx"
					case "interface{}":
						what = "args"
					default:
						if strings.HasSuffix(pa.Type().String(), "SelectionSet") {
							what = "selectionSet"
						}
					}
					_ = k
				}
			}
		} else if _, ok := reflectCall(el, "MakeMapWithSize"); ok {
			what = "batchMap"
		}
		apps = append(apps, app{i, what})
		o.Site(i)
	})
	byWhat := map[string]ssa.Instruction{}
	for _, a := range apps {
		byWhat[a.what] = a.instr
	}
	for _, w := range []string{"ctx", "batchMap", "args", "selectionSet"} {
		if byWhat[w] == nil {
			o.Fail(p.Pos(prep.Pos()), "prepareResolveArgs never passes %s to the batch function", w)
			return
		}
	}
	// order: ctx, batchMap, args, selectionSet (the function's parameter order)
	order := []string{"ctx", "batchMap", "args", "selectionSet"}
	for k := 0; k+1 < len(order); k++ {
		if !an.Reach(prep, byWhat[order[k]], an.NewBlocker())[byWhat[order[k+1]]] {
			o.FailAt(byWhat[order[k+1]], "the %s argument is not appended after the %s argument: the batch function would be called with its parameters in the wrong order", order[k+1], order[k])
		}
	}
	// the value stored in the batch map per source
	var sets []*ssa.Call
	an.Instrs(prep, func(i ssa.Instruction) {
		if call, ok := reflectCall(instrValue(i), "SetMapIndex"); ok && an.LoopHeaderOf(i) != nil {
			sets = append(sets, call)
			o.Site(i)
		}
	})
	kindOfSet := func(call *ssa.Call) string {
		v := call.Call.Args[len(call.Call.Args)-1]
		if _, ok := reflectCall(v, "Elem"); ok {
			return "elem"
		}
		if _, ok := reflectCall(v, "New"); ok {
			return "copy"
		}
		if _, ok := reflectCall(v, "ValueOf"); ok {
			return "value"
		}
		return "?"
	}
	for mask := 0; mask < 32; mask++ {
		hasCtx, hasArgs, hasSel, ptrSource, ptrFunc := mask&1 != 0, mask&2 != 0, mask&4 != 0, mask&8 != 0, mask&16 != 0
		sim := &an.BoolSim{Fn: prep, Atom: func(v ssa.Value) (bool, bool) {
			switch {
			case flagLoad(v, "hasContext"):
				return hasCtx, true
			case flagLoad(v, "hasArgs"):
				return hasArgs, true
			case flagLoad(v, "hasSelectionSet"):
				return hasSel, true
			case flagLoad(v, "isPtrFunc"):
				return ptrFunc, true
			}
			if bo, ok := v.(*ssa.BinOp); ok && (bo.Op == token.EQL || bo.Op == token.NEQ) {
				if _, isKind := reflectCall(bo.X, "Kind"); isKind {
					if _, isConst := an.ConstInt(bo.Y); isConst {
						return ptrSource == (bo.Op == token.EQL), true
					}
				}
			}
			return false, false
		}}
		reached := sim.Run()
		for w, want := range map[string]bool{"ctx": hasCtx, "batchMap": true, "args": hasArgs, "selectionSet": hasSel} {
			if reached[byWhat[w].Block()] != want {
				o.FailAt(byWhat[w], "with hasContext=%v hasArgs=%v hasSelectionSet=%v the %s argument is passed: %v (expected %v): the batch function is called with the wrong argument list", hasCtx, hasArgs, hasSel, w, reached[byWhat[w].Block()], want)
				return
			}
		}
		wantKind := "value"
		if ptrSource && !ptrFunc {
			wantKind = "elem"
		} else if !ptrSource && ptrFunc {
			wantKind = "copy"
		}
		n := 0
		for _, s := range sets {
			if reached[s.Block()] {
				n++
				if k := kindOfSet(s); k != wantKind {
					o.FailAt(s, "a source that is a pointer=%v for a function taking pointers=%v is handed over as %s, expected %s", ptrSource, ptrFunc, k, wantKind)
					return
				}
			}
		}
		if n != 1 {
			o.Fail(p.Pos(prep.Pos()), "with pointer source=%v, pointer function=%v, %d SetMapIndex calls can run per source (expected exactly one): a source would be missing from / duplicated in the batch", ptrSource, ptrFunc, n)
			return
		}
	}

	// ---- extractResultsAndErr ------------------------------------------------------
	ext := c.NeedFunc(sb, "(*batchFuncContext).extractResultsAndErr")
	o.SitePos(p.Pos(ext.Pos()))
	var resStore ssa.Instruction // resList[idx] = res.Interface()
	var fillStore ssa.Instruction
	an.Instrs(ext, func(i ssa.Instruction) {
		st, ok := i.(*ssa.Store)
		if !ok {
			return
		}
		ia, ok := st.Addr.(*ssa.IndexAddr)
		if !ok || !strings.Contains(ia.X.Type().String(), "interface") {
			return
		}
		if mi, ok := st.Val.(*ssa.MakeInterface); ok {
			if _, isConst := mi.X.(*ssa.Const); isConst {
				fillStore = i
				return
			}
		}
		resStore = i
	})
	an.Need(resStore != nil && fillStore != nil, "the result store and the no-return filler in extractResultsAndErr")
	o.Site(resStore)
	h := an.LoopHeaderOf(resStore)
	an.Need(h != nil, "loop over the index values")
	for mask := 0; mask < 128; mask++ {
		hasErr, errNil, hasRet, valid, isPtr, isNil, enforce := mask&1 != 0, mask&2 != 0, mask&4 != 0, mask&8 != 0, mask&16 != 0, mask&32 != 0, mask&64 != 0
		if !valid && (isPtr || isNil) {
			continue
		}
		if isNil && !isPtr {
			continue
		}
		sim := &an.BoolSim{Fn: ext, Atom: func(v ssa.Value) (bool, bool) {
			switch {
			case flagLoad(v, "hasError"):
				return hasErr, true
			case flagLoad(v, "hasRet"):
				return hasRet, true
			case flagLoad(v, "enforceNoNilResps"):
				return enforce, true
			}
			if call, ok := reflectCall(v, "IsValid"); ok {
				_ = call
				return valid, true
			}
			if call, ok := reflectCall(v, "IsNil"); ok {
				// err.IsNil() on out[...] vs res.IsNil() on the MapIndex result
				recv := call.Call.Args[0]
				if _, isMapIdx := reflectCall(recv, "MapIndex"); isMapIdx {
					return isNil, true
				}
				return errNil, true
			}
			if bo, ok := v.(*ssa.BinOp); ok && (bo.Op == token.EQL || bo.Op == token.NEQ) {
				if _, isKind := reflectCall(bo.X, "Kind"); isKind {
					if _, isConst := an.ConstInt(bo.Y); isConst {
						return isPtr == (bo.Op == token.EQL), true
					}
				}
			}
			return false, false
		}}
		reached := sim.Run()
		// error results
		errRets, okRets := 0, 0
		for _, r := range sim.Returns {
			if len(r.Ret.Results) == 2 {
				if isConstNil(an.ResultAt(r.Ret, 1)) {
					okRets++
				} else {
					errRets++
				}
			}
		}
		back := false
		for k, pred := range h.Preds {
			if sim.In[h][k] && h.Dominates(pred) {
				back = true
			}
		}
		desc := fmt.Sprintf("hasError=%v err.IsNil=%v hasRet=%v valid=%v pointer=%v nil=%v enforceNoNil=%v", hasErr, errNil, hasRet, valid, isPtr, isNil, enforce)
		switch {
		case hasErr && !errNil:
			if okRets > 0 || reached[resStore.Block()] || reached[fillStore.Block()] {
				o.Fail(p.Pos(ext.Pos()), "extractResultsAndErr (%s): the batch function's error is not returned before results are produced", desc)
				return
			}
		case !hasRet:
			if !reached[fillStore.Block()] || reached[resStore.Block()] || errRets > 0 {
				o.Fail(p.Pos(ext.Pos()), "extractResultsAndErr (%s): a function without results must yield true for every source", desc)
				return
			}
		default:
			missing := !valid || (isPtr && isNil)
			switch {
			case missing && enforce:
				if back || reached[resStore.Block()] {
					o.Fail(p.Pos(ext.Pos()), "extractResultsAndErr (%s): a missing / nil result for a non-nullable field must be an error", desc)
					return
				}
			case missing:
				if reached[resStore.Block()] || !back {
					o.Fail(p.Pos(ext.Pos()), "extractResultsAndErr (%s): a missing / nil result must be left null and the next source handled", desc)
					return
				}
			default:
				if !reached[resStore.Block()] || !back {
					o.Fail(p.Pos(ext.Pos()), "extractResultsAndErr (%s): a present result is not stored for its source", desc)
					return
				}
				// and no error return can come out of the loop body
			}
			if reached[fillStore.Block()] {
				o.Fail(p.Pos(ext.Pos()), "extractResultsAndErr (%s): results are replaced by the no-return filler", desc)
				return
			}
		}
	}
	// the error is read from the LAST output (functions return (results, error))
	an.Instrs(ext, func(i ssa.Instruction) {
		if call, ok := reflectCall(instrValue(i), "IsNil"); ok {
			if ld, ok := call.Call.Args[0].(*ssa.UnOp); ok {
				if ia, ok := ld.X.(*ssa.IndexAddr); ok && !an.IsRangeIndex(ia.Index) {
					if e := an.Expr(ia.Index); !strings.Contains(e, "len(") || !strings.HasSuffix(strings.TrimSuffix(e, ")"), "- 1") {
						o.FailAt(i, "the batch function's error is read from out[%s], not from its last result", e)
					}
				}
			}
		}
	})
}

func instrValue(i ssa.Instruction) ssa.Value {
	v, _ := i.(ssa.Value)
	return v
}
