package props

import (
	"go/token"
	"go/types"
	"strings"

	"golang.org/x/tools/go/ssa"

	"thunderlint/internal/an"
)

func init() {
	register("C19", "Decides the structural basis of @skip/@include: ShouldIncludeNode consults both directives before any including return and excludes on @skip(if:true); every consumer that walks raw selection sets for execution or planning (graphql.Flatten, federation flattenFragments and planObject) uses a selection or a fragment body only behind the success of ShouldIncludeNode on that same node's directives - in particular before same-alias selections are merged, because the merged selection carries no directives; any other function of graphql/federation that opens a fragment body (fragment.SelectionSet) without that test must be on the reasoned exempt list (validation, cycle detection, printing, post-flatten planning and (un)marshalling); parseSelectionSet only writes fields of Selection/Fragment objects it allocated itself (the shared fragment definition is never modified by a spread); parseIf rejects a missing or non-boolean `if` with an error; a condition supplied through a variable wins over the variable's default (Parse installs a default only when no non-null value was supplied). Not decided: equality with the textually pruned query for all placements; the truth of `if` values coming from variables.", c19)
}

// rangeElems finds the element values of `for _, e := range X.<field>` loops
// over graphql.SelectionSet.<field> in fn.
func rangeElems(fn *ssa.Function, field string) []*ssa.UnOp {
	var out []*ssa.UnOp
	an.Instrs(fn, func(i ssa.Instruction) {
		ld, ok := i.(*ssa.UnOp)
		if !ok || ld.Op != token.MUL {
			return
		}
		ia, ok := ld.X.(*ssa.IndexAddr)
		if !ok || !an.IsRangeIndex(ia.Index) {
			return
		}
		if an.IsFieldAccess(ia.X, "SelectionSet", field) {
			out = append(out, ld)
		}
	})
	return out
}

// nodeChecks returns the ShouldIncludeNode calls in fn whose argument is e.Directives.
func nodeChecks(fn *ssa.Function, e ssa.Value) []ssa.Instruction {
	var out []ssa.Instruction
	for _, call := range an.Calls(fn, an.Mod(gq, "", "ShouldIncludeNode")) {
		arg := an.CallOf(call).Args[0]
		if ld, ok := arg.(*ssa.UnOp); ok {
			if fa, ok := ld.X.(*ssa.FieldAddr); ok && fa.X == e && an.FieldName(fa.X.Type(), fa.Field) == "Directives" {
				out = append(out, call)
			}
		}
	}
	return out
}

// includeBlocker blocks the edges that are only taken when the checks
// returned (true, nil).
func includeBlocker(fn *ssa.Function, checks []ssa.Instruction) (errBlk, okBlk *an.Blocker) {
	errBlk, okBlk = an.NewBlocker(), an.NewBlocker()
	an.BlockSuccessEdges(fn, errBlk, checks)
	for _, chk := range checks {
		okv := extractOf(chk.(ssa.Value), 0)
		if okv == nil {
			continue
		}
		for _, ci := range an.CondIfs(fn, func(v ssa.Value) bool { return v == okv }) {
			okBlk.AddEdge(ci.If.Block(), ci.True)
		}
	}
	return
}

// nodeUses returns the instructions that use element e beyond reading its
// Directives (and identification fields used for error messages).
func nodeUses(e ssa.Value, onlyBody bool) []ssa.Instruction {
	var out []ssa.Instruction
	refs := e.Referrers()
	if refs == nil {
		return nil
	}
	for _, r := range *refs {
		switch x := r.(type) {
		case *ssa.FieldAddr:
			f := an.FieldName(x.X.Type(), x.Field)
			if f == "SelectionSet" {
				out = append(out, x)
			} else if !onlyBody && f != "Directives" && f != "Alias" && f != "On" && f != "Name" {
				out = append(out, x)
			}
		case *ssa.DebugRef:
		default:
			if !onlyBody {
				out = append(out, r)
			}
		}
	}
	return out
}

func c19(c *an.Ctx) {
	p := c.P

	c.Check("R-PAIR", "union members: fragment directives are evaluated by the object resolver on a selection set that carries every applicable fragment and the union-level selections (an excluded fragment removes exactly its own fields)", 2, func(o *an.O) {
		ruleUnionMemberSelection(c, o)
	})

	c.Check("R-DOM", "ShouldIncludeNode consults both @skip and @include before any including return; @skip(if:true) excludes", 3, func(o *an.O) {
		fn := c.NeedFunc(gq, "ShouldIncludeNode")
		finds := map[string][]ssa.Instruction{}
		for _, call := range an.Calls(fn, an.Mod(gq, "", "findDirectiveWithName")) {
			if s, ok := an.ConstString(an.CallOf(call).Args[1]); ok {
				finds[s] = append(finds[s], call)
				o.Site(call)
			}
			if an.CallOf(call).Args[0] != ssa.Value(fn.Params[0]) {
				o.FailAt(call, "directive looked up in %s, not in the node's directives", an.Expr(an.CallOf(call).Args[0]))
			}
		}
		sp := p.Pkg(gq)
		skip, include := constStr(sp, "SKIP"), constStr(sp, "INCLUDE")
		an.Need(skip != "" && include != "", "constants SKIP/INCLUDE")
		for _, e := range an.Exits(fn, false) {
			ret := e.(*ssa.Return)
			v := an.ResultAt(ret, 0)
			if cst, ok := v.(*ssa.Const); ok && cst.Value != nil && cst.Value.ExactString() == "false" {
				continue
			}
			o.Site(e)
			for _, name := range []string{skip, include} {
				if len(finds[name]) == 0 || an.Reach(fn, nil, an.NewBlocker(finds[name]...))[e] {
					o.FailAt(e, "ShouldIncludeNode can return %s without having looked for @%s: a node carrying both directives is included although one of them excludes it", an.Expr(v), name)
				}
			}
			// a non-false return must not lie on the @skip(if:true) branch
			for _, g := range an.GuardsOf(e.Block()) {
				if ex, ok := g.Cond.(*ssa.Extract); ok && g.Polarity && ex.Index == 0 {
					if call, ok := ex.Tuple.(*ssa.Call); ok && an.Mod(gq, "", "parseIf").Matches(call.Common()) && derivesFromFind(call.Call.Args[0], skip) {
						o.FailAt(e, "the node is included although @skip(if:true) holds")
					}
				}
			}
			// result taken from parseIf must be parseIf(include), not parseIf(skip)
			if ex, ok := v.(*ssa.Extract); ok {
				if call, ok := ex.Tuple.(*ssa.Call); ok && an.Mod(gq, "", "parseIf").Matches(call.Common()) && !derivesFromFind(call.Call.Args[0], include) {
					o.FailAt(e, "the inclusion verdict is parseIf of something other than the @include directive")
				}
			}
		}
		// when @skip's `if` is true the function returns false
		okSkip := false
		for _, e := range an.Exits(fn, false) {
			v := an.ResultAt(e.(*ssa.Return), 0)
			if cst, ok := v.(*ssa.Const); ok && cst.Value != nil && cst.Value.ExactString() == "false" {
				for _, g := range an.GuardsOf(e.Block()) {
					if ex, ok := g.Cond.(*ssa.Extract); ok && g.Polarity && ex.Index == 0 {
						if call, ok := ex.Tuple.(*ssa.Call); ok && derivesFromFind(call.Call.Args[0], skip) {
							okSkip = true
						}
					}
				}
			}
		}
		if !okSkip {
			o.Fail(p.Pos(fn.Pos()), "no `return false` on the @skip(if:true) branch")
		}
	})

	type site struct{ rel, fn, field, what string }
	required := []site{
		{gq, "Flatten", "Selections", "grouping by alias"},
		{gq, "Flatten", "Fragments", "descending into the fragment"},
		{"federation", "(*flattener).flattenFragments", "Selections", "collecting for mergeSameAlias"},
		{"federation", "(*flattener).flattenFragments", "Fragments", "inlining the fragment"},
		{"federation", "(*Planner).planObject", "Selections", "assigning the selection to a service"},
	}
	c.Check("R-SITE", "consumers of raw selection sets use a node only behind ShouldIncludeNode(node.Directives) == (true, nil)", 5, func(o *an.O) {
		for _, s := range required {
			top := c.NeedFunc(s.rel, s.fn)
			found := false
			for _, fn := range an.WithAnons(top) {
				for _, e := range rangeElems(fn, s.field) {
					if !overParameter(e) {
						continue // a selection set this function built itself (already filtered)
					}
					found = true
					o.Site(e)
					checks := nodeChecks(fn, e)
					if len(checks) == 0 {
						o.FailAt(e, "%s walks %s without evaluating each node's own @skip/@include before %s", s.fn, s.field, s.what)
						continue
					}
					errBlk, okBlk := includeBlocker(fn, checks)
					if len(errBlk.Edge) == 0 || len(okBlk.Edge) == 0 {
						o.FailAt(checks[0], "%s ignores the verdict or the error of ShouldIncludeNode", s.fn)
						continue
					}
					r1, r2 := an.Reach(fn, nil, errBlk), an.Reach(fn, nil, okBlk)
					for _, u := range nodeUses(e, false) {
						if r1[u] || r2[u] {
							o.FailAt(u, "%s uses the %s element (%s) on a path where ShouldIncludeNode did not return (true, nil): an excluded node would still be %s", s.fn, strings.TrimSuffix(s.field, "s"), an.Short(u.String(), 40), s.what)
						}
					}
				}
			}
			if !found {
				o.Fail(p.Pos(top.Pos()), "%s no longer ranges over SelectionSet.%s (anchor drifted)", s.fn, s.field)
			}
		}
	})

	exempt := map[string]string{
		"graphql.prepareQuery":                     "validation must see every node whatever its directives",
		"graphql.PrepareQuery":                     "validation must see every node whatever its directives",
		"graphql.detectCyclesAndUnusedFragments$1": "cycle detection over fragment definitions",
		"graphql.detectConflicts$1$1":              "conflict detection is deliberately conservative (all nodes)",
		"graphql.detectConflicts$1":                "conflict detection is deliberately conservative (all nodes)",
		"federation.printSelections":               "debug printing",
		"federation.(*Planner).planUnion":          "input is the flattener's output: its per-type fragments carry no directives",
		"federation.marshalPbSelections":           "serialises an already planned (flattened) selection set",
		"federation.unmarshalPbSelectionSet":       "deserialises a planned selection set",
		"federation.(*flattener).flattenFragments": "required site (checked above)",
		"graphql.Flatten$1":                        "required site (checked above)",
	}
	c.Check("R-WHO", "no other function of graphql/federation opens a fragment body without the directive test (reasoned exempt list)", 6, func(o *an.O) {
		for _, fn := range p.ModuleFuncs(func(rel string) bool { return rel == gq || rel == "federation" }) {
			full := an.RelPkg(fn) + "." + an.QualName(fn)
			for _, e := range rangeElems(fn, "Fragments") {
				body := nodeUses(e, true)
				if len(body) == 0 {
					continue // the fragment is only forwarded together with its directives
				}
				o.Site(e)
				if listedFunc(exempt, full) {
					continue
				}
				checks := nodeChecks(fn, e)
				if len(checks) == 0 {
					o.FailAt(body[0], "%s opens fragment.SelectionSet without evaluating the fragment's @skip/@include and is not on the exempt list", full)
					continue
				}
				errBlk, okBlk := includeBlocker(fn, checks)
				r1, r2 := an.Reach(fn, nil, errBlk), an.Reach(fn, nil, okBlk)
				for _, u := range body {
					if len(errBlk.Edge) == 0 || len(okBlk.Edge) == 0 || r1[u] || r2[u] {
						o.FailAt(u, "%s opens fragment.SelectionSet on a path where ShouldIncludeNode did not return (true, nil)", full)
					}
				}
			}
		}
		for name := range exempt {
			parts := strings.SplitN(name, ".", 2)
			if p.Func(parts[0], parts[1]) == nil {
				o.Note("exempt entry %s no longer exists", name)
			}
		}
	})

	c.Check("R-FRESH", "parseSelectionSet writes only Selection/Fragment/SelectionSet objects it allocated; the shared fragment definition is never modified", 4, func(o *an.O) {
		fn := c.NeedFunc(gq, "parseSelectionSet")
		an.Instrs(fn, func(i ssa.Instruction) {
			st, ok := i.(*ssa.Store)
			if !ok {
				return
			}
			fa, ok := st.Addr.(*ssa.FieldAddr)
			if !ok {
				return
			}
			n := an.NamedOf(fa.X.Type())
			if n == nil || (n.Obj().Name() != "Fragment" && n.Obj().Name() != "Selection" && n.Obj().Name() != "SelectionSet") {
				return
			}
			o.Site(i)
			if _, ok := fa.X.(*ssa.Alloc); !ok {
				o.FailAt(i, "parseSelectionSet writes %s of an object it did not allocate (%s): a fragment definition is shared by all of its spreads, so one spread's directives would apply to the others", an.FieldName(fa.X.Type(), fa.Field), an.Short(an.Expr(fa.X), 50))
			}
		})
		// also: Parse fills the definition's SelectionSet only once (the only other writer)
		for _, f := range p.ModuleFuncs(func(rel string) bool { return rel == gq }) {
			for _, r := range an.FieldRefs(f, gqPath(), "Fragment", "Directives") {
				if r.Kind == "store" {
					o.Site(r.Instr)
					if fa, ok := r.Addr.(*ssa.FieldAddr); ok {
						if _, ok := fa.X.(*ssa.Alloc); !ok {
							o.FailAt(r.Instr, "%s sets Directives on a fragment it did not allocate", an.QualName(f))
						}
					}
				}
			}
		}
	})

	c.Check("R-POST", "parseSelectionSet turns every field, spread and inline fragment of the query into its own element (no spread is dropped before its directives are evaluated)", 3, func(o *an.O) {
		fn := c.NeedFunc(gq, "parseSelectionSet")
		// the loop over input.Selections
		var hdr *ssa.BasicBlock
		an.Instrs(fn, func(i ssa.Instruction) {
			if ia, ok := i.(*ssa.IndexAddr); ok && an.IsRangeIndex(ia.Index) && strings.HasSuffix(an.Expr(ia.X), ".Selections") {
				if h := an.LoopHeaderOf(i); h != nil {
					hdr = h
				}
			}
		})
		an.Need(hdr != nil, "loop over input.Selections")
		// appends to the two result lists
		var appends []ssa.Instruction
		an.Instrs(fn, func(i ssa.Instruction) {
			call, ok := i.(*ssa.Call)
			if !ok {
				return
			}
			b, ok := call.Call.Value.(*ssa.Builtin)
			if !ok || b.Name() != "append" || !isSingleElementSlice(call.Call.Args[1]) {
				return
			}
			t := call.Call.Args[0].Type().String()
			if strings.HasSuffix(t, "graphql.Selection") || strings.HasSuffix(t, "graphql.Fragment") {
				appends = append(appends, i)
			}
		})
		kinds := []string{"*ast.Field", "*ast.FragmentSpread", "*ast.InlineFragment"}
		for _, k := range kinds {
			// the block entered when the type switch matched kind k
			var entry *ssa.BasicBlock
			for _, b := range fn.Blocks {
				if len(b.Preds) != 1 {
					continue
				}
				for _, g := range an.GuardsOf(b) {
					if ex, ok := g.Cond.(*ssa.Extract); ok && g.Polarity && ex.Index == 1 && g.If.Block() == b.Preds[0] {
						if ta, ok := ex.Tuple.(*ssa.TypeAssert); ok && types.TypeString(ta.AssertedType, func(p *types.Package) string { return p.Name() }) == k {
							entry = b
						}
					}
				}
			}
			if entry == nil {
				o.Fail(p.Pos(fn.Pos()), "parseSelectionSet has no case for %s", k)
				continue
			}
			o.SitePos(p.InstrPos(entry.Instrs[0]))
			r := an.Reach(fn, entry.Instrs[0], an.NewBlocker(appends...))
			if r[hdr.Instrs[0]] {
				o.Fail(p.InstrPos(entry.Instrs[0]), "a %s of the query can be skipped without producing an element (the loop continues without appending): e.g. a repeated spread of a fragment is dropped before its own @skip/@include is looked at, so an excluded first spread suppresses an included later one", strings.TrimPrefix(k, "*ast."))
			}
		}
	})

	c.Check("R-PROV", "directive conditions taken from variables see the variables' defaults: every selection set (operation and fragment definitions) is parsed with the defaulted variables (rule shared with C18)", 2, func(o *an.O) {
		ruleParseUsesDefaultedVars(c, o)
	})

	c.Check("R-GUARD", "a directive condition supplied through a variable wins over the variable's default: Parse installs a default only when no non-null value was supplied (an explicit false must not be replaced by a default of true) - rule shared with C18", 4, func(o *an.O) {
		ruleParseDefaults(c, o, "guard")
	})
	c.Check("R-ERR", "parseIf rejects a missing or non-boolean `if` with an error", 3, func(o *an.O) {
		ruleParseIf(c, o)
	})
}

func constStr(sp *ssa.Package, name string) string {
	if sp == nil {
		return ""
	}
	if c, ok := sp.Members[name].(*ssa.NamedConst); ok {
		if s, ok := an.ConstString(c.Value); ok {
			return s
		}
	}
	return ""
}

// derivesFromFind: v is the result of findDirectiveWithName(_, name).
func derivesFromFind(v ssa.Value, name string) bool {
	call, ok := v.(*ssa.Call)
	if !ok || !an.Mod(gq, "", "findDirectiveWithName").Matches(call.Common()) {
		return false
	}
	s, ok := an.ConstString(call.Call.Args[1])
	return ok && s == name
}

// overParameter: the ranged slice is <param>.Selections / <param>.Fragments.
func overParameter(e *ssa.UnOp) bool {
	ia := e.X.(*ssa.IndexAddr)
	ld, ok := ia.X.(*ssa.UnOp)
	if !ok {
		return false
	}
	fa, ok := ld.X.(*ssa.FieldAddr)
	if !ok {
		return false
	}
	_, isParam := fa.X.(*ssa.Parameter)
	return isParam
}

// ruleParseIf (C19, C15): the directive condition comes from the client (a literal, or a variable
// that may be absent or null): parseIf must turn a missing or non-boolean `if` into an error.
func ruleParseIf(c *an.Ctx, o *an.O) {
	p := c.P
	_ = p
	fn := c.NeedFunc(gq, "parseIf")
	nErr, nOK := 0, 0
	for _, e := range an.Exits(fn, false) {
		ret := e.(*ssa.Return)
		o.Site(e)
		if isConstNil(ret.Results[1]) {
			nOK++
			// success: value is args[if].(bool) and both tests passed
			gs := strings.Join(an.GuardStrings(e.Block()), " ; ")
			if !strings.Contains(gs, "!= nil)") && !strings.Contains(gs, "== nil)") {
				o.FailAt(e, "parseIf succeeds without testing that `if` was provided (guards: %s)", gs)
			}
			if !strings.Contains(gs, ".(bool)#1") {
				o.FailAt(e, "parseIf succeeds without testing that `if` is a boolean (guards: %s)", gs)
			}
			continue
		}
		nErr++
		if cst, ok := ret.Results[0].(*ssa.Const); !ok || cst.Value == nil || cst.Value.ExactString() != "false" {
			o.FailAt(e, "parseIf returns a truthy verdict together with an error")
		}
	}
	if nErr < 2 || nOK != 1 {
		o.Fail(p.Pos(fn.Pos()), "parseIf must have error returns for a missing and for a non-boolean `if` and one success return (found %d/%d)", nErr, nOK)
	}
}
