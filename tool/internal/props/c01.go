package props

import (
	"fmt"
	"go/token"
	"go/types"
	"strings"

	"golang.org/x/tools/go/ssa"

	"thunderlint/internal/an"
)

func init() {
	register("C01", "Decides the structural basis of 'results equal the sequential reference under any scheduling' in the batched executor: (1) source/destination pairing - an alignment inference over slices (declared pairs WorkUnit.sources/destinations and the (sources, destinations) parameters; slices grown by appends in one block; make(len(S)); batch resolver results) proves that every index into a destination-like slice is the induction value of a loop over an aligned slice, that every WorkUnit literal and every resolve*Batch call receives an aligned pair, and that the bucket expressions of splitToNWorkUnits agree; the schemabuilder batch adapter maps results back by the same index it handed out; (2) Flatten merges both the selections and the fragments of every same-alias selection and copies name/alias/args from a member of the same group; (3) Executor.Execute serialises only after scheduler.Run; the goroutine scheduler does wg.Add before `go`, defers wg.Done and waits after enqueueing; (4) resolveUnionBatch resolves each member type once against a selection set carrying all applicable fragments (single writer per destination), and a non-nil member is always filled with an object; (5) resolveBatch's type dispatch is total; (6) the memoisation key of expensive fields names field, source and selection; the leaf and list resolvers settle every destination on every iteration (Fill or Fail). Not decided: equality with a reference evaluator for all schemas/queries, data-race freedom of outputNode.res, user resolvers.", c01)
}

// ---------------------------------------------------------------------------
// alignment inference

type alignment struct {
	fn     *ssa.Function
	parent map[interface{}]interface{}
	memo   map[ssa.Value]interface{}
}

func newAlignment(fn *ssa.Function) *alignment {
	return &alignment{fn: fn, parent: map[interface{}]interface{}{}, memo: map[ssa.Value]interface{}{}}
}

func (a *alignment) find(k interface{}) interface{} {
	for {
		p, ok := a.parent[k]
		if !ok || p == k {
			return k
		}
		k = p
	}
}

func (a *alignment) union(x, y interface{}) {
	rx, ry := a.find(x), a.find(y)
	if rx != ry {
		a.parent[rx] = ry
	}
}

type elemKey struct {
	m   interface{} // class of the map
	key ssa.Value
}

// key returns the identity of a slice-valued expression.
func (a *alignment) key(v ssa.Value) interface{} {
	if k, ok := a.memo[v]; ok {
		return k
	}
	a.memo[v] = v // cycle breaker
	var k interface{} = v
	switch x := v.(type) {
	case *ssa.Call:
		if b, ok := x.Call.Value.(*ssa.Builtin); ok && b.Name() == "append" {
			k = a.key(x.Call.Args[0])
		}
	case *ssa.Phi:
		for _, e := range x.Edges {
			if e == v {
				continue
			}
			if c, ok := e.(*ssa.Const); ok && c.IsNil() {
				continue
			}
			a.union(v, a.key(e))
		}
		k = v
	case *ssa.UnOp:
		if x.Op == token.MUL {
			if p := an.PathOf(x); p != "" {
				k = "path:" + p
			}
		}
	case *ssa.Parameter:
		k = "path:" + x.Name()
	case *ssa.Slice:
		// s[:] of a fixed-size array literal: a single-element (or n-element) literal
		if al, ok := x.X.(*ssa.Alloc); ok && x.Low == nil && x.High == nil {
			if at, ok := al.Type().(*types.Pointer).Elem().(*types.Array); ok {
				k = fmt.Sprintf("literal:%d", at.Len())
			}
		}
	case *ssa.MakeSlice:
		if n, ok := an.ConstInt(x.Len); ok && n == 0 {
			// a fresh empty slice that is only stored (never grown through this
			// value) is trivially aligned with other such slices
			grown := false
			for _, r := range *x.Referrers() {
				if call, ok := r.(*ssa.Call); ok {
					if b, ok := call.Call.Value.(*ssa.Builtin); ok && b.Name() == "append" {
						grown = true
					}
				}
				if _, ok := r.(*ssa.Phi); ok {
					grown = true
				}
			}
			if !grown {
				k = "literal:0"
			}
		}
	case *ssa.Lookup:
		k = elemKey{a.find(a.key(x.X)), x.Index}
	case *ssa.Extract:
		if nx, ok := x.Tuple.(*ssa.Next); ok && x.Index == 2 {
			if r, ok := nx.Iter.(*ssa.Range); ok {
				var keyv ssa.Value
				for _, ref := range *nx.Referrers() {
					if e2, ok := ref.(*ssa.Extract); ok && e2.Index == 1 {
						keyv = e2
					}
				}
				k = elemKey{a.find(a.key(r.X)), keyv}
			}
		}
	case *ssa.MakeInterface, *ssa.ChangeType:
		k = a.key(an.StripConv(v))
	}
	a.memo[v] = k
	if k != interface{}(v) {
		a.union(v, k)
	}
	return k
}

func (a *alignment) aligned(x, y ssa.Value) bool {
	kx, ky := a.key(x), a.key(y)
	ex, okx := kx.(elemKey)
	ey, oky := ky.(elemKey)
	if okx && oky {
		return a.find(ex.m) == a.find(ey.m) && ex.key == ey.key
	}
	return a.find(kx) == a.find(ky)
}

// loopSliceOf: for an induction value idx of a loop over S, returns S.
func loopSliceOf(idx ssa.Value) ssa.Value { return an.LoopSliceOf(idx) }

// infer applies the axioms and inference rules.
func (a *alignment) infer(pairs [][2]string) {
	fn := a.fn
	// declared parameter pairs
	for _, pr := range pairs {
		a.union("path:"+pr[0], "path:"+pr[1])
	}
	// WorkUnit.sources / WorkUnit.destinations of the same unit
	seenUnits := map[string]bool{}
	an.Instrs(fn, func(i ssa.Instruction) {
		if fa, ok := i.(*ssa.FieldAddr); ok {
			if n := an.NamedOf(fa.X.Type()); n != nil && n.Obj().Name() == "WorkUnit" {
				base := an.PathOf(fa.X)
				if base != "" && !seenUnits[base] {
					seenUnits[base] = true
					a.union("path:"+base+".sources", "path:"+base+".destinations")
				}
			}
		}
	})
	for iter := 0; iter < 3; iter++ {
		for _, b := range fn.Blocks {
			// appends of exactly one element in this block, and map-element appends
			var keys []interface{}
			for _, i := range b.Instrs {
				call, ok := i.(*ssa.Call)
				if !ok {
					continue
				}
				bi, ok := call.Call.Value.(*ssa.Builtin)
				if !ok || bi.Name() != "append" || len(call.Call.Args) != 2 {
					continue
				}
				if !isSingleElementSlice(call.Call.Args[1]) {
					continue
				}
				k := a.key(call.Call.Args[0])
				if ek, ok := k.(elemKey); ok {
					keys = append(keys, elemKey{a.find(ek.m), ek.key})
				} else {
					keys = append(keys, a.find(k))
				}
			}
			for x := 0; x < len(keys); x++ {
				for y := x + 1; y < len(keys); y++ {
					ex, okx := keys[x].(elemKey)
					ey, oky := keys[y].(elemKey)
					switch {
					case okx && oky:
						if ex.key == ey.key {
							a.union(ex.m, ey.m)
						}
					case !okx && !oky:
						a.union(keys[x], keys[y])
					}
				}
			}
			// alignment with the ranged slice when the block runs on every iteration
			if len(keys) > 0 {
				if h := an.LoopHeaderOf(b.Instrs[0]); h != nil {
					if iff, ok := h.Instrs[len(h.Instrs)-1].(*ssa.If); ok {
						if cmp, ok := iff.Cond.(*ssa.BinOp); ok && an.IsRangeIndex(cmp.X) {
							S := loopSliceOf(cmp.X)
							body := h.Succs[0]
							if S != nil && everyIteration(fn, body, b, h) {
								for _, k := range keys {
									if _, isElem := k.(elemKey); !isElem {
										a.union(k, a.key(S))
									}
								}
							}
						}
					}
				}
			}
		}
		// make([]T, len(S)) and call contracts
		an.Instrs(fn, func(i ssa.Instruction) {
			switch x := i.(type) {
			case *ssa.MakeSlice:
				if call, ok := x.Len.(*ssa.Call); ok {
					if b, ok := call.Call.Value.(*ssa.Builtin); ok && b.Name() == "len" {
						a.union(a.key(x), a.key(call.Call.Args[0]))
					}
				}
			case *ssa.Extract:
				if call, ok := x.Tuple.(*ssa.Call); ok && x.Index == 0 && an.Mod(gq, "", "SafeExecuteBatchResolver").Matches(call.Common()) {
					a.union(a.key(x), a.key(call.Call.Args[2]))
				}
			}
		})
	}
}

func isSingleElementSlice(v ssa.Value) bool {
	sl, ok := v.(*ssa.Slice)
	if !ok {
		return false
	}
	al, ok := sl.X.(*ssa.Alloc)
	if !ok {
		return false
	}
	at, ok := al.Type().(*types.Pointer).Elem().(*types.Array)
	return ok && at.Len() == 1
}

// everyIteration: block b lies on every path from the loop body's start back
// to the header h (returns out of the function are allowed).
func everyIteration(fn *ssa.Function, body, b, h *ssa.BasicBlock) bool {
	if len(b.Instrs) == 0 || len(body.Instrs) == 0 {
		return false
	}
	if body == b {
		return true
	}
	blk := an.NewBlocker(b.Instrs[0])
	r := an.Reach(fn, body.Instrs[0], blk)
	return !r[h.Instrs[0]] && body.Instrs[0] != b.Instrs[0]
}

func isDestLike(t types.Type) bool {
	s, ok := t.Underlying().(*types.Slice)
	if !ok {
		return false
	}
	if p, ok := s.Elem().(*types.Pointer); ok {
		if n, ok := p.Elem().(*types.Named); ok && n.Obj().Name() == "outputNode" {
			return true
		}
	}
	if m, ok := s.Elem().Underlying().(*types.Map); ok {
		if b, ok := m.Key().Underlying().(*types.Basic); ok && b.Kind() == types.String {
			return true // []map[string]interface{}: nonNilDestinations
		}
	}
	return false
}

// declared (sources, destinations) parameter pairs per function
var c01ParamPairs = map[string][2]int{
	"resolveBatch":       {1, 4},
	"resolveScalarBatch": {0, 2},
	"resolveEnumBatch":   {0, 2},
	"resolveListBatch":   {1, 4},
	"resolveUnionBatch":  {1, 4},
	"resolveObjectBatch": {1, 4},
}

func c01(c *an.Ctx) {
	c.Check("R-PAIR", "executor: every index into a destination slice is the induction value of a loop over an aligned slice; WorkUnit literals and resolve*Batch calls get aligned pairs", 25, func(o *an.O) {
		ruleExecutorAlignment(c, o)
	})

	c.Check("R-FRESH", "Flatten builds the merged selection set from fresh slices only (never appends onto a slice that belongs to the query)", 2, func(o *an.O) {
		fn := c.NeedFunc(gq, "Flatten")
		for _, f := range an.WithAnons(fn) {
			an.Instrs(f, func(i ssa.Instruction) {
				call, ok := i.(*ssa.Call)
				if !ok {
					return
				}
				b, ok := call.Call.Value.(*ssa.Builtin)
				if !ok || b.Name() != "append" {
					return
				}
				t := call.Call.Args[0].Type().String()
				if !strings.HasSuffix(t, "graphql.Selection") && !strings.HasSuffix(t, "graphql.Fragment") {
					return
				}
				o.Site(i)
				if !freshSliceOrOwnField(call.Call.Args[0], 0) {
					o.FailAt(i, "Flatten appends onto %s, a slice owned by the parsed query: when it has spare capacity the new elements are written into a backing array shared with other uses of the same selection set (e.g. another spread of the fragment), so the merged children of one place leak into another depending on scheduling", an.Short(an.Expr(call.Call.Args[0]), 60))
				}
			})
		}
	})
	c.Check("R-POST", "leaf and list resolvers settle every destination: each iteration over the sources ends in Fill or Fail on its destination (rule shared with C14)", 3, func(o *an.O) {
		ruleDestinationsSettled(c, o)
	})
	c01rest(c)
}

// freshSliceOrOwnField: v is nil, allocated here, a map element bucket, or a
// field of a composite literal allocated here all of whose stores are fresh.
func freshSliceOrOwnField(v ssa.Value, d int) bool {
	return freshSliceSeen(v, map[ssa.Value]bool{})
}

func freshSliceSeen(v ssa.Value, seen map[ssa.Value]bool) bool {
	if seen[v] {
		return true // cycle through a phi: decided by the other edges
	}
	seen[v] = true
	switch x := v.(type) {
	case *ssa.Const:
		return x.IsNil()
	case *ssa.MakeSlice:
		return true
	case *ssa.Phi:
		for _, e := range x.Edges {
			if e == v {
				continue
			}
			if !freshSliceSeen(e, seen) {
				return false
			}
		}
		return true
	case *ssa.Call:
		if b, ok := x.Call.Value.(*ssa.Builtin); ok && b.Name() == "append" {
			return freshSliceSeen(x.Call.Args[0], seen)
		}
		return false
	case *ssa.Lookup:
		// bucket of a map built in this function
		_, ok := an.Unload(x.X).(*ssa.MakeMap)
		if !ok {
			if ld, isLd := x.X.(*ssa.UnOp); isLd {
				// captured local map variable
				switch ld.X.(type) {
				case *ssa.FreeVar, *ssa.Alloc:
					return true
				}
			}
		}
		return ok
	case *ssa.UnOp:
		fa, ok := x.X.(*ssa.FieldAddr)
		if !ok {
			return false
		}
		al, ok := fa.X.(*ssa.Alloc)
		if !ok {
			return false
		}
		// every store into this field of the local literal must be fresh
		for _, r := range *al.Referrers() {
			fa2, ok := r.(*ssa.FieldAddr)
			if !ok || fa2.Field != fa.Field {
				continue
			}
			for _, u := range *fa2.Referrers() {
				if st, ok := u.(*ssa.Store); ok && st.Addr == ssa.Value(fa2) {
					if call, ok := st.Val.(*ssa.Call); ok {
						if b, ok := call.Call.Value.(*ssa.Builtin); ok && b.Name() == "append" {
							if ld, ok := call.Call.Args[0].(*ssa.UnOp); ok {
								if fa3, ok := ld.X.(*ssa.FieldAddr); ok && fa3.X == ssa.Value(al) && fa3.Field == fa.Field {
									continue // x.f = append(x.f, ...)
								}
							}
						}
					}
					if !freshSliceSeen(st.Val, seen) {
						return false
					}
				}
			}
		}
		return true
	}
	return false
}

// ruleExecutorAlignment is shared by C01 (results land in the right object)
// and C16 (error paths are built from the same parent chain).
func ruleExecutorAlignment(c *an.Ctx, o *an.O) {
	p := c.P
	{
		for _, fn := range p.ModuleFuncs(func(rel string) bool { return rel == gq }) {
			if baseName(p.Fset.Position(fn.Pos()).Filename) != "batch_executor.go" {
				continue
			}
			a := newAlignment(fn)
			var pairs [][2]string
			if pr, ok := c01ParamPairs[fn.Name()]; ok && fn.Parent() == nil && len(fn.Params) > pr[1] {
				pairs = append(pairs, [2]string{fn.Params[pr[0]].Name(), fn.Params[pr[1]].Name()})
			}
			a.infer(pairs)
			name := an.QualName(fn)
			an.Instrs(fn, func(i ssa.Instruction) {
				switch x := i.(type) {
				case *ssa.IndexAddr:
					if !isDestLike(x.X.Type()) {
						return
					}
					o.Site(i)
					if an.IsRangeIndex(x.Index) {
						S := loopSliceOf(x.Index)
						if S == nil {
							o.FailAt(i, "%s: cannot find the slice ranged over for index %s", name, an.Expr(x.Index))
							return
						}
						if S != x.X && !a.aligned(S, x.X) {
							o.FailAt(i, "%s indexes %s with the position in %s, but the two slices are not known to be aligned (element k of one does not correspond to element k of the other): results would be written into another object's output node", name, an.Expr(x.X), an.Expr(S))
						}
						return
					}
					if n, ok := an.ConstInt(x.Index); ok && an.LoopHeaderOf(i) == nil {
						_ = n
						return // constant index outside loops (single-element literals)
					}
					o.FailAt(i, "%s indexes the destination slice %s with %s, which is not the induction value of a loop over the paired sources", name, an.Expr(x.X), an.Expr(x.Index))
				case *ssa.Call:
					callee := x.Call.StaticCallee()
					if callee == nil {
						return
					}
					if pr, ok := c01ParamPairs[callee.Name()]; ok && an.RelPkg(callee) == gq {
						o.Site(i)
						src, dst := x.Call.Args[pr[0]], x.Call.Args[pr[1]]
						if !a.aligned(src, dst) {
							o.FailAt(i, "%s calls %s with sources %s and destinations %s that are not known to be aligned", name, callee.Name(), an.Short(an.Expr(src), 40), an.Short(an.Expr(dst), 40))
						}
					}
				}
			})
			for _, l := range an.StructLits(fn, "WorkUnit") {
				o.Site(l.Alloc)
				src, dst := l.Fields["sources"], l.Fields["destinations"]
				if src == nil || dst == nil {
					o.FailAt(l.Alloc, "%s builds a WorkUnit without both sources and destinations", name)
					continue
				}
				if !a.aligned(src, dst) {
					o.FailAt(l.Alloc, "%s builds a WorkUnit whose sources (%s) and destinations (%s) are not known to be aligned", name, an.Short(an.Expr(src), 40), an.Short(an.Expr(dst), 40))
				}
				// the selection/field of a split unit are the parent's
			}
		}
	}
}

func c01rest(c *an.Ctx) {
	p := c.P

	c.Check("R-PAIR", "splitToNWorkUnits: source and destination of one element go to the same bucket; split units copy field/selection/ctx", 4, func(o *an.O) {
		fn := c.NeedFunc(gq, "splitToNWorkUnits")
		var buckets []string
		an.Instrs(fn, func(i ssa.Instruction) {
			st, ok := i.(*ssa.Store)
			if !ok {
				return
			}
			fa, ok := st.Addr.(*ssa.FieldAddr)
			if !ok {
				return
			}
			f := an.FieldName(fa.X.Type(), fa.Field)
			if f != "sources" && f != "destinations" {
				return
			}
			call, ok := st.Val.(*ssa.Call)
			if !ok {
				return
			}
			if b, ok := call.Call.Value.(*ssa.Builtin); !ok || b.Name() != "append" {
				return
			}
			o.Site(i)
			// the unit written and the unit read are the same bucket
			w := an.Expr(fa.X)
			r := strings.TrimSuffix(an.Expr(call.Call.Args[0]), "."+f)
			if w != r {
				o.FailAt(i, "appends to %s.%s but stores into %s.%s", r, f, w, f)
			}
			buckets = append(buckets, w)
			// the appended element: source of this iteration / unit.destinations[idx] of this iteration
			if f == "destinations" {
				el := singleElem(call.Call.Args[1])
				ok := false
				if ld, isLd := el.(*ssa.UnOp); isLd {
					if ia, isIA := ld.X.(*ssa.IndexAddr); isIA && an.IsRangeIndex(ia.Index) && strings.HasSuffix(an.Expr(ia.X), ".destinations") {
						ok = true
					}
				}
				if !ok {
					o.FailAt(i, "the destination appended is %s, not unit.destinations[idx] of the current source", an.Expr(el))
				}
			}
		})
		if len(buckets) != 2 {
			o.Fail(p.Pos(fn.Pos()), "expected one append to sources and one to destinations in the distribution loop, found %d", len(buckets))
		} else if buckets[0] != buckets[1] {
			o.Fail(p.Pos(fn.Pos()), "a source goes to bucket %s but its destination to %s: results of one object are written into another's output", buckets[0], buckets[1])
		}
		for _, nm := range []string{"splitToNWorkUnits", "splitWorkUnit"} {
			f := c.NeedFunc(gq, nm)
			unit := f.Params[0].Name()
			for _, l := range an.StructLits(f, "WorkUnit") {
				o.Site(l.Alloc)
				for _, fld := range []string{"Ctx", "field", "selection", "useBatch", "objectName"} {
					if v := l.Fields[fld]; v == nil || an.Expr(v) != unit+"."+fld {
						o.FailAt(l.Alloc, "%s: split unit's %s is %s, not the parent's", nm, fld, an.Expr(v))
					}
				}
			}
		}
	})

	c.Check("R-BOOL", "schemabuilder batch adapter decision tables: the batch function receives (ctx?, one entry per source in the form its signature wants, args?, selectionSet?) in that order; its error is returned first; missing / nil results are errors for non-nullable fields and null otherwise; present results are stored per source", 6, func(o *an.O) {
		ruleBatchAdapterTables(c, o)
	})

	c.Check("R-PAIR", "schemabuilder batch adapter: results are mapped back by the index that was handed out for the same source", 2, func(o *an.O) {
		const sb = "graphql/schemabuilder"
		prep := c.NeedFunc(sb, "(*batchFuncContext).prepareResolveArgs")
		// idxValues[idx] = reflect.ValueOf(batch.NewIndex(idx)) and map insert with the same idxVal for sources[idx]
		nIdx := 0
		an.Instrs(prep, func(i ssa.Instruction) {
			if call, ok := i.(*ssa.Call); ok && an.Mod("batch", "", "NewIndex").Matches(call.Common()) {
				nIdx++
				o.Site(i)
				if !an.IsRangeIndex(call.Call.Args[0]) {
					o.FailAt(i, "batch.NewIndex is given %s, not the position of the source", an.Expr(call.Call.Args[0]))
				}
			}
		})
		if nIdx != 1 {
			o.Fail(p.Pos(prep.Pos()), "expected one batch.NewIndex(idx) in prepareResolveArgs, found %d", nIdx)
		}
		ext := c.NeedFunc(sb, "(*batchFuncContext).extractResultsAndErr")
		found := false
		an.Instrs(ext, func(i ssa.Instruction) {
			st, ok := i.(*ssa.Store)
			if !ok {
				return
			}
			ia, ok := st.Addr.(*ssa.IndexAddr)
			if !ok || !strings.Contains(ia.X.Type().String(), "interface") {
				return
			}
			// resList[idx] = <something derived from MapIndex(idxVal)> with (idx, idxVal) of one iteration over idxValues
			if !an.IsRangeIndex(ia.Index) {
				return
			}
			S := loopSliceOf(ia.Index)
			if S == nil {
				return
			}
			if mi, ok := st.Val.(*ssa.MakeInterface); ok {
				if _, isConst := mi.X.(*ssa.Const); isConst {
					return // the "no return value" filler (true for every position), not a batch result
				}
			}
			o.Site(i)
			found = true
			// find the MapIndex call feeding the stored value and check its key is S[idx]
			okKey := false
			var walk func(v ssa.Value, d int)
			walk = func(v ssa.Value, d int) {
				if d > 6 || v == nil {
					return
				}
				switch x := v.(type) {
				case *ssa.Call:
					if f := an.CalleeFunc(x.Common()); f != nil && f.Name() == "MapIndex" {
						key := x.Call.Args[len(x.Call.Args)-1]
						if ld, ok := key.(*ssa.UnOp); ok {
							if ka, ok := ld.X.(*ssa.IndexAddr); ok && ka.X == S && ka.Index == ia.Index {
								okKey = true
							}
						}
						return
					}
					for _, a2 := range x.Call.Args {
						walk(a2, d+1)
					}
				case *ssa.Phi:
					for _, e := range x.Edges {
						walk(e, d+1)
					}
				case *ssa.MakeInterface:
					walk(x.X, d+1)
				case *ssa.Extract:
					walk(x.Tuple, d+1)
				case *ssa.UnOp:
					walk(x.X, d+1)
				}
			}
			walk(st.Val, 0)
			if !okKey {
				o.FailAt(i, "the batch result stored at position idx is not looked up with the index value handed out for that position")
			}
		})
		if !found {
			o.Fail(p.Pos(ext.Pos()), "extractResultsAndErr does not write results by position")
		}
	})

	c.Check("R-GUARD", "Flatten merges the selections and the fragments of every same-alias selection and copies name/alias/args from the group", 3, func(o *an.O) {
		fn := c.NeedFunc(gq, "Flatten")
		// the merged SelectionSet literal receives appends of both .Selections and .Fragments of each group member, in one block
		var merged *ssa.Alloc
		for _, l := range an.StructLits(fn, "SelectionSet") {
			merged = l.Alloc
		}
		if merged == nil {
			o.Fail(p.Pos(fn.Pos()), "Flatten no longer builds a merged SelectionSet for duplicated aliases")
			return
		}
		o.Site(merged)
		got := map[string]*ssa.BasicBlock{}
		an.Instrs(fn, func(i ssa.Instruction) {
			st, ok := i.(*ssa.Store)
			if !ok {
				return
			}
			fa, ok := st.Addr.(*ssa.FieldAddr)
			if !ok || fa.X != ssa.Value(merged) {
				return
			}
			f := an.FieldName(fa.X.Type(), fa.Field)
			call, ok := st.Val.(*ssa.Call)
			if !ok {
				return
			}
			o.Site(i)
			src := an.Expr(call.Call.Args[1])
			if !strings.HasSuffix(src, ".SelectionSet."+f) || !strings.Contains(src, "[#i]") {
				o.FailAt(i, "merged.%s receives %s, not the %s of the group member being visited", f, src, f)
			}
			got[f] = i.Block()
		})
		for _, f := range []string{"Selections", "Fragments"} {
			if got[f] == nil {
				o.Fail(p.Pos(fn.Pos()), "same-alias selections are merged without their %s: part of the query would silently not be executed", f)
			}
		}
		if got["Selections"] != nil && got["Fragments"] != nil && got["Selections"] != got["Fragments"] {
			o.Fail(p.Pos(fn.Pos()), "Selections and Fragments of a group member are merged under different conditions")
		}
		if b := got["Selections"]; b != nil {
			gs := an.GuardStrings(b)
			for _, g := range gs {
				if strings.Contains(g, "Directives") || strings.Contains(g, "Name") {
					o.Fail(p.Pos(fn.Pos()), "merging of a group member is conditional on %s", g)
				}
			}
		}
		// merged Selection literal takes its identification from a member of the same group
		for _, l := range an.StructLits(fn, "Selection") {
			o.Site(l.Alloc)
			base := ""
			for _, fld := range []string{"Name", "Alias", "Args", "UnparsedArgs", "ParentType"} {
				v := l.Fields[fld]
				if v == nil {
					o.FailAt(l.Alloc, "merged selection lacks %s", fld)
					continue
				}
				s := an.Expr(v)
				if !strings.HasSuffix(s, "."+fld) {
					o.FailAt(l.Alloc, "merged selection's %s is %s", fld, s)
					continue
				}
				b := strings.TrimSuffix(s, "."+fld)
				if base == "" {
					base = b
				} else if b != base {
					o.FailAt(l.Alloc, "merged selection mixes fields of %s and %s", base, b)
				}
			}
			if ss := l.Fields["SelectionSet"]; ss != ssa.Value(merged) {
				o.FailAt(l.Alloc, "merged selection does not carry the merged selection set")
			}
		}
		// grouping key is the alias
		for _, f := range an.WithAnons(fn)[1:] {
			an.Instrs(f, func(i ssa.Instruction) {
				if mu, ok := i.(*ssa.MapUpdate); ok && strings.HasSuffix(mu.Map.Type().String(), "[]*github.com/samsarahq/thunder/graphql.Selection") {
					o.Site(i)
					if !strings.HasSuffix(an.Expr(mu.Key), ".Alias") {
						o.FailAt(i, "selections are grouped by %s, not by alias", an.Expr(mu.Key))
					}
				}
			})
		}
	})

	c.Check("R-DOM", "goroutine scheduler: wg.Add before go, Done deferred in the goroutine, Wait after enqueueing; children enqueued before the parent is done", 2, func(o *an.O) {
		var run, enq *ssa.Function
		for _, fn := range p.ModuleFuncs(func(rel string) bool { return rel == gq }) {
			if baseName(p.Fset.Position(fn.Pos()).Filename) != "batch_scheduler.go" || fn.Parent() != nil {
				continue
			}
			switch fn.Name() {
			case "Run":
				run = fn
			case "runEnqueue":
				enq = fn
			}
		}
		an.Need(run != nil && enq != nil, "immediateGoroutineScheduler Run/runEnqueue")
		adds := an.Calls(enq, an.CalleeSpec{Pkg: "sync", Recv: "WaitGroup", Name: "Add"})
		var gos []ssa.Instruction
		an.Instrs(enq, func(i ssa.Instruction) {
			if _, ok := i.(*ssa.Go); ok {
				gos = append(gos, i)
			}
		})
		if len(gos) == 0 {
			o.Fail(p.Pos(enq.Pos()), "runEnqueue starts no goroutine")
			return
		}
		for _, g := range gos {
			o.Site(g)
			if an.Reach(enq, nil, an.NewBlocker(adds...))[g] {
				o.FailAt(g, "a work-unit goroutine is started without wg.Add before it: Run's Wait can return while units are still running, and Execute would serialise a partially filled output tree")
			}
			// Add in the same iteration: between the Add and the go no path back to the loop header
			cl := an.ClosureArg(g.(*ssa.Go).Call.Value)
			if cl == nil {
				o.FailAt(g, "goroutine body is not a function literal")
				continue
			}
			okDone := false
			an.Instrs(cl, func(i ssa.Instruction) {
				if d, ok := i.(*ssa.Defer); ok && (an.CalleeSpec{Pkg: "sync", Recv: "WaitGroup", Name: "Done"}).Matches(&d.Call) {
					okDone = true
					if an.Reach(cl, nil, an.NewBlocker(i))[firstCallOf(cl)] && firstCallOf(cl) != i {
						o.FailAt(i, "wg.Done is deferred after work has already started")
					}
				}
			})
			for _, dn := range an.Calls(cl, an.CalleeSpec{Pkg: "sync", Recv: "WaitGroup", Name: "Done"}) {
				if why := an.ExactlyOnce(cl, []ssa.Instruction{dn}); why == "" {
					okDone = true
				}
			}
			if !okDone {
				o.FailAt(g, "the goroutine does not call wg.Done on every exit")
			}
			// children must be enqueued (Add'ed) synchronously inside the goroutine, before its Done
			for _, rc := range an.CallsAny(cl, an.Mod(gq, "immediateGoroutineSchedulerRunner", "runEnqueue")) {
				if _, isCall := rc.(*ssa.Call); !isCall {
					o.FailAt(rc, "child work units are enqueued asynchronously: the parent's Done can precede the children's Add and Wait can return early")
				}
			}
			// wg.Add inside the goroutine is too late
			for _, a2 := range an.Calls(cl, an.CalleeSpec{Pkg: "sync", Recv: "WaitGroup", Name: "Add"}) {
				o.FailAt(a2, "wg.Add is called inside the goroutine (racing with Wait)")
			}
		}
		waits := an.Calls(run, an.CalleeSpec{Pkg: "sync", Recv: "WaitGroup", Name: "Wait"})
		enqs := an.CallsToFunc(run, enq)
		if len(waits) == 0 || len(enqs) == 0 {
			o.Fail(p.Pos(run.Pos()), "Run must enqueue the starting units and then wait")
			return
		}
		o.Site(waits[0])
		if an.Reach(run, nil, an.NewBlocker(enqs...))[waits[0]] {
			o.FailAt(waits[0], "Run waits before enqueueing")
		}
		if e := an.ReachableAvoiding(run, nil, an.NewBlocker(waits...), an.Exits(run, false)); e != nil {
			o.FailAt(e, "Run can return without waiting for the work units")
		}
	})

	c.Check("R-PAIR", "resolveUnionBatch: one resolveObjectBatch call per member type with all applicable fragments (single writer per destination); non-nil members always filled", 2, func(o *an.O) {
		ruleUnionMemberSelection(c, o)
	})

	c.Check("R-EXH", "resolveBatch dispatches on every graphql.Type kind and panics on anything else", 1, func(o *an.O) {
		fd, pp := p.FuncDecl(gq, "resolveBatch")
		an.Need(fd != nil, "resolveBatch")
		sws := an.Switches(fd, pp)
		an.Need(len(sws) == 1, "type switch in resolveBatch")
		o.SitePos(p.Pos(sws[0].Node.Pos()))
		want := []string{"*graphql.Enum", "*graphql.List", "*graphql.NonNull", "*graphql.Object", "*graphql.Scalar", "*graphql.Union"}
		missing, extra := an.SetDiff(want, sws[0].AllCaseTypes())
		if len(missing) > 0 {
			o.Fail(p.Pos(sws[0].Node.Pos()), "resolveBatch has no case for %v", missing)
		}
		_ = extra
		if d := sws[0].HasDefault(); d == nil || !an.EndsInPanicOrError(d.Body) {
			o.Fail(p.Pos(sws[0].Node.Pos()), "resolveBatch silently ignores unknown type kinds")
		}
		// each case calls the resolver of its own kind
		for _, cl := range sws[0].Clauses {
			if cl.Default {
				continue
			}
			kind := strings.TrimPrefix(cl.Types[0], "*graphql.")
			calls := strings.Join(an.CallsInStmts(cl.Body, pp), ",")
			wantCall := "resolve" + kind + "Batch"
			if kind == "NonNull" {
				wantCall = "resolveBatch"
			}
			if !strings.Contains(calls, wantCall) {
				o.Fail(p.Pos(cl.Node.Pos()), "case %s calls %s, expected %s", cl.Types[0], calls, wantCall)
			}
		}
	})

	c.Check("R-KEY", "memoisation key of expensive fields names field, source and selection", 1, func(o *an.O) { ruleWorkCacheKey(c, o) })
}

func singleElem(v ssa.Value) ssa.Value {
	sl, ok := v.(*ssa.Slice)
	if !ok {
		return nil
	}
	al, ok := sl.X.(*ssa.Alloc)
	if !ok {
		return nil
	}
	for _, r := range *al.Referrers() {
		if ia, ok := r.(*ssa.IndexAddr); ok {
			for _, u := range *ia.Referrers() {
				if st, ok := u.(*ssa.Store); ok {
					return st.Val
				}
			}
		}
	}
	return nil
}

func firstCallOf(fn *ssa.Function) ssa.Instruction {
	var first ssa.Instruction
	an.Instrs(fn, func(i ssa.Instruction) {
		if first != nil {
			return
		}
		if _, ok := i.(*ssa.Call); ok {
			first = i
		}
	})
	return first
}

// ruleUnionMemberSelection (shared by C01 and C19): a union member is resolved
// once, against a selection set assembled from ALL fragments that apply to its
// type plus the union-level selections - directive handling is left to
// resolveObjectBatch, so an excluded fragment removes exactly its own fields.
func ruleUnionMemberSelection(c *an.Ctx, o *an.O) {
	p := c.P
	fn := c.NeedFunc(gq, "resolveUnionBatch")

	calls := an.Calls(fn, an.Mod(gq, "", "resolveObjectBatch"))
	if len(calls) != 1 {
		o.Fail(p.Pos(fn.Pos()), "expected one resolveObjectBatch call site, found %d", len(calls))
		return
	}
	call := calls[0]
	o.Site(call)
	// the call must not sit in a loop over selectionSet.Fragments
	for _, e := range rangeElems(fn, "Fragments") {
		h := an.LoopHeaderOf(e)
		for _, eh := range an.EnclosingLoops(call) {
			if h != nil && eh == h {
				o.FailAt(call, "resolveObjectBatch is called once per matching fragment with the same destinations: a second `... on T` overwrites the fields the first one filled, and a member without a matching fragment is rendered as null")
			}
		}
	}
	// fragments are filtered by fragment.On == member type and collected into the selection set handed over
	sel := an.CallOf(call).Args[3]
	al, ok := sel.(*ssa.Alloc)
	if !ok {
		o.FailAt(call, "resolveObjectBatch is given %s, not a selection set assembled from all applicable fragments", an.Expr(sel))
		return
	}
	okFrag, okSel := false, false
	for _, r := range *al.Referrers() {
		fa, ok := r.(*ssa.FieldAddr)
		if !ok {
			continue
		}
		for _, u := range *fa.Referrers() {
			st, ok := u.(*ssa.Store)
			if !ok {
				continue
			}
			switch an.FieldName(fa.X.Type(), fa.Field) {
			case "Fragments":
				o.Site(st)
				// the list is built by appends (directly into the field, or into a local first), each
				// behind the test fragment.On == member type
				chain := appendChain(st.Val)
				if ld, ok := st.Val.(*ssa.UnOp); ok && len(chain) == 0 {
					chain = appendChain(an.ThroughCell(ld))
				}
				all := len(chain) > 0
				for _, ap := range chain {
					guarded := false
					for _, g := range an.GuardsOf(ap.Block()) {
						bo, ok := g.Cond.(*ssa.BinOp)
						if !ok || (bo.Op != token.EQL && bo.Op != token.NEQ) {
							continue
						}
						if (an.IsFieldAccess(bo.X, "Fragment", "On") || an.IsFieldAccess(bo.Y, "Fragment", "On")) && (bo.Op == token.EQL) == g.Polarity {
							guarded = true
						}
					}
					if !guarded {
						all = false
					}
				}
				if all {
					okFrag = true
				}
			case "Selections":
				okSel = an.IsFieldAccess(st.Val, "SelectionSet", "Selections")
			}
		}
	}
	if !okFrag {
		o.FailAt(call, "the fragments handed to resolveObjectBatch are not selected by fragment.On == member type")
	}
	if !okSel {
		o.FailAt(call, "union-level selections (__typename) are not passed on to the member object")
	}
}

// ruleWorkCacheKey (shared by C01 and C14): the key under which the resolved
// sub-tree of an expensive field is memoised names the field, the source object
// and the selection (whose sub-selections shape the cached value).
func ruleWorkCacheKey(c *an.Ctx, o *an.O) {
	p := c.P
	_ = p
	fn := c.NeedFunc(gq, "getWorkCacheKey")
	lits := an.StructLits(fn, "resolveAndExecuteCacheKey")
	an.Need(len(lits) >= 1, "resolveAndExecuteCacheKey literal")
	l := lits[0]
	o.Site(l.Alloc)
	want := map[string]int{"field": 1, "source": 0, "selection": 2}
	for f, pi := range want {
		nParam := 0
		for _, r := range *l.Alloc.Referrers() {
			fa, ok := r.(*ssa.FieldAddr)
			if !ok || an.FieldName(fa.X.Type(), fa.Field) != f {
				continue
			}
			for _, u := range *fa.Referrers() {
				st, ok := u.(*ssa.Store)
				if !ok {
					continue
				}
				v := an.StripConv(st.Val)
				if v == ssa.Value(fn.Params[pi]) {
					nParam++
					continue
				}
				if _, fresh := v.(*ssa.Alloc); fresh && f == "source" {
					continue // an always-different key for non-comparable sources only loses caching
				}
				o.FailAt(st, "the cache key's %s is set to %s, not getWorkCacheKey's %s argument: one selection's cached sub-result would be served for another", f, an.Expr(v), fn.Params[pi].Name())
			}
		}
		if nParam == 0 {
			o.FailAt(l.Alloc, "the cache key never carries getWorkCacheKey's %s argument", fn.Params[pi].Name())
		}
	}
	// the key struct has no further fields that are left unset
	if n := an.NamedOf(l.Alloc.Type()); n != nil {
		if st, ok := n.Underlying().(*types.Struct); ok && st.NumFields() != 3 {
			o.FailAt(l.Alloc, "resolveAndExecuteCacheKey has %d fields; the rule knows 3 - extend the table", st.NumFields())
		}
	}
}
