package props

import (
	"go/constant"
	"go/token"
	"go/types"
	"strings"

	"golang.org/x/tools/go/ssa"

	"thunderlint/internal/an"
)

func init() {
	register("C06", "Decides structural conditions of gateway transparency in package federation: mergeSameAlias merges the sub-selections and fragments of same-alias selections without any name/alias-keyed de-duplication (identity only) and copies a group's selection set before its first append, resetting the copied-flag whenever a new alias group starts; runOnService sends one key object per parent in the parents' order and returns the service's answer list unchanged; planObject keeps a selection local exactly when the selected service is the current one and otherwise routes it to that service's sub-plan, selectService only returns a service that serves the field, and the _federation key selection is added whenever another service is involved; extractKeys collects results and keys in lock step, execute stitches result i into target i (induction index, behind the length-equality test) and never overwrites an existing key; one planner snapshot per request (getPlanner only in Execute); Syncer.planner and Executor.Executors are accessed only under plannerMu; only keys federated for the target service are sent to it; a null on the way to a hop is tolerated uniformly (leaf step like inner steps). Directive handling is C19, fragment-walk complexity C15. extractKeys' step table (field step / type step / list / unknown kind, descent with the rest of the path, error propagation) is evaluated under every assignment of its predicates;; planUnion selects __typename unconditionally (its sub-plans' type steps are resolved from it by extractKeys). Not decided: equality with a monolith for all partitions and data, behaviour of remote services, the arbitrary choice among equal candidate services.", c06)
}

const fed = "federation"

func fedPath() string { return an.ModulePath + "/" + fed }

func c06(c *an.Ctx) {
	p := c.P

	c.Check("R-GUARD", "mergeSameAlias: later same-alias selections contribute all their sub-selections and fragments (de-duplication by identity only)", 2, func(o *an.O) {
		fn := c.NeedFunc(fed, "mergeSameAlias")
		n := map[string]int{}
		an.Instrs(fn, func(i ssa.Instruction) {
			st, ok := i.(*ssa.Store)
			if !ok {
				return
			}
			fa, ok := st.Addr.(*ssa.FieldAddr)
			if !ok {
				return
			}
			f := an.FieldName(fa.X.Type(), fa.Field)
			nm := an.NamedOf(fa.X.Type())
			if nm == nil || nm.Obj().Name() != "SelectionSet" || (f != "Selections" && f != "Fragments") {
				return
			}
			// the appends that build the stored list (directly, or accumulated in a local first)
			calls := appendChain(st.Val)
			if len(calls) == 0 {
				return
			}
			n[f]++
			o.Site(i)
			for _, call := range calls {
				// guards inside the loop must be identity lookups only
				for _, g := range an.GuardsOf(call.Block()) {
					ex, ok := g.Cond.(*ssa.Extract)
					if !ok {
						continue
					}
					lk, ok := ex.Tuple.(*ssa.Lookup)
					if !ok {
						continue
					}
					mt, ok := lk.X.Type().Underlying().(*types.Map)
					if !ok {
						continue
					}
					if _, isPtr := mt.Key().Underlying().(*types.Pointer); !isPtr {
						o.FailAt(call, "sub-%s of a later same-alias selection are dropped when a map keyed by %s (%s) already has an entry: two different sub-selections with the same alias/name lose one of them (a{y} a{x{p} x{q}} loses q)", strings.ToLower(f), mt.Key().String(), an.Short(an.Expr(lk.Index), 40))
					}
				}
				// the appended element belongs to the selection being merged
				src := an.Expr(call.Call.Args[1])
				if !strings.Contains(src, "varargs") && !strings.Contains(src, ".SelectionSet."+f) {
					o.FailAt(call, "merged %s receive %s", f, src)
				}
			}
		})
		for _, f := range []string{"Selections", "Fragments"} {
			if n[f] == 0 {
				o.Fail(p.Pos(fn.Pos()), "mergeSameAlias no longer merges the %s of later same-alias selections", f)
			}
		}
	})

	c.Check("R-PAIR", "planUnion / extractKeys agreement: every plan for a union selects __typename unconditionally, because type steps of sub-plans are resolved from it", 2, func(o *an.O) {
		rulePlanUnionTypename(c, o)
	})

	c.Check("R-TS", "mergeSameAlias copy-on-write: a group's selection set is shallow-copied before its first append, and the copied flag is reset whenever a new group starts", 3, func(o *an.O) {
		fn := c.NeedFunc(fed, "mergeSameAlias")
		copies := an.CallsAny(fn, an.CalleeSpec{Pkg: an.ModulePath + "/" + gq, Recv: "SelectionSet", Name: "ShallowCopy"})
		if len(copies) == 0 {
			o.Fail(p.Pos(fn.Pos()), "mergeSameAlias appends to the first selection's own SelectionSet without copying it: the query (shared with other spreads of the fragment) is modified")
			return
		}
		cp := copies[0]
		o.Site(cp)
		h := an.LoopHeaderOf(cp)
		an.Need(h != nil, "loop over the selections in mergeSameAlias")
		// the store last.SelectionSet = copy
		var cpStore *ssa.Store
		var lastVal ssa.Value
		for _, r := range *cp.(ssa.Value).Referrers() {
			if st, ok := r.(*ssa.Store); ok {
				if fa, ok := st.Addr.(*ssa.FieldAddr); ok && an.FieldName(fa.X.Type(), fa.Field) == "SelectionSet" {
					cpStore, lastVal = st, fa.X
				}
			}
		}
		if cpStore == nil {
			o.FailAt(cp, "the shallow copy is not stored into the merged selection")
			return
		}
		// the flag guarding the copy
		var flagIf *ssa.If
		var flag ssa.Value
		for _, g := range an.GuardsOf(cp.Block()) {
			v := g.Cond
			if t, ok := v.Type().Underlying().(*types.Basic); !ok || t.Kind() != types.Bool {
				continue
			}
			switch x := v.(type) {
			case *ssa.Phi:
				if x.Block() == h && !g.Polarity {
					flag, flagIf = x, g.If
				}
			case *ssa.UnOp:
				if _, isAlloc := x.X.(*ssa.Alloc); isAlloc && x.Op == token.MUL && !g.Polarity {
					flag, flagIf = x.X, g.If
				}
			}
		}
		if flag == nil {
			o.FailAt(cp, "cannot find the copied-flag that makes the shallow copy happen once per group (guards %v)", an.GuardStrings(cp.Block()))
			return
		}
		o.Site(flagIf)
		isFalse := func(v ssa.Value) bool {
			cst, ok := v.(*ssa.Const)
			return ok && cst.Value != nil && cst.Value.ExactString() == "false"
		}
		// where a new group starts: `last` changes
		type change struct {
			at   ssa.Instruction // from here to the header the flag must have become false
			edge int             // header predecessor index when known (-1 otherwise)
		}
		var changes []change
		switch lv := lastVal.(type) {
		case *ssa.Phi:
			if lv.Block() != h {
				o.FailAt(cpStore, "the merged selection is not the loop-carried `last`")
				return
			}
			for k, e := range lv.Edges {
				if e == ssa.Value(lv) || !h.Dominates(h.Preds[k]) {
					continue
				}
				if in, ok := e.(ssa.Instruction); ok {
					changes = append(changes, change{in, k})
				} else {
					changes = append(changes, change{h.Preds[k].Instrs[0], k})
				}
			}
		case *ssa.UnOp:
			al, ok := lv.X.(*ssa.Alloc)
			if !ok {
				o.FailAt(cpStore, "cannot identify the merged selection variable")
				return
			}
			for _, r := range *al.Referrers() {
				if st, ok := r.(*ssa.Store); ok && st.Addr == ssa.Value(al) && an.LoopHeaderOf(st) != nil {
					changes = append(changes, change{st, -1})
				}
			}
		default:
			o.FailAt(cpStore, "cannot identify the merged selection variable")
			return
		}
		if len(changes) == 0 {
			o.FailAt(cpStore, "no point where a new alias group starts was found")
			return
		}
		for _, ch := range changes {
			o.Site(ch.at)
			switch f := flag.(type) {
			case *ssa.Phi:
				if ch.edge >= 0 {
					if !isFalse(f.Edges[ch.edge]) {
						o.FailAt(ch.at, "a new alias group starts but the copied-flag is not reset: the next group's first selection keeps its original SelectionSet and the merge appends to it, so the parsed query (shared between spreads of a fragment) is modified")
					}
					continue
				}
				for k, e := range f.Edges {
					if !isFalse(e) && h.Dominates(h.Preds[k]) && an.Reach(fn, ch.at, an.NewBlocker(h.Instrs[0]))[h.Preds[k].Instrs[len(h.Preds[k].Instrs)-1]] {
						o.FailAt(ch.at, "a new alias group starts but the copied-flag is not reset on the way to the next selection")
					}
				}
			case *ssa.Alloc:
				blk := an.NewBlocker()
				for _, r := range *f.Referrers() {
					if st, ok := r.(*ssa.Store); ok && st.Addr == ssa.Value(f) && isFalse(st.Val) {
						blk.Instr[st] = true
					}
				}
				if an.Reach(fn, ch.at, blk)[h.Instrs[0]] {
					o.FailAt(ch.at, "a new alias group starts but the copied-flag is not reset: the next group's first selection keeps its original SelectionSet and the merge appends to it, so the parsed query (shared between spreads of a fragment) is modified")
				}
			}
		}
		// appends reach the merged set only through the copy or with the flag already set
		blk := an.NewBlocker(cpStore)
		blk.AddEdge(flagIf.Block(), flagIf.Block().Succs[0])
		reach := an.Reach(fn, h.Instrs[0], blk)
		an.Instrs(fn, func(i ssa.Instruction) {
			st, ok := i.(*ssa.Store)
			if !ok {
				return
			}
			fa, ok := st.Addr.(*ssa.FieldAddr)
			if !ok {
				return
			}
			f := an.FieldName(fa.X.Type(), fa.Field)
			nm := an.NamedOf(fa.X.Type())
			if nm == nil || nm.Obj().Name() != "SelectionSet" || (f != "Selections" && f != "Fragments") {
				return
			}
			if reach[i] {
				o.FailAt(i, "the merged %s can be appended to without the selection set having been copied for this group", f)
			}
		})
	})

	c.Check("R-PAIR", "runOnService sends one key object per parent, in the parents' order, and hands the service's answer list back unchanged (entry i belongs to parent i, no object is shared between parents)", 3, func(o *an.O) {
		fn := c.NeedFunc(fed, "(*Executor).runOnService")
		var keysParam *ssa.Parameter
		for _, pa := range fn.Params {
			if pa.Type().String() == "[]interface{}" {
				keysParam = pa
			}
		}
		an.Need(keysParam != nil, "the keys parameter of runOnService")
		var sent *ssa.MapUpdate
		an.Instrs(fn, func(i ssa.Instruction) {
			if mu, ok := i.(*ssa.MapUpdate); ok {
				if k, ok := an.ConstString(an.StripConv(mu.Key)); ok && k == "keys" {
					sent = mu
				}
			}
		})
		if sent == nil {
			o.Fail(p.Pos(fn.Pos()), "runOnService no longer passes the parents' keys to the federated field")
			return
		}
		o.Site(sent)
		// (a nil alternative comes from the error return of an inlined helper)
		var ms *ssa.MakeSlice
		ok := true
		for _, leaf := range phiLeaves(an.StripConv(sent.Value)) {
			if cst, isC := leaf.(*ssa.Const); isC && cst.IsNil() {
				continue
			}
			m, isMake := leaf.(*ssa.MakeSlice)
			if !isMake || (ms != nil && ms != m) {
				ok = false
			}
			ms = m
		}
		if ms == nil {
			ok = false
		}
		if !ok || an.Expr(ms.Len) != "len("+keysParam.Name()+")" {
			o.FailAt(sent, "the key list sent to the service is %s, not a list with one entry per parent key: the service's answers can no longer be matched to the parents by position", an.Short(an.Expr(sent.Value), 60))
		} else {
			nStore := 0
			for _, r := range *ms.Referrers() {
				switch x := r.(type) {
				case *ssa.IndexAddr:
					for _, r2 := range *x.Referrers() {
						st, ok := r2.(*ssa.Store)
						if !ok || st.Addr != ssa.Value(x) {
							continue
						}
						o.Site(st)
						h := an.LoopHeaderOf(st)
						if !an.IsRangeIndex(x.Index) || an.LoopSliceOf(x.Index) != ssa.Value(keysParam) || h == nil || !everyIteration(fn, h.Succs[0], st.Block(), h) {
							o.FailAt(st, "the key object of a parent is stored at %s, not at the parent's own position on every iteration over the keys", an.Expr(x.Index))
						} else {
							nStore++
						}
					}
				case *ssa.Call:
					if b, ok := x.Call.Value.(*ssa.Builtin); ok && b.Name() == "append" {
						o.FailAt(x, "the key list is grown or filtered after being sized to the parents")
					}
				}
			}
			if nStore == 0 {
				o.FailAt(ms, "no store of a parent's key object at the parent's position")
			}
		}
		for _, e := range an.Exits(fn, false) {
			ret, ok := e.(*ssa.Return)
			if !ok || len(ret.Results) != 3 || !isConstNil(an.ResultAt(ret, 2)) {
				continue
			}
			o.Site(e)
			v := an.StripConv(an.ResultAt(ret, 0))
			okv := false
			switch x := v.(type) {
			case *ssa.Const:
				okv = x.IsNil()
			case *ssa.Extract:
				_, okv = x.Tuple.(*ssa.TypeAssert)
			case *ssa.TypeAssert:
				okv = true
			case *ssa.Slice:
				_, okv = x.X.(*ssa.Alloc) // []interface{}{res} / []interface{}{}
			}
			if !okv {
				o.FailAt(e, "runOnService returns %s instead of the service's answer list: entries are re-arranged or shared between parents, and results stitched into one parent show up in (or collide with) another", an.Short(an.Expr(v), 60))
			}
		}
	})

	c.Check("R-WHO", "gateway-wide state (fields and maps of Executor / Syncer) is written only by NewExecutor and setPlanner: nothing a request derives from its own planner snapshot is published to later requests", 2, func(o *an.O) {
		allowed := map[string]bool{"NewExecutor": true, "(*Executor).setPlanner": true}
		isShared := func(v ssa.Value) bool {
			n := an.NamedOf(v.Type())
			return n != nil && n.Obj().Pkg() != nil && n.Obj().Pkg().Path() == an.ModulePath+"/"+fed && (n.Obj().Name() == "Syncer" || n.Obj().Name() == "Executor")
		}
		fieldOfShared := func(v ssa.Value) bool { // v = load of (or address of) a field of a Syncer / Executor
			if ld, ok := v.(*ssa.UnOp); ok && ld.Op == token.MUL {
				v = ld.X
			}
			fa, ok := v.(*ssa.FieldAddr)
			return ok && isShared(fa.X)
		}
		n := 0
		for _, fn := range p.ModuleFuncs(func(rel string) bool { return rel == fed }) {
			ok := p.AllowedFunc(fn, func(f *ssa.Function) bool { return an.RelPkg(f) == fed && allowed[an.QualName(f)] })
			an.Instrs(fn, func(i ssa.Instruction) {
				what := ""
				switch x := i.(type) {
				case *ssa.Store:
					if fa, isFA := x.Addr.(*ssa.FieldAddr); isFA && isShared(fa.X) {
						// a literal being built is not shared yet
						if _, fresh := fa.X.(*ssa.Alloc); fresh {
							return
						}
						what = "stores to " + an.Expr(x.Addr)
					}
				case *ssa.MapUpdate:
					if fieldOfShared(x.Map) {
						what = "updates the map " + an.Expr(x.Map)
					}
				case *ssa.Call:
					if b, isB := x.Call.Value.(*ssa.Builtin); isB && b.Name() == "delete" && fieldOfShared(x.Call.Args[0]) {
						what = "deletes from the map " + an.Expr(x.Call.Args[0])
					}
				}
				if what == "" {
					return
				}
				n++
				o.Site(i)
				if !ok {
					o.FailAt(i, "%s %s outside NewExecutor / setPlanner: state derived from one request's planner snapshot becomes visible to requests planned on another (after a schema refresh they would be executed with stale type or key information)", an.QualName(fn), what)
				}
			})
		}
		if n < 2 {
			o.Undecided("found %d writes to Executor / Syncer state (expected the planner store and the introspection client update in setPlanner)", n)
		}
	})

	c.Check("R-GUARD", "planObject: local iff selected service == current service; other selections go to that service's sub-plan; _federation key added when another service is involved", 4, func(o *an.O) {
		fn := c.NeedFunc(fed, "(*Planner).planObject")
		var sel ssa.Value
		for _, call := range an.Calls(fn, an.Mod(fed, "Planner", "selectService")) {
			sel = extractOf(call.(ssa.Value), 0)
			o.Site(call)
		}
		an.Need(sel != nil, "selectService call in planObject")
		nLocal, nRemote := 0, 0
		an.Instrs(fn, func(i ssa.Instruction) {
			call, ok := i.(*ssa.Call)
			if !ok {
				return
			}
			b, ok := call.Call.Value.(*ssa.Builtin)
			if !ok || b.Name() != "append" || !isSingleElementSlice(call.Call.Args[1]) {
				return
			}
			// only appends of the selection being planned (the element of the loop over the object's selections)
			if !strings.HasSuffix(call.Type().String(), "graphql.Selection") {
				return
			}
			gs := an.GuardStrings(i.Block())
			svc := ssa.Value(fn.Params[3])
			isEq, isNe := false, false
			for _, g := range an.GuardsOf(i.Block()) {
				bo, ok := g.Cond.(*ssa.BinOp)
				if !ok || (bo.Op != token.EQL && bo.Op != token.NEQ) {
					continue
				}
				if (bo.X == sel && bo.Y == svc) || (bo.X == svc && bo.Y == sel) {
					if (bo.Op == token.EQL) == g.Polarity {
						isEq = true
					} else {
						isNe = true
					}
				}
			}
			switch {
			case isLookupOfSelectionMap(call.Call.Args[0]):
				o.Site(i)
				nRemote++
				if !isNe {
					o.FailAt(i, "a selection is routed to another service although the current one was selected (guards %v)", gs)
				}
				if lk, ok := call.Call.Args[0].(*ssa.Lookup); ok && lk.Index != sel {
					o.FailAt(i, "the selection is routed to %s, not to the service selectService chose", an.Expr(lk.Index))
				}
			case an.LoopHeaderOf(i) != nil && an.LoopHeaderOf(i) == an.LoopHeaderOf(sel.(ssa.Instruction)) || loopEncloses(sel, i):
				// the list of selections kept for the current service (identified by role: a plain
				// slice grown inside the loop that selects a service for each selection)
				o.Site(i)
				nLocal++
				if !isEq && !strings.Contains(strings.Join(gs, " "), `== "__typename")`) {
					o.FailAt(i, "a selection is kept in the local plan without the selected service being the current one (guards %v): a field this service does not serve would be sent to it", gs)
				}
			}
		})
		if nLocal == 0 || nRemote == 0 {
			o.Fail(p.Pos(fn.Pos()), "planObject must split selections into local and per-service groups (found %d/%d)", nLocal, nRemote)
		}
		// the _federation key selection is appended whenever a sub-plan for another service was created
		var subPlanAppends []ssa.Instruction
		an.Instrs(fn, func(i ssa.Instruction) {
			st, ok := i.(*ssa.Store)
			if !ok {
				return
			}
			if fa, ok := st.Addr.(*ssa.FieldAddr); ok && an.FieldName(fa.X.Type(), fa.Field) == "After" {
				if call, ok := st.Val.(*ssa.Call); ok {
					if b, ok := call.Call.Value.(*ssa.Builtin); ok && b.Name() == "append" && an.LoopHeaderOf(i) != nil {
						subPlanAppends = append(subPlanAppends, i)
					}
				}
			}
		})
		if len(subPlanAppends) == 0 {
			o.Fail(p.Pos(fn.Pos()), "planObject never appends a sub-plan for another service")
			return
		}
		found := false
		for _, l := range an.StructLits(fn, "Selection") {
			s := an.Expr(l.Fields["Name"])
			if !(s == "\"_federation\"" || strings.Contains(s, "federationField")) {
				continue
			}
			found = true
			o.Site(l.Alloc)
			reach := false
			for _, a := range subPlanAppends {
				if an.Reach(fn, a, an.NewBlocker())[l.Alloc] {
					reach = true
				}
			}
			if !reach {
				o.FailAt(l.Alloc, "the _federation key selection cannot be added on a path on which a sub-plan for another service was created")
			}
			// a boolean flag that gates the key must become true where sub-plans are created
			for _, g := range an.GuardsOf(l.Alloc.Block()) {
				ph, ok := g.Cond.(*ssa.Phi)
				if !ok || !g.Polarity {
					continue
				}
				if bt, ok := ph.Type().Underlying().(*types.Basic); !ok || bt.Kind() != types.Bool {
					continue
				}
				okSet := false
				for k, e := range ph.Edges {
					if cst, ok := e.(*ssa.Const); ok && cst.Value != nil && cst.Value.ExactString() == "true" {
						for _, a := range subPlanAppends {
							pb := ph.Block().Preds[k]
							if an.LoopHeaderOf(a) != nil && (an.LoopHeaderOf(pb.Instrs[0]) == an.LoopHeaderOf(a) || pb == an.LoopHeaderOf(a)) {
								okSet = true
							}
						}
					}
				}
				if !okSet {
					o.FailAt(l.Alloc, "the flag that gates the _federation key selection is not set where sub-plans for other services are created")
				}
			}
		}
		if !found {
			o.Fail(p.Pos(fn.Pos()), "planObject never adds the _federation key selection: objects reached through a hop could not be matched back to their parent")
		}
	})

	c.Check("R-GUARD", "selectService returns only the introspection client, the current service if it serves the field, a service that serves it, or a registered custom service", 4, func(o *an.O) {
		fn := c.NeedFunc(fed, "(*Planner).selectService")
		cur := fn.Params[2].Name()
		for _, e := range an.Exits(fn, false) {
			ret := e.(*ssa.Return)
			if !isConstNil(ret.Results[1]) {
				continue
			}
			o.Site(e)
			v := an.Expr(ret.Results[0])
			gs := strings.Join(an.GuardStrings(e.Block()), " ; ")
			switch {
			case v == "\""+pkgConstString(p, fed, "IntrospectionClientName")+"\"":
				if !strings.Contains(gs, "IntrospectionQueryTypeOrSelection(") {
					o.FailAt(e, "the introspection client is selected for a non-introspection field")
				}
			case v == cur:
				if !strings.Contains(gs, ".Services["+cur+"]") {
					o.FailAt(e, "the current service is chosen without checking that it serves the field (guards: %s)", an.Short(gs, 120))
				}
			case strings.Contains(v, "#1") || strings.HasPrefix(v, "?"):
				// range key of fieldInfo.Services under hasField
				okHas := false
				for _, g := range an.GuardsOf(e.Block()) {
					if ex, ok := g.Cond.(*ssa.Extract); ok && g.Polarity && ex.Index == 2 {
						okHas = true
					}
				}
				if !okHas {
					o.FailAt(e, "a service is chosen from fieldInfo.Services without its value being true")
				}
			case strings.Contains(v, "customService") || strings.Contains(v, "serviceSelector"):
				if !strings.Contains(gs, ".Services[") {
					o.FailAt(e, "the custom service is returned without checking that it is registered for the field (guards: %s)", an.Short(gs, 120))
				}
			default:
				o.FailAt(e, "selectService returns %s, which is none of the allowed choices", v)
			}
		}
	})

	c.Check("R-PAIR", "extractKeys collects results and keys in lock step; execute stitches result i into target i behind the length test and never overwrites", 4, func(o *an.O) {
		ek := c.NeedFunc(fed, "(*pathSubqueryMetadata).extractKeys")
		blocks := map[string]*ssa.BasicBlock{}
		an.Instrs(ek, func(i ssa.Instruction) {
			st, ok := i.(*ssa.Store)
			if !ok {
				return
			}
			fa, ok := st.Addr.(*ssa.FieldAddr)
			if !ok {
				return
			}
			f := an.FieldName(fa.X.Type(), fa.Field)
			if f != "results" && f != "keys" {
				return
			}
			o.Site(i)
			blocks[f] = i.Block()
			call, ok := st.Val.(*ssa.Call)
			if !ok || !isSingleElementSlice(call.Call.Args[1]) {
				o.FailAt(i, "pathTargets.%s is not grown by exactly one element per target", f)
			}
		})
		if blocks["results"] == nil || blocks["keys"] == nil || blocks["results"] != blocks["keys"] {
			o.Fail(p.Pos(ek.Pos()), "extractKeys must append the target object and its key in the same block, so that keys[i] belongs to results[i]")
		}
		ex := c.NeedFunc(fed, "(*Executor).execute")
		for _, f := range an.WithAnons(ex)[1:] {
			an.Instrs(f, func(i ssa.Instruction) {
				ia, ok := i.(*ssa.IndexAddr)
				if !ok || !strings.Contains(an.Expr(ia.X), "execute(") && !strings.Contains(an.Expr(ia.X), "executionResults") {
					return
				}
				o.Site(i)
				if !an.IsRangeIndex(ia.Index) {
					o.FailAt(i, "executionResults is indexed by %s, not by the position of the target", an.Expr(ia.Index))
					return
				}
				S := loopSliceOf(ia.Index)
				if S == nil || !strings.HasSuffix(an.Expr(S), ".results") {
					o.FailAt(i, "executionResults[i] is paired with %s, not with subPlanMetaData.results", an.Expr(S))
				}
				// dominated by the length equality test
				okLen := false
				for _, g := range an.GuardStrings(i.Block()) {
					if strings.HasPrefix(g, "(len(") && strings.Contains(g, " == len(") {
						okLen = true
					}
					if strings.HasPrefix(g, "!(len(") && strings.Contains(g, " != len(") {
						okLen = true
					}
				}
				if !okLen {
					o.FailAt(i, "results are stitched by position without first checking that the service returned one result per target")
				}
			})
			an.Instrs(f, func(i ssa.Instruction) {
				mu, ok := i.(*ssa.MapUpdate)
				if !ok || !strings.Contains(mu.Map.Type().String(), "map[string]interface") {
					return
				}
				o.Site(i)
				okAbs := false
				for _, g := range an.GuardsOf(i.Block()) {
					if e2, ok := g.Cond.(*ssa.Extract); ok && !g.Polarity && e2.Index == 1 {
						if lk, ok := e2.Tuple.(*ssa.Lookup); ok && lk.X == mu.Map && lk.Index == mu.Key {
							okAbs = true
						}
					}
				}
				if !okAbs {
					o.FailAt(i, "a field fetched from another service overwrites a field that is already in the parent object")
				}
			})
		}
	})

	c.Check("R-WHO", "one planner snapshot per request: getPlanner is called only by Executor.Execute and passed down", 2, func(o *an.O) {
		for _, fn := range p.ModuleFuncs(func(rel string) bool { return rel == fed }) {
			if strings.HasSuffix(p.Fset.Position(fn.Pos()).Filename, "_test.go") {
				continue
			}
			for _, call := range an.CallsAny(fn, an.Mod(fed, "Executor", "getPlanner")) {
				o.Site(call)
				top := fn
				for top.Parent() != nil {
					top = top.Parent()
				}
				if an.QualName(top) != "(*Executor).Execute" {
					o.FailAt(call, "%s fetches the planner itself: a schema refresh between two parts of one request would plan them against different schemas", an.QualName(fn))
				}
				if an.InCycle(fn, call) {
					o.FailAt(call, "getPlanner called in a loop")
				}
			}
		}
		ex := c.NeedFunc(fed, "(*Executor).Execute")
		calls := an.Calls(ex, an.Mod(fed, "Executor", "getPlanner"))
		if len(calls) != 1 {
			o.Fail(p.Pos(ex.Pos()), "Execute must take exactly one planner snapshot (found %d)", len(calls))
			return
		}
		for _, call := range an.Calls(ex, an.Mod(fed, "Executor", "execute")) {
			o.Site(call)
			args := an.CallOf(call).Args
			if args[len(args)-1] != calls[0].(ssa.Value) {
				o.FailAt(call, "execute is not given the planner snapshot taken at the start of the request")
			}
		}
		// runOnService / execute use their planner parameter, never e.syncer.planner directly
		for _, nm := range []string{"(*Executor).execute", "(*Executor).runOnService"} {
			f := c.NeedFunc(fed, nm)
			for _, g := range an.WithAnons(f) {
				for _, r := range an.FieldRefs(g, fedPath(), "Syncer", "planner") {
					o.FailAt(r.Instr, "%s reads syncer.planner directly", nm)
				}
			}
		}
	})

	c.Check("R-LOCK", "Syncer.planner and Executor.Executors are accessed only under plannerMu outside construction", 4, func(o *an.O) {
		ctor := map[string]bool{"NewExecutor": true}
		for _, fn := range p.ModuleFuncs(func(rel string) bool { return rel == fed }) {
			if strings.HasSuffix(p.Fset.Position(fn.Pos()).Filename, "_test.go") {
				continue
			}
			top := fn
			for top.Parent() != nil {
				top = top.Parent()
			}
			if ctor[an.QualName(top)] {
				continue
			}
			var ls *an.LockSets
			check := func(i ssa.Instruction, what string, write bool) {
				if ls == nil {
					ls = an.ComputeLocks(fn, nil)
				}
				o.Site(i)
				held := ls.HeldAt(i)
				w, r := false, false
				for h := range held {
					if strings.HasSuffix(h, ".plannerMu") {
						w = true
					}
					if strings.HasSuffix(h, ".plannerMu^R") {
						r = true
					}
				}
				if write && !w {
					o.FailAt(i, "%s writes %s without holding plannerMu (write lock)", an.QualName(fn), what)
				}
				if !write && !w && !r {
					o.FailAt(i, "%s reads %s without holding plannerMu: it races with the schema refresh that replaces it", an.QualName(fn), what)
				}
			}
			for _, r := range an.FieldRefs(fn, fedPath(), "Syncer", "planner") {
				check(r.Instr, "Syncer.planner", r.Kind == "store")
			}
			an.Instrs(fn, func(i ssa.Instruction) {
				switch x := i.(type) {
				case *ssa.Lookup:
					if an.IsFieldAccess(x.X, "Executor", "Executors") {
						check(i, "Executor.Executors", false)
					}
				case *ssa.MapUpdate:
					if an.IsFieldAccess(x.Map, "Executor", "Executors") {
						check(i, "Executor.Executors", true)
					}
				case *ssa.Range:
					if an.IsFieldAccess(x.X, "Executor", "Executors") {
						check(i, "Executor.Executors", false)
					}
				}
			})
		}
	})

	c.Check("R-GUARD", "runOnService sends a service only the keys federated for it", 1, func(o *an.O) {
		fn := c.NeedFunc(fed, "(*Executor).runOnService")
		service := fn.Params[3].Name()
		n := 0
		an.Instrs(fn, func(i ssa.Instruction) {
			mu, ok := i.(*ssa.MapUpdate)
			if !ok {
				return
			}
			if _, ok := mu.Map.(*ssa.MakeMap); !ok {
				return
			}
			if !strings.Contains(mu.Map.Type().String(), "map[string]interface") {
				return
			}
			if _, isConst := mu.Key.(*ssa.Const); isConst {
				return // a literal argument map, not the per-key object
			}
			n++
			o.Site(i)
			okFed := false
			for _, g := range an.GuardsOf(i.Block()) {
				if ex, ok := g.Cond.(*ssa.Extract); ok && g.Polarity && ex.Index == 1 {
					if lk, ok := ex.Tuple.(*ssa.Lookup); ok && strings.HasSuffix(an.Expr(lk.X), ".FederatedKey") && an.Expr(lk.Index) == service {
						okFed = true
					}
				}
			}
			if !okFed {
				o.FailAt(i, "a key field is sent to %s without being one of the fields federated for that service: the sub-query would use an argument the service does not expose", service)
			}
		})
		if n == 0 {
			o.Fail(p.Pos(fn.Pos()), "runOnService no longer builds the per-service key objects")
		}
	})

	c.Check("R-ORDER", "schema sync: the entry for the gateway's own introspection client is written after the fetched schemas (the executor map the syncer ranges over contains that client, so an earlier entry is overwritten by whatever the client answers - the previous merged schema)", 1, func(o *an.O) {
		fn := c.NeedFunc(fed, "(*IntrospectionSchemaSyncer).FetchPlannerAndSchema")
		fedPkg := p.Pkg(fed)
		an.Need(fedPkg != nil, "package federation")
		obj, ok := fedPkg.Pkg.Scope().Lookup("IntrospectionClientName").(*types.Const)
		an.Need(ok, "federation.IntrospectionClientName")
		clientName := constant.StringVal(obj.Val())
		var own, fetched []ssa.Instruction
		an.Instrs(fn, func(i ssa.Instruction) {
			mu, ok := i.(*ssa.MapUpdate)
			if !ok {
				return
			}
			mt, ok := mu.Map.Type().Underlying().(*types.Map)
			if !ok {
				return
			}
			if n := an.NamedOf(mt.Elem()); n == nil || n.Obj().Name() != "IntrospectionQueryResult" {
				return
			}
			if k, isConst := an.ConstString(mu.Key); isConst {
				if k == clientName {
					own = append(own, i)
				}
				return
			}
			fetched = append(fetched, i)
		})
		if len(own) == 0 || len(fetched) == 0 {
			o.Fail(p.Pos(fn.Pos()), "FetchPlannerAndSchema must collect the fetched schemas by service name and add the introspection client's own (found %d / %d writes)", len(fetched), len(own))
			return
		}
		for _, w := range own {
			o.Site(w)
			reach := an.Reach(fn, w, nil)
			for _, f := range fetched {
				if reach[f] {
					o.FailAt(w, "the introspection client's schema entry is written before the loop that stores the fetched schemas by service name: the executors include the gateway's own introspection client, so from the second sync on its answer (the previous merged schema) replaces this entry and every field is also attributed to the introspection client")
				}
			}
		}
	})

	c.Check("R-BOOL", "extractKeys step table: a field step descends into the value under its name, a type step descends into the same object exactly when __typename matches, both with the rest of the path; a missing key / __typename and an unknown step kind are errors; a failing descent fails the walk and a successful one does not", 2, func(o *an.O) {
		ruleExtractKeysTable(c, o)
	})

	c.Check("R-DOM", "extractKeys treats a null object uniformly: the leaf step tolerates nil like the inner steps", 2, func(o *an.O) {
		fn := c.NeedFunc(fed, "(*pathSubqueryMetadata).extractKeys")
		node := fn.Params[1].Name()
		for _, e := range an.Exits(fn, false) {
			ret := e.(*ssa.Return)
			if isConstNil(ret.Results[0]) {
				continue
			}
			gs := an.GuardStrings(e.Block())
			joined := strings.Join(gs, " ; ")
			// the leaf's "not an object" error: reached when len(path)==0 and the map assertion failed
			if strings.Contains(joined, "(len(") && strings.Contains(joined, ") == 0)") && strings.Contains(joined, "!"+node+".(map[string]interface{})#1") {
				o.Site(e)
				if !an.NonNilGuard(e.Block(), node) {
					o.FailAt(e, "at the last path step a null object fails the whole query with 'not an object', while inner steps skip non-objects: a parent whose child object is null cannot be fetched through the gateway although a single server returns null")
				}
			}
		}
		// inner steps: a non-object node returns nil
		okInner := false
		for _, e := range an.Exits(fn, false) {
			if isConstNil(e.(*ssa.Return).Results[0]) {
				gs := strings.Join(an.GuardStrings(e.Block()), " ; ")
				if strings.Contains(gs, "!"+node+".(map[string]interface{})#1") && !strings.Contains(gs, ") == 0)") || strings.Contains(gs, "!(len(") {
					okInner = true
					o.Site(e)
				}
			}
		}
		if !okInner {
			o.Fail(p.Pos(fn.Pos()), "inner path steps no longer skip non-object nodes")
		}
	})
}

func isLookupOfSelectionMap(v ssa.Value) bool {
	lk, ok := v.(*ssa.Lookup)
	if !ok {
		return false
	}
	mt, ok := lk.X.Type().Underlying().(*types.Map)
	return ok && strings.HasSuffix(mt.Elem().String(), "graphql.Selection")
}

func pkgConstString(p *an.Prog, rel, name string) string {
	sp := p.Pkg(rel)
	if sp == nil {
		return ""
	}
	return constStr(sp, name)
}

// loopEncloses: instruction i lies in the loop that computes v (or v dominates it within one).
func loopEncloses(v ssa.Value, i ssa.Instruction) bool {
	vi, ok := v.(ssa.Instruction)
	if !ok {
		return false
	}
	hv := an.LoopHeaderOf(vi)
	if hv == nil {
		return false
	}
	for _, h := range an.EnclosingLoops(i) {
		if h == hv {
			return true
		}
	}
	return false
}

// appendChain returns the append calls that build the slice v: v itself, the
// slices it extends, and the alternatives of phis in between.
func appendChain(v ssa.Value) []*ssa.Call {
	var out []*ssa.Call
	seen := map[ssa.Value]bool{}
	var walk func(v ssa.Value)
	walk = func(v ssa.Value) {
		if v == nil || seen[v] {
			return
		}
		seen[v] = true
		switch x := v.(type) {
		case *ssa.Phi:
			for _, e := range x.Edges {
				walk(e)
			}
		case *ssa.Call:
			if b, ok := x.Call.Value.(*ssa.Builtin); ok && b.Name() == "append" {
				out = append(out, x)
				walk(x.Call.Args[0])
			}
		}
	}
	walk(v)
	return out
}
