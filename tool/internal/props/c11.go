package props

import (
	"fmt"
	"go/ast"
	"go/token"
	"go/types"
	"strings"

	"golang.org/x/tools/go/ssa"

	"thunderlint/internal/an"
)

func init() {
	register("C11", "Decides the structural basis of Relay pagination in graphql/schemabuilder/pagination.go: getConnection runs filter -> sort -> nodesToEdges -> paginateManually -> setCursors in that order on one `nodes` value (sort sees the filtered list, edges and totalCount are built from the same final list); in applyCursorsToAllEdges a cursor index is only ever compared with lengths of, and used to slice, the very slice value it was searched in (no stale length), after being tested != -1, and slicing is exclusive on both sides (edges[i+1:], edges[:i]); paginateManually cuts Edges[:first] exactly under len(Edges) > first and Edges[len-last:] under len(Edges) > last, setting hasNextPage/hasPrevPage there, rejects negative and both-set arguments before slicing, and seeds the flags from (before != nil && elemsAfter) / (after != nil && elemsBefore) with the arguments in the callee's order; sorting uses only sort.SliceStable with strict < (ascending) / > (descending) comparators whose accessor matches the table key, and getSort covers exactly the kinds supportedSort accepts; the index bookkeeping of the text filter and of applySort uses the induction value of the matching loop; setCursors reads the first and last edge. applyTextFilter's decision table (which pass a filter field lands in, a pass with fields runs, an element survives iff a pass kept it, default tokens) is evaluated under every assignment of its predicates. Not decided: the partition property itself over all lists and cursors, cursor uniqueness (depends on the data), behaviour of user filter/sort resolvers.", c11)
}

const sbp = "graphql/schemabuilder"

func c11(c *an.Ctx) {
	p := c.P

	c.Check("R-DOM", "getConnection pipeline order: filter -> sort -> nodesToEdges -> paginateManually -> setCursors on one nodes value", 6, func(o *an.O) {
		fn := c.NeedFunc(sbp, "(*connectionContext).getConnection")
		steps := []an.CalleeSpec{
			an.Mod(sbp, "connectionContext", "applyTextFilter"),
			an.Mod(sbp, "connectionContext", "applySort"),
			an.Mod(sbp, "connectionContext", "nodesToEdges"),
			an.Mod(sbp, "Connection", "paginateManually"),
			an.Mod(sbp, "Connection", "setCursors"),
		}
		var calls [][]ssa.Instruction
		for _, s := range steps {
			cs := an.Calls(fn, s)
			if len(cs) != 1 {
				o.Fail(p.Pos(fn.Pos()), "expected exactly one call of %s in getConnection, found %d", s.Name, len(cs))
				return
			}
			o.Site(cs[0])
			calls = append(calls, cs)
		}
		for i := 0; i < len(calls); i++ {
			after := an.Reach(fn, calls[i][0], nil)
			for j := 0; j < i; j++ {
				if after[calls[j][0]] {
					o.FailAt(calls[j][0], "%s can run after %s: the page would be cut before the list is filtered/sorted", steps[j].Name, steps[i].Name)
				}
			}
		}
		// data chain: sort's nodes argument derives from the filter's result; nodesToEdges' argument from the sort's result
		derives := func(v ssa.Value, call ssa.Instruction) bool {
			seen := map[ssa.Value]bool{}
			var walk func(x ssa.Value) bool
			walk = func(x ssa.Value) bool {
				if seen[x] {
					return false
				}
				seen[x] = true
				switch y := x.(type) {
				case *ssa.Extract:
					return y.Tuple == call.(ssa.Value)
				case *ssa.Phi:
					for _, e := range y.Edges {
						if walk(e) {
							return true
						}
					}
				case *ssa.UnOp:
					if al, ok := y.X.(*ssa.Alloc); ok {
						for _, r := range *al.Referrers() {
							if st, ok := r.(*ssa.Store); ok && st.Addr == ssa.Value(al) && walk(st.Val) {
								return true
							}
						}
					}
				}
				return false
			}
			return walk(v)
		}
		if !derives(an.CallOf(calls[1][0]).Args[2], calls[0][0]) {
			o.FailAt(calls[1][0], "applySort is not given the filtered nodes")
		}
		edgesArg := an.CallOf(calls[2][0]).Args[1]
		if !derives(edgesArg, calls[1][0]) {
			o.FailAt(calls[2][0], "nodesToEdges is not given the sorted nodes")
		}
		// TotalCount = len(same nodes value)
		okTotal := false
		for _, l := range an.StructLits(fn, "Connection") {
			tc := l.Fields["TotalCount"]
			if tc == nil {
				continue
			}
			o.Site(l.Alloc)
			if cv, ok := tc.(*ssa.Convert); ok {
				if call, ok := cv.X.(*ssa.Call); ok {
					if b, ok := call.Call.Value.(*ssa.Builtin); ok && b.Name() == "len" && sameVal(call.Call.Args[0], edgesArg) {
						okTotal = true
					}
				}
			}
			if !okTotal {
				o.FailAt(l.Alloc, "TotalCount is %s, not the length of the filtered list the edges are built from", an.Short(an.Expr(tc), 60))
			}
			if ed := l.Fields["Edges"]; ed == nil || ed != calls[2][0].(ssa.Value) {
				o.FailAt(l.Alloc, "Connection.Edges is not the result of nodesToEdges")
			}
		}
		if !okTotal {
			o.Fail(p.Pos(fn.Pos()), "no Connection literal with TotalCount: len(nodes) found")
		}
		// setCursors after paginateManually succeeded, on every path to a successful return
		blk := an.NewBlocker(calls[4][0])
		for _, e := range an.ErrResult(calls[3][0].(ssa.Value)) {
			for _, nt := range an.NilTests(fn, e) {
				blk.AddEdge(nt.If.Block(), nt.NonNil)
			}
		}
		if e := an.ReachableAvoiding(fn, calls[3][0], blk, an.Exits(fn, false)); e != nil {
			o.FailAt(e, "getConnection can return a page without start/end cursors (setCursors skipped)")
		}
	})

	c.Check("R-PROV", "applyCursorsToAllEdges: a cursor index is compared with lengths of, and slices, only the slice it was searched in; tested != -1; exclusive cuts", 4, func(o *an.O) {
		fn := c.NeedFunc(sbp, "applyCursorsToAllEdges")
		before, after := fn.Params[1], fn.Params[2]
		calls := an.Calls(fn, an.Mod(sbp, "", "getCursorIndex"))
		if len(calls) != 2 {
			o.Fail(p.Pos(fn.Pos()), "expected two getCursorIndex calls, found %d", len(calls))
			return
		}
		for _, call := range calls {
			o.Site(call)
			cc := an.CallOf(call)
			S := cc.Args[0]
			idx := call.(ssa.Value)
			which := ""
			if ld, ok := cc.Args[1].(*ssa.UnOp); ok {
				switch ld.X {
				case ssa.Value(before):
					which = "before"
				case ssa.Value(after):
					which = "after"
				}
			}
			if which == "" {
				o.FailAt(call, "getCursorIndex is searched with %s, neither *before nor *after", an.Expr(cc.Args[1]))
				continue
			}
			// every use of idx
			var visit func(v ssa.Value, depth int)
			seen := map[ssa.Value]bool{}
			nslices := 0
			visit = func(v ssa.Value, depth int) {
				if seen[v] || depth > 3 {
					return
				}
				seen[v] = true
				for _, r := range *v.Referrers() {
					switch u := r.(type) {
					case *ssa.BinOp:
						switch u.Op {
						case token.ADD, token.SUB:
							if _, ok := an.ConstInt(u.Y); ok && u.X == v {
								visit(u, depth+1)
								continue
							}
							o.FailAt(u, "cursor index used in arithmetic %s", an.Expr(u))
						case token.EQL, token.NEQ, token.LSS, token.LEQ, token.GTR, token.GEQ:
							other := u.Y
							if other == v {
								other = u.X
							}
							if _, ok := an.ConstInt(other); ok {
								continue
							}
							// must be len(S) +- const
							base := other
							if bo, ok := base.(*ssa.BinOp); ok && (bo.Op == token.SUB || bo.Op == token.ADD) {
								if _, ok := an.ConstInt(bo.Y); ok {
									base = bo.X
								}
							}
							lc, ok := base.(*ssa.Call)
							okLen := false
							if ok {
								if b, ok := lc.Call.Value.(*ssa.Builtin); ok && b.Name() == "len" {
									okLen = true
									o.Site(u)
									if lc.Call.Args[0] != S {
										o.FailAt(u, "the index found in %s is compared with the length of %s - a different slice (stale length): hasNextPage/hasPrevPage is wrong when both cursors are given", an.Expr(S), an.Expr(lc.Call.Args[0]))
									}
								}
							}
							if !okLen {
								o.FailAt(u, "the index found in %s is compared with %s, which is not a length of that slice (stale length?)", an.Expr(S), an.Expr(other))
							}
						}
					case *ssa.Slice:
						nslices++
						o.Site(u)
						if u.X != S {
							o.FailAt(u, "the index found in %s is used to cut %s", an.Expr(S), an.Expr(u.X))
						}
						okG := false
						for _, g := range an.GuardsOf(u.Block()) {
							if bo, ok := g.Cond.(*ssa.BinOp); ok && bo.X == idx {
								if n, ok := an.ConstInt(bo.Y); ok && n == -1 && ((bo.Op == token.NEQ && g.Polarity) || (bo.Op == token.EQL && !g.Polarity)) {
									okG = true
								}
							}
						}
						if !okG {
							o.FailAt(u, "the list is cut at a cursor index that was not tested != -1 (unknown cursor)")
						}
						if which == "after" {
							// edges[i+1:]
							lo, okLo := u.Low.(*ssa.BinOp)
							if u.High != nil || !okLo || lo.Op != token.ADD || lo.X != idx || !isConstIntVal(lo.Y, 1) {
								o.FailAt(u, "`after` must cut edges[i+1:] (exclusive); found %s", an.Expr(u))
							}
						} else {
							if u.Low != nil || u.High != idx {
								o.FailAt(u, "`before` must cut edges[:i] (exclusive); found %s", an.Expr(u))
							}
						}
					}
				}
			}
			visit(idx, 0)
			if nslices != 1 {
				o.FailAt(call, "the %s cursor does not cut the list exactly once (found %d cuts)", which, nslices)
			}
		}
	})

	c.Check("R-BOOL", "applyCursorsToAllEdges decision table: the list is cut after the after-cursor / before the before-cursor exactly when that cursor is given and found; elemsBefore iff the after-cursor was found at a position other than the first, elemsAfter iff the before-cursor was found at a position other than the last", 2, func(o *an.O) {
		fn, paramOf, resultOf := cursorRoles(c)
		// the index searched for each cursor
		idxOf := map[string]ssa.Value{}
		for role, k := range paramOf {
			for _, call := range an.Calls(fn, an.Mod(sbp, "", "getCursorIndex")) {
				if ld, ok := an.CallOf(call).Args[1].(*ssa.UnOp); ok && ld.X == ssa.Value(fn.Params[k]) {
					idxOf[role] = call.(ssa.Value)
					o.Site(call)
				}
			}
		}
		an.Need(idxOf["after"] != nil && idxOf["before"] != nil, "getCursorIndex calls for both cursors")
		var lowCut, highCut ssa.Instruction
		an.Instrs(fn, func(i ssa.Instruction) {
			if sl, ok := i.(*ssa.Slice); ok {
				if sl.Low != nil && sl.High == nil {
					lowCut = i
				}
				if sl.High != nil && sl.Low == nil {
					highCut = i
				}
			}
		})
		an.Need(lowCut != nil && highCut != nil, "the two cuts of applyCursorsToAllEdges")
		nAtoms := 0
		for mask := 0; mask < 64; mask++ {
			aGiven, aFound, aFirst := mask&1 != 0, mask&2 != 0, mask&4 != 0
			bGiven, bFound, bLast := mask&8 != 0, mask&16 != 0, mask&32 != 0
			sim := &an.BoolSim{Fn: fn, Atom: func(v ssa.Value) (bool, bool) {
				bo, ok := v.(*ssa.BinOp)
				if !ok || (bo.Op != token.EQL && bo.Op != token.NEQ) {
					return false, false
				}
				eq := bo.Op == token.EQL
				for _, pr := range [][2]ssa.Value{{bo.X, bo.Y}, {bo.Y, bo.X}} {
					x, y := pr[0], pr[1]
					if isConstNil(y) {
						if x == ssa.Value(fn.Params[paramOf["after"]]) {
							nAtoms++
							return aGiven != eq, true
						}
						if x == ssa.Value(fn.Params[paramOf["before"]]) {
							nAtoms++
							return bGiven != eq, true
						}
					}
					for _, role := range []string{"after", "before"} {
						if x != idxOf[role] {
							continue
						}
						found, first, last := aFound, aFirst, false
						if role == "before" {
							found, first, last = bFound, false, bLast
						}
						if n, ok := an.ConstInt(y); ok {
							switch n {
							case -1:
								nAtoms++
								return (!found) == eq, true
							case 0:
								if role == "after" {
									nAtoms++
									return first == eq, true
								}
							}
						}
						if sub, ok := y.(*ssa.BinOp); ok && sub.Op == token.SUB && role == "before" {
							if one, ok := an.ConstInt(sub.Y); ok && one == 1 {
								nAtoms++
								return last == eq, true
							}
						}
					}
				}
				return false, false
			}}
			reached := sim.Run()
			wantLow := aGiven && aFound
			wantHigh := bGiven && bFound
			if reached[lowCut.Block()] != wantLow {
				o.FailAt(lowCut, "with the after cursor given=%v found=%v the list is cut after it: %v (expected %v)", aGiven, aFound, reached[lowCut.Block()], wantLow)
				return
			}
			if reached[highCut.Block()] != wantHigh {
				o.FailAt(highCut, "with the before cursor given=%v found=%v the list is cut before it: %v (expected %v)", bGiven, bFound, reached[highCut.Block()], wantHigh)
				return
			}
			wantBefore := aGiven && aFound && !aFirst
			wantAfter := bGiven && bFound && !bLast
			gotBefore := sim.ReturnedBools(resultOf["elemsBefore"])
			gotAfter := sim.ReturnedBools(resultOf["elemsAfter"])
			if len(gotBefore) != 1 || !gotBefore[fmt.Sprint(wantBefore)] {
				o.Fail(p.Pos(fn.Pos()), "elemsBefore is %v when the after cursor is given=%v found=%v at-first-position=%v (expected %v): hasPreviousPage would be wrong for that window", keysOf(gotBefore), aGiven, aFound, aFirst, wantBefore)
				return
			}
			if len(gotAfter) != 1 || !gotAfter[fmt.Sprint(wantAfter)] {
				o.Fail(p.Pos(fn.Pos()), "elemsAfter is %v when the before cursor is given=%v found=%v at-last-position=%v (expected %v): hasNextPage would be wrong for that window", keysOf(gotAfter), bGiven, bFound, bLast, wantAfter)
				return
			}
		}
		if nAtoms == 0 {
			o.Fail(p.Pos(fn.Pos()), "applyCursorsToAllEdges tests neither the cursors nor the indices")
		}
	})

	c.Check("R-BOOL", "getConnection decision table: nothing for an empty list; text filter unless externally managed without ApplyTextFilter; sort only when thunder manages the list; paginateManually unless externally managed without SetPageInfo; cursors set on every non-empty result. setCursors: start = first edge, end = last edge, untouched when empty", 6, func(o *an.O) {
		fn := c.NeedFunc(sbp, "(*connectionContext).getConnection")
		one := func(spec an.CalleeSpec, what string) ssa.Instruction {
			calls := an.Calls(fn, spec)
			an.Need(len(calls) == 1, "one "+what+" call in getConnection")
			o.Site(calls[0])
			return calls[0]
		}
		tf := one(an.Mod(sbp, "connectionContext", "applyTextFilter"), "applyTextFilter")
		so := one(an.Mod(sbp, "connectionContext", "applySort"), "applySort")
		pm := one(an.Mod(sbp, "Connection", "paginateManually"), "paginateManually")
		ep := one(an.Mod(sbp, "Connection", "externallySetPageInfo"), "externallySetPageInfo")
		sc := one(an.Mod(sbp, "Connection", "setCursors"), "setCursors")
		optLoad := func(v ssa.Value, name string) bool {
			ld, ok := v.(*ssa.UnOp)
			if !ok || ld.Op != token.MUL {
				return false
			}
			fa, ok := ld.X.(*ssa.FieldAddr)
			return ok && an.FieldName(fa.X.Type(), fa.Field) == name
		}
		for mask := 0; mask < 16; mask++ {
			empty, ext, applyTF, setPI := mask&1 != 0, mask&2 != 0, mask&4 != 0, mask&8 != 0
			sim := &an.BoolSim{Fn: fn, Atom: func(v ssa.Value) (bool, bool) {
				if call, ok := v.(*ssa.Call); ok {
					if f := an.CalleeFunc(call.Common()); f != nil && f.Name() == "IsExternallyManaged" {
						return ext, true
					}
				}
				if optLoad(v, "ApplyTextFilter") {
					return applyTF, true
				}
				if optLoad(v, "SetPageInfo") {
					return setPI, true
				}
				if bo, ok := v.(*ssa.BinOp); ok {
					if lc, ok := bo.X.(*ssa.Call); ok {
						if b, ok := lc.Call.Value.(*ssa.Builtin); ok && b.Name() == "len" {
							if n, ok := an.ConstInt(bo.Y); ok {
								l := int64(3)
								if empty {
									l = 0
								}
								switch bo.Op {
								case token.EQL:
									return l == n, true
								case token.NEQ:
									return l != n, true
								case token.GTR:
									return l > n, true
								case token.LSS:
									return l < n, true
								case token.GEQ:
									return l >= n, true
								case token.LEQ:
									return l <= n, true
								}
							}
						}
					}
				}
				return false, false
			}}
			reached := sim.Run()
			want := map[ssa.Instruction]bool{
				tf: !empty && (!ext || applyTF),
				so: !empty && !ext,
				pm: !empty && !(ext && !setPI),
				ep: !empty && ext && !setPI,
				sc: !empty,
			}
			names := map[ssa.Instruction]string{tf: "applyTextFilter", so: "applySort", pm: "paginateManually", ep: "externallySetPageInfo", sc: "setCursors"}
			for in, w := range want {
				if reached[in.Block()] != w {
					o.FailAt(in, "getConnection(empty=%v, externally managed=%v, ApplyTextFilter=%v, SetPageInfo=%v): %s runs: %v, expected %v", empty, ext, applyTF, setPI, names[in], reached[in.Block()], w)
					return
				}
			}
		}
		// setCursors
		scf := c.NeedFunc(sbp, "(*Connection).setCursors")
		stores := map[string]ssa.Instruction{}
		for _, f := range []string{"StartCursor", "EndCursor"} {
			for _, r := range an.FieldRefs(scf, "", "PageInfo", f) {
				if r.Kind == "store" {
					stores[f] = r.Instr
					o.Site(r.Instr)
					src := an.Expr(r.Val)
					okSrc := strings.HasSuffix(src, ".Cursor") && strings.Contains(src, ".Edges[")
					if f == "StartCursor" && !strings.Contains(src, ".Edges[0]") {
						okSrc = false
					}
					if f == "EndCursor" && !(strings.Contains(src, "(len(") && strings.Contains(src, " - 1)")) {
						okSrc = false
					}
					if !okSrc {
						o.FailAt(r.Instr, "PageInfo.%s is set from %s", f, an.Short(src, 70))
					}
				}
			}
			if stores[f] == nil {
				o.Fail(p.Pos(scf.Pos()), "setCursors never sets PageInfo.%s: clients could not continue from this page", f)
				return
			}
		}
		for _, empty := range []bool{true, false} {
			sim := &an.BoolSim{Fn: scf, Atom: func(v ssa.Value) (bool, bool) {
				if bo, ok := v.(*ssa.BinOp); ok {
					if lc, ok := bo.X.(*ssa.Call); ok {
						if b, ok := lc.Call.Value.(*ssa.Builtin); ok && b.Name() == "len" {
							if n, ok := an.ConstInt(bo.Y); ok {
								l := int64(3)
								if empty {
									l = 0
								}
								switch bo.Op {
								case token.EQL:
									return l == n, true
								case token.NEQ:
									return l != n, true
								case token.GTR:
									return l > n, true
								case token.LSS:
									return l < n, true
								case token.GEQ:
									return l >= n, true
								case token.LEQ:
									return l <= n, true
								}
							}
						}
					}
				}
				return false, false
			}}
			reached := sim.Run()
			for f, st := range stores {
				if reached[st.Block()] == empty {
					o.FailAt(st, "setCursors with an empty page=%v: PageInfo.%s is written: %v", empty, f, reached[st.Block()])
				}
			}
		}
	})

	c.Check("R-GUARD", "paginateManually: Edges[:first] iff len > first, Edges[len-last:] iff len > last, flags set there; errors precede slicing; flags seeded from (before&&elemsAfter)/(after&&elemsBefore)", 5, func(o *an.O) {
		fn := c.NeedFunc(sbp, "(*Connection).paginateManually")
		cn := fn.Params[0].Name()
		edges := cn + ".Edges"
		// argument order of applyCursorsToAllEdges
		acs := an.Calls(fn, an.Mod(sbp, "", "applyCursorsToAllEdges"))
		if len(acs) != 1 {
			o.Fail(p.Pos(fn.Pos()), "expected one applyCursorsToAllEdges call")
			return
		}
		o.Site(acs[0])
		ac := an.CallOf(acs[0])
		// Roles are inferred from applyCursorsToAllEdges itself, not from parameter or result
		// positions: the "after" cursor is the one whose index becomes the low bound of a cut,
		// the "before" cursor the one whose index becomes the high bound; each boolean result is
		// tied to the cursor under whose non-nil test it can become true.
		callee, paramOf, resultOf := cursorRoles(c)
		edgesArg := -1
		for k, pa := range callee.Params {
			if _, isSl := pa.Type().Underlying().(*types.Slice); isSl {
				edgesArg = k
			}
		}
		if edgesArg < 0 || an.Expr(ac.Args[edgesArg]) != edges || !strings.HasSuffix(an.Expr(ac.Args[paramOf["before"]]), ".Before") || !strings.HasSuffix(an.Expr(ac.Args[paramOf["after"]]), ".After") {
			o.FailAt(acs[0], "applyCursorsToAllEdges must be given c.Edges, args.Before as its before cursor and args.After as its after cursor; found %s / before: %s / after: %s", an.Expr(ac.Args[0]), an.Expr(ac.Args[paramOf["before"]]), an.Expr(ac.Args[paramOf["after"]]))
		}
		// seeds
		seedOK := map[string]bool{}
		for _, f := range []string{"HasNextPage", "HasPrevPage"} {
			for _, r := range an.FieldRefs(fn, "", "PageInfo", f) {
				if r.Kind != "store" {
					continue
				}
				o.Site(r.Instr)
				s := an.Expr(r.Val)
				if s == "true" {
					continue
				}
				want1, want2 := ".Before != nil)", fmt.Sprintf("#%d", resultOf["elemsAfter"])
				if f == "HasPrevPage" {
					want1, want2 = ".After != nil)", fmt.Sprintf("#%d", resultOf["elemsBefore"])
				}
				if strings.Contains(s, want1) && strings.HasSuffix(strings.TrimSuffix(s, ")"), want2) && strings.Contains(s, " && ") {
					seedOK[f] = true
				} else {
					o.FailAt(r.Instr, "%s is seeded with %s; expected (args.%s != nil && %s of applyCursorsToAllEdges)", f, an.Short(s, 80), map[string]string{"HasNextPage": "Before", "HasPrevPage": "After"}[f], map[string]string{"HasNextPage": "elemsAfter (" + want2 + ")", "HasPrevPage": "elemsBefore (" + want2 + ")"}[f])
				}
			}
		}
		if !seedOK["HasNextPage"] || !seedOK["HasPrevPage"] {
			o.Fail(p.Pos(fn.Pos()), "hasNextPage/hasPrevPage are not seeded from the cursor results")
		}
		// cuts
		nFirst, nLast := 0, 0
		an.Instrs(fn, func(i ssa.Instruction) {
			sl, ok := i.(*ssa.Slice)
			if !ok || an.Expr(sl.X) != edges {
				return
			}
			o.Site(i)
			gs := an.GuardStrings(i.Block())
			has := func(s string) bool {
				for _, g := range gs {
					if g == s {
						return true
					}
				}
				return false
			}
			sets := func(field string) bool {
				for _, j := range i.Block().Instrs {
					if st, ok := j.(*ssa.Store); ok && an.IsFieldAccess(st.Addr, "PageInfo", field) && an.Expr(st.Val) == "true" {
						return true
					}
				}
				return false
			}
			switch {
			case sl.Low == nil && sl.High != nil:
				nFirst++
				arg := an.Expr(sl.High)
				if !strings.HasSuffix(arg, ".First)") {
					o.FailAt(i, "forward cut uses %s, not first", arg)
				}
				if !has("(len("+edges+") > "+arg+")") && !has("("+arg+" < len("+edges+"))") {
					o.FailAt(i, "Edges[:first] is cut under %v; it must be exactly len(Edges) > first (>= would report a next page when the list ends exactly at the cut)", gs)
				}
				if !sets("HasNextPage") {
					o.FailAt(i, "the forward cut does not set hasNextPage")
				}
			case sl.Low != nil && sl.High == nil:
				nLast++
				lo, ok := sl.Low.(*ssa.BinOp)
				if !ok || lo.Op != token.SUB || an.Expr(lo.X) != "len("+edges+")" || !strings.HasSuffix(an.Expr(lo.Y), ".Last)") {
					o.FailAt(i, "backward cut must be Edges[len(Edges)-last:], found %s", an.Expr(sl))
					return
				}
				arg := an.Expr(lo.Y)
				if !has("(len("+edges+") > "+arg+")") && !has("("+arg+" < len("+edges+"))") {
					o.FailAt(i, "Edges[len-last:] is cut under %v; it must be exactly len(Edges) > last", gs)
				}
				if !sets("HasPrevPage") {
					o.FailAt(i, "the backward cut does not set hasPrevPage")
				}
			default:
				o.FailAt(i, "unexpected cut %s", an.Expr(sl))
			}
			// errors precede slicing
			blk := an.NewBlocker()
			for _, ci := range an.CondIfs(fn, func(v ssa.Value) bool {
				return strings.Contains(an.Expr(v), "safeInt64Ptr(") && strings.HasSuffix(an.Expr(v), " < 0)")
			}) {
				blk.AddEdge(ci.If.Block(), ci.False)
			}
			if len(blk.Edge) < 2 || an.Reach(fn, nil, blk)[i] {
				o.FailAt(i, "the page is cut without both first and last having been tested non-negative")
			}
		})
		if nFirst != 1 || nLast != 1 {
			o.Fail(p.Pos(fn.Pos()), "expected one forward and one backward cut, found %d/%d", nFirst, nLast)
		}
		// both-set error exists
		both := false
		for _, e := range an.Exits(fn, false) {
			if !isConstNil(e.(*ssa.Return).Results[0]) {
				gs := strings.Join(an.GuardStrings(e.Block()), " ")
				if strings.Contains(gs, ".First != nil)") && strings.Contains(gs, ".Last != nil)") {
					both = true
				}
			}
		}
		if !both {
			o.Fail(p.Pos(fn.Pos()), "first and last together are no longer rejected")
		}
	})

	c.Check("R-WHO+R-TABLE", "sorting is stable with strict, key-matching comparators; getSort covers exactly supportedSort's kinds", 6, func(o *an.O) {
		pp := p.PkgSyntax(sbp)
		an.Need(pp != nil, "package schemabuilder")
		// no unstable sort in pagination.go
		for _, fn := range p.ModuleFuncs(func(rel string) bool { return rel == sbp }) {
			if baseName(p.Fset.Position(fn.Pos()).Filename) != "pagination.go" {
				continue
			}
			for _, i := range an.CallsAny(fn, an.CalleeSpec{Pkg: "sort", Name: "Slice"}, an.CalleeSpec{Pkg: "sort", Name: "Sort"}, an.CalleeSpec{Pkg: "sort", Name: "Strings"}) {
				o.FailAt(i, "%s uses an unstable sort: elements with equal sort values would change order between pages", an.QualName(fn))
			}
			for _, i := range an.CallsAny(fn, an.CalleeSpec{Pkg: "sort", Name: "SliceStable"}) {
				o.Site(i)
			}
		}
		// the sorts table (AST)
		accessor := map[string]string{"Int64": "Int", "Uint64": "Uint", "Float64": "Float", "String": "String"}
		nEntries := 0
		for _, f := range pp.Syntax {
			for _, d := range f.Decls {
				gd, ok := d.(*ast.GenDecl)
				if !ok || gd.Tok != token.VAR {
					continue
				}
				for _, sp := range gd.Specs {
					vs := sp.(*ast.ValueSpec)
					if len(vs.Names) != 1 || vs.Names[0].Name != "sorts" || len(vs.Values) != 1 {
						continue
					}
					cl, ok := vs.Values[0].(*ast.CompositeLit)
					if !ok {
						continue
					}
					for _, el := range cl.Elts {
						kv := el.(*ast.KeyValueExpr)
						key := ""
						if se, ok := kv.Key.(*ast.SelectorExpr); ok {
							key = se.Sel.Name
						}
						want := accessor[key]
						nEntries++
						o.SitePos(p.Pos(kv.Pos()))
						if want == "" {
							o.Fail(p.Pos(kv.Pos()), "sorts has an entry for reflect.%s, which getSort never selects", key)
							continue
						}
						stable := false
						ast.Inspect(kv.Value, func(n ast.Node) bool {
							if ce, ok := n.(*ast.CallExpr); ok {
								if se, ok := ce.Fun.(*ast.SelectorExpr); ok && se.Sel.Name == "SliceStable" {
									stable = true
								}
							}
							return true
						})
						if !stable {
							o.Fail(p.Pos(kv.Pos()), "sorts[%s] does not use sort.SliceStable", key)
						}
					}
				}
			}
		}
		if nEntries < 4 {
			o.Fail("graphql/schemabuilder/pagination.go", "sorts table has %d entries, expected 4", nEntries)
		}
		// the comparators (SSA): for order = ascending / descending the less function
		// returns accessor(slice[i]) < accessor(slice[j]) / the strict opposite
		checkSortComparators(c, o, accessor)
		// getSort vs supportedSort
		gs, _ := p.FuncDecl(sbp, "getSort")
		ss, _ := p.FuncDecl(sbp, "supportedSort")
		an.Need(gs != nil && ss != nil, "getSort / supportedSort")
		a, b := an.Switches(gs, pp), an.Switches(ss, pp)
		an.Need(len(a) == 1 && len(b) == 1, "switches of getSort / supportedSort")
		o.SitePos(p.Pos(a[0].Node.Pos()))
		onlyA, onlyB := an.SetDiff(a[0].AllCaseTypes(), b[0].AllCaseTypes())
		if len(onlyB) > 0 {
			o.Fail(p.Pos(a[0].Node.Pos()), "supportedSort accepts kinds %v for which getSort has no comparator (it panics at schema build / sorts wrongly)", onlyB)
		}
		if len(onlyA) > 0 {
			o.Fail(p.Pos(b[0].Node.Pos()), "getSort handles kinds %v that supportedSort rejects", onlyA)
		}
		// each getSort clause returns the table entry of its own family
		fam := map[string]string{"Int": "Int64", "Uint": "Uint64", "Float": "Float64", "String": "String"}
		for _, cl := range a[0].Clauses {
			if cl.Default {
				continue
			}
			ret := ""
			for _, st := range cl.Body {
				if rs, ok := st.(*ast.ReturnStmt); ok && len(rs.Results) == 1 {
					ret = exprString(rs.Results[0])
				}
			}
			for _, t := range cl.Types {
				want := ""
				for pre, k := range fam {
					if strings.HasPrefix(t, pre) {
						want = k
					}
				}
				if strings.HasPrefix(t, "Uint") {
					want = "Uint64"
				}
				if want != "" && !strings.HasSuffix(ret, "."+want+"]") {
					o.Fail(p.Pos(cl.Node.Pos()), "getSort maps kind %s to %s, expected sorts[reflect.%s]", t, ret, want)
				}
			}
		}
	})

	c.Check("R-BOOL", "applySort decision table: no SortBy returns the list, an unknown field is an error, a registered field is resolved through the batch resolver exactly under Batch && UseBatchFunc and per node otherwise; the requested order (or the default) reaches the sort function", 2, func(o *an.O) {
		ruleApplySortTable(c, o)
	})

	c.Check("R-BOOL", "applyTextFilter decision table: no filter text returns the list; a selected filter field goes into exactly one of the plain / expensive / batch passes; a pass that has a field runs; an element survives iff some pass kept it; default search tokens without a filter type", 4, func(o *an.O) {
		ruleTextFilterTable(c, o)
	})

	c.Check("R-PAIR", "index bookkeeping: filter flags, sort references and sorted nodes use the induction value of their loop; setCursors reads the first and last edge", 6, func(o *an.O) {
		tf := c.NeedFunc(sbp, "(*connectionContext).applyTextFilter")
		// filteredNodes = append(filteredNodes, nodes[i]) under the three flags of the same i
		found := false
		an.Instrs(tf, func(i ssa.Instruction) {
			ia, ok := i.(*ssa.IndexAddr)
			if !ok || an.PathOf(ia.X) != tf.Params[2].Name() {
				return
			}
			found = true
			o.Site(i)
			if !an.IsRangeIndex(ia.Index) {
				o.FailAt(i, "nodes is indexed by %s, not by the loop's induction value", an.Expr(ia.Index))
			}
			// (which flags decide is evaluated by the applyTextFilter decision table; here: they are read at the same index)
			h := an.LoopHeaderOf(i)
			an.Instrs(tf, func(j ssa.Instruction) {
				fia, ok := j.(*ssa.IndexAddr)
				if !ok || an.LoopHeaderOf(j) != h {
					return
				}
				st, ok := fia.X.Type().Underlying().(*types.Slice)
				if !ok {
					return
				}
				if b, ok := st.Elem().Underlying().(*types.Basic); !ok || b.Kind() != types.Bool {
					return
				}
				if fia.Index != ia.Index {
					o.FailAt(j, "an element is kept by the verdict for another index (%s instead of %s)", an.Expr(fia.Index), an.Expr(ia.Index))
				}
			})
		})
		if !found {
			o.Fail(p.Pos(tf.Pos()), "applyTextFilter does not build the filtered list from nodes[i]")
		}
		// the three flag slices have len(nodes)
		nmk := 0
		an.Instrs(tf, func(i ssa.Instruction) {
			if ms, ok := i.(*ssa.MakeSlice); ok && strings.Contains(ms.Type().String(), "bool") {
				nmk++
				if an.Expr(ms.Len) != "len("+tf.Params[2].Name()+")" {
					o.FailAt(i, "a keep-flag slice has length %s, not len(nodes)", an.Expr(ms.Len))
				}
			}
		})
		if nmk != 3 {
			o.Fail(p.Pos(tf.Pos()), "expected three keep-flag slices, found %d", nmk)
		}
		as := c.NeedFunc(sbp, "(*connectionContext).applySort")
		nodes := as.Params[2].Name()
		okSorted := false
		for _, f := range an.WithAnons(as) {
			an.Instrs(f, func(i ssa.Instruction) {
				st, ok := i.(*ssa.Store)
				if !ok {
					return
				}
				ia, ok := st.Addr.(*ssa.IndexAddr)
				if !ok {
					return
				}
				tgt := an.Expr(ia.X)
				switch {
				case strings.Contains(tgt, "sortedNodes") || (f == as && isMakeSliceOfIface(ia.X)):
					o.Site(i)
					// sortedNodes[i] = nodes[val.index]
					if !an.IsRangeIndex(ia.Index) {
						o.FailAt(i, "sortedNodes written at %s, not at the loop position", an.Expr(ia.Index))
					}
					src, ok := st.Val.(*ssa.UnOp)
					okSrc := false
					if ok {
						if sia, ok := src.X.(*ssa.IndexAddr); ok && an.PathOf(sia.X) == nodes && strings.HasSuffix(an.Expr(sia.Index), ".index") {
							okSrc = true
						}
					}
					if !okSrc {
						o.FailAt(i, "sortedNodes[i] is %s, not nodes[sortValues[i].index]", an.Short(an.Expr(st.Val), 60))
					} else {
						okSorted = true
					}
				}
			})
		}
		if !okSorted {
			o.Fail(p.Pos(as.Pos()), "applySort does not map the sorted references back onto nodes")
		}
		// sortReference literals / getSortReference calls carry the loop index
		for _, f := range an.WithAnons(as) {
			for _, l := range an.StructLits(f, "sortReference") {
				if len(l.Fields) == 0 {
					continue // a plain local copy, not a literal
				}
				o.Site(l.Alloc)
				if idx := l.Fields["index"]; idx == nil || !an.IsRangeIndex(idx) {
					o.FailAt(l.Alloc, "sortReference.index is %s, not the position of the node in nodes", an.Expr(idx))
				}
			}
			for _, call := range an.Calls(f, an.Mod(sbp, "", "getSortReference")) {
				o.Site(call)
				cc := an.CallOf(call)
				// (ctx, sortField, node, i, userArgs): node and i come from the same iteration
				nodeArg, iArg := an.Unload(cc.Args[2]), an.Unload(cc.Args[3])
				if !pairedLoopVars(as, f, nodeArg, iArg, nodes) {
					o.FailAt(call, "getSortReference is given node %s and index %s that do not come from the same iteration over nodes", an.Expr(cc.Args[2]), an.Expr(cc.Args[3]))
				}
			}
		}
		gsr := c.NeedFunc(sbp, "getSortReference")
		for _, l := range an.StructLits(gsr, "sortReference") {
			o.Site(l.Alloc)
			if l.Fields["index"] != ssa.Value(gsr.Params[3]) {
				o.FailAt(l.Alloc, "getSortReference stores index %s, not its i argument", an.Expr(l.Fields["index"]))
			}
		}
		sc := c.NeedFunc(sbp, "(*Connection).setCursors")
		for _, f := range []string{"StartCursor", "EndCursor"} {
			for _, r := range an.FieldRefs(sc, "", "PageInfo", f) {
				if r.Kind != "store" {
					continue
				}
				o.Site(r.Instr)
				s := an.Expr(r.Val)
				cn := sc.Params[0].Name()
				want := cn + ".Edges[0].Cursor"
				if f == "EndCursor" {
					want = cn + ".Edges[(len(" + cn + ".Edges) - 1)].Cursor"
				}
				if s != want {
					o.FailAt(r.Instr, "%s is %s, expected %s", f, s, want)
				}
			}
		}
	})
}

func exprString(e ast.Expr) string {
	if e == nil {
		return ""
	}
	var sb strings.Builder
	writeExpr(&sb, e)
	return sb.String()
}

func writeExpr(sb *strings.Builder, e ast.Expr) {
	switch x := e.(type) {
	case *ast.Ident:
		sb.WriteString(x.Name)
	case *ast.SelectorExpr:
		writeExpr(sb, x.X)
		sb.WriteString("." + x.Sel.Name)
	case *ast.CallExpr:
		writeExpr(sb, x.Fun)
		sb.WriteString("(")
		for i, a := range x.Args {
			if i > 0 {
				sb.WriteString(", ")
			}
			writeExpr(sb, a)
		}
		sb.WriteString(")")
	case *ast.IndexExpr:
		writeExpr(sb, x.X)
		sb.WriteString("[")
		writeExpr(sb, x.Index)
		sb.WriteString("]")
	case *ast.BasicLit:
		sb.WriteString(x.Value)
	case *ast.BinaryExpr:
		writeExpr(sb, x.X)
		sb.WriteString(" " + x.Op.String() + " ")
		writeExpr(sb, x.Y)
	case *ast.ParenExpr:
		sb.WriteString("(")
		writeExpr(sb, x.X)
		sb.WriteString(")")
	case *ast.UnaryExpr:
		sb.WriteString(x.Op.String())
		writeExpr(sb, x.X)
	case *ast.StarExpr:
		sb.WriteString("*")
		writeExpr(sb, x.X)
	default:
		sb.WriteString("?")
	}
}

func isMakeSliceOfIface(v ssa.Value) bool {
	ms, ok := v.(*ssa.MakeSlice)
	return ok && strings.Contains(ms.Type().String(), "interface")
}

// pairedLoopVars: nodeArg and iArg denote the element and index of one
// iteration over `nodes` (directly, or through per-iteration copies captured
// by a closure: `i, node := unscopedI, unscopedNode`).
func pairedLoopVars(outer, f *ssa.Function, nodeArg, iArg ssa.Value, nodes string) bool {
	resolve := func(v ssa.Value) ssa.Value {
		// free variable -> cell in outer -> single stored value
		for d := 0; d < 3; d++ {
			switch x := v.(type) {
			case *ssa.FreeVar:
				cell := freeVarCell(outer, f, f, x)
				if cell == nil {
					return v
				}
				v = cell
			case *ssa.Alloc:
				var val ssa.Value
				n := 0
				for _, r := range *x.Referrers() {
					if st, ok := r.(*ssa.Store); ok && st.Addr == ssa.Value(x) {
						val = st.Val
						n++
					}
				}
				if n != 1 {
					return v
				}
				v = val
			case *ssa.UnOp:
				if ia, ok := x.X.(*ssa.IndexAddr); ok {
					_ = ia
					return v
				}
				v = x.X
			default:
				return v
			}
		}
		return v
	}
	nv, iv := resolve(nodeArg), resolve(iArg)
	if !an.IsRangeIndex(iv) {
		return false
	}
	ld, ok := nv.(*ssa.UnOp)
	if !ok {
		return false
	}
	ia, ok := ld.X.(*ssa.IndexAddr)
	return ok && an.PathOf(ia.X) == nodes && ia.Index == iv
}

// checkSortComparators evaluates every less function passed to sort.SliceStable
// by an entry of the sorts table for both sort orders.
func checkSortComparators(c *an.Ctx, o *an.O, accessor map[string]string) {
	p := c.P
	sp := p.Pkg(sbp)
	initFn := sp.Func("init")
	an.Need(initFn != nil, "schemabuilder package initialiser")
	kindName := func(v ssa.Value) string {
		cst, ok := v.(*ssa.Const)
		if !ok || cst.Value == nil {
			return ""
		}
		rp := p.ExtPkg("reflect")
		if rp == nil {
			return ""
		}
		for name := range accessor {
			if obj, ok := rp.Types.Scope().Lookup(name).(*types.Const); ok && obj.Val().ExactString() == cst.Value.ExactString() {
				return name
			}
		}
		return ""
	}
	ascVal, ok1 := an.PkgConstInt(sp.Pkg, "SortOrder_Ascending")
	descVal, ok2 := an.PkgConstInt(sp.Pkg, "SortOrder_Descending")
	an.Need(ok1 && ok2 && ascVal != descVal, "SortOrder constants")
	n := 0
	an.Instrs(initFn, func(i ssa.Instruction) {
		mu, ok := i.(*ssa.MapUpdate)
		if !ok {
			return
		}
		g, ok := an.StripConv(mu.Map).(*ssa.UnOp)
		if ok {
			if gl, isG := g.X.(*ssa.Global); !isG || gl.Name() != "sorts" {
				ok = false
			}
		}
		if !ok {
			if ms, isMake := mu.Map.(*ssa.MakeMap); !isMake || !strings.Contains(ms.Type().String(), "sortReference") {
				return
			}
		}
		key := kindName(mu.Key)
		want := accessor[key]
		if want == "" {
			return
		}
		var entry *ssa.Function
		switch x := an.StripConv(mu.Value).(type) {
		case *ssa.Function:
			entry = x
		case *ssa.MakeClosure:
			entry, _ = x.Fn.(*ssa.Function)
		}
		if entry == nil {
			o.FailAt(i, "sorts[%s] is not a function literal", key)
			return
		}
		var less *ssa.Function
		for _, call := range an.CallsAny(entry, an.CalleeSpec{Pkg: "sort", Name: "SliceStable"}) {
			if mc, ok := an.CallOf(call).Args[1].(*ssa.MakeClosure); ok {
				less, _ = mc.Fn.(*ssa.Function)
			}
			if an.CallOf(call).Args[0] != ssa.Value(an.StripConv(an.CallOf(call).Args[0])) {
				continue
			}
		}
		if less == nil || len(less.Params) != 2 {
			o.FailAt(i, "sorts[%s]: cannot find the less function given to sort.SliceStable", key)
			return
		}
		n++
		o.Site(i)
		orderOf := func(v ssa.Value) bool { // v is (a load of) the captured order parameter
			if ld, ok := v.(*ssa.UnOp); ok && ld.Op == token.MUL {
				v = ld.X
			}
			fv, ok := v.(*ssa.FreeVar)
			if !ok {
				_, isParam := v.(*ssa.Parameter)
				return isParam && v.Type().String() == sp.Pkg.Path()+".SortOrder"
			}
			return strings.HasSuffix(strings.TrimPrefix(fv.Type().String(), "*"), ".SortOrder")
		}
		// which element (0 = less.Params[0], 1 = less.Params[1]) a compared value is derived from
		var side func(v ssa.Value, d int) (int, bool)
		side = func(v ssa.Value, d int) (int, bool) {
			if d > 8 {
				return 0, false
			}
			switch x := v.(type) {
			case *ssa.Call:
				f := an.CalleeFunc(x.Common())
				if f == nil || len(x.Call.Args) == 0 {
					return 0, false
				}
				if f.Pkg() != nil && f.Pkg().Path() == "strings" && f.Name() == "ToLower" {
					return side(x.Call.Args[0], d+1)
				}
				if f.Pkg() != nil && f.Pkg().Path() == "reflect" {
					if f.Name() != want {
						return -1, true // wrong accessor
					}
					return side(x.Call.Args[0], d+1)
				}
			case *ssa.UnOp:
				if x.Op == token.MUL {
					return side(x.X, d+1)
				}
			case *ssa.FieldAddr:
				if an.FieldName(x.X.Type(), x.Field) == "value" {
					return side(x.X, d+1)
				}
			case *ssa.Field:
				return side(x.X, d+1)
			case *ssa.Alloc:
				// a := slice[i].value is a local copy: follow its single store
				var st *ssa.Store
				for _, r := range *x.Referrers() {
					if s2, ok := r.(*ssa.Store); ok && s2.Addr == ssa.Value(x) {
						if st != nil {
							return 0, false
						}
						st = s2
					}
				}
				if st != nil {
					return side(st.Val, d+1)
				}
			case *ssa.IndexAddr:
				for k := 0; k < 2; k++ {
					if x.Index == ssa.Value(less.Params[k]) {
						return k, true
					}
				}
			case *ssa.ChangeType:
				return side(x.X, d+1)
			case *ssa.Convert:
				return side(x.X, d+1)
			}
			return 0, false
		}
		for _, asc := range []bool{true, false} {
			which := "descending"
			if asc {
				which = "ascending"
			}
			sim := &an.BoolSim{Fn: less, Atom: func(v ssa.Value) (bool, bool) {
				bo, ok := v.(*ssa.BinOp)
				if !ok || (bo.Op != token.EQL && bo.Op != token.NEQ) {
					return false, false
				}
				for _, pr := range [][2]ssa.Value{{bo.X, bo.Y}, {bo.Y, bo.X}} {
					cv, ok := an.ConstInt(pr[1])
					if !ok || !orderOf(pr[0]) {
						continue
					}
					cur := descVal
					if asc {
						cur = ascVal
					}
					return (cur == cv) == (bo.Op == token.EQL), true
				}
				return false, false
			}}
			reached := sim.Run()
			nret := 0
			for _, e := range an.Exits(less, false) {
				ret, ok := e.(*ssa.Return)
				if !ok || !reached[e.Block()] || len(ret.Results) != 1 {
					continue
				}
				for _, rv := range sim.ValuesAt(ret.Results[0], e.Block()) {
					nret++
					bo, ok := rv.(*ssa.BinOp)
					if !ok {
						o.FailAt(e, "sorts[%s]: %s comparator is not a comparison", key, which)
						continue
					}
					sx, okx := side(bo.X, 0)
					sy, oky := side(bo.Y, 0)
					if !okx || !oky {
						o.FailAt(e, "sorts[%s]: cannot relate the %s comparator's operands to slice[i] / slice[j]", key, which)
						continue
					}
					if sx == -1 || sy == -1 {
						o.FailAt(e, "sorts[%s]: %s comparator does not read the values with the .%s() accessor of the key's kind", key, which, want)
						continue
					}
					if sx == sy {
						o.FailAt(e, "sorts[%s]: comparator compares a value with itself", key)
						continue
					}
					// normalise to "elem i OP elem j"
					op := bo.Op
					if sx == 1 {
						switch op {
						case token.LSS:
							op = token.GTR
						case token.GTR:
							op = token.LSS
						case token.LEQ:
							op = token.GEQ
						case token.GEQ:
							op = token.LEQ
						}
					}
					wantOp := token.GTR
					if asc {
						wantOp = token.LSS
					}
					if op != wantOp {
						o.FailAt(e, "sorts[%s]: %s comparator uses %s, must be the strict %s (a non-strict or reversed less function breaks stability and the order between pages)", key, which, op, wantOp)
					}
				}
			}
			if nret == 0 {
				o.FailAt(i, "sorts[%s]: missing %s branch", key, which)
			}
		}
	})
	if n < 4 {
		o.Fail("graphql/schemabuilder/pagination.go", "found the comparators of %d sorts entries, expected 4", n)
	}
}

// cursorRoles infers, from applyCursorsToAllEdges itself, which parameter is
// the "after" cursor (its index becomes the low bound of a cut) and which the
// "before" cursor (high bound), and which boolean result is tied to which.
func cursorRoles(c *an.Ctx) (*ssa.Function, map[string]int, map[string]int) {
	callee := c.NeedFunc(sbp, "applyCursorsToAllEdges")
	role := map[int]string{} // parameter index -> "after" / "before"
	for k, pa := range callee.Params {
		if _, isPtr := pa.Type().Underlying().(*types.Pointer); !isPtr {
			continue
		}
		for _, call := range an.Calls(callee, an.Mod(sbp, "", "getCursorIndex")) {
			ld, ok := an.CallOf(call).Args[1].(*ssa.UnOp)
			if !ok || ld.X != ssa.Value(pa) {
				continue
			}
			idx := call.(ssa.Value)
			an.Instrs(callee, func(i ssa.Instruction) {
				sl, ok := i.(*ssa.Slice)
				if !ok {
					return
				}
				uses := func(v ssa.Value) bool {
					if v == nil {
						return false
					}
					if v == idx {
						return true
					}
					if bo, ok := v.(*ssa.BinOp); ok {
						return bo.X == idx || bo.Y == idx
					}
					return false
				}
				if uses(sl.Low) {
					role[k] = "after"
				}
				if uses(sl.High) {
					role[k] = "before"
				}
			})
		}
	}
	paramOf := map[string]int{}
	for k, r := range role {
		paramOf[r] = k
	}
	_, okA := paramOf["after"]
	_, okB := paramOf["before"]
	an.Need(okA && okB, "after / before cursor parameters of applyCursorsToAllEdges")
	// boolean results tied to a cursor parameter
	resultOf := map[string]int{} // "elemsBefore" (tied to the after cursor) / "elemsAfter" (tied to the before cursor)
	for _, e := range an.Exits(callee, false) {
		ret, ok := e.(*ssa.Return)
		if !ok {
			continue
		}
		for r := range ret.Results {
			v := an.ResultAt(ret, r)
			if bt, ok := v.Type().Underlying().(*types.Basic); !ok || bt.Kind() != types.Bool {
				continue
			}
			tied := map[string]bool{}
			var walk func(v ssa.Value, at *ssa.BasicBlock, seen map[ssa.Value]bool)
			walk = func(v ssa.Value, at *ssa.BasicBlock, seen map[ssa.Value]bool) {
				if seen[v] {
					return
				}
				seen[v] = true
				if ph, ok := v.(*ssa.Phi); ok {
					for k, ev := range ph.Edges {
						walk(ev, ph.Block().Preds[k], seen)
					}
					return
				}
				if cst, ok := v.(*ssa.Const); ok && cst.Value != nil && cst.Value.ExactString() == "false" {
					return
				}
				blocks := []*ssa.BasicBlock{at}
				if in, ok := v.(ssa.Instruction); ok {
					blocks = append(blocks, in.Block())
				}
				for _, b := range blocks {
					for _, g := range append(an.GuardsOf(b), an.Guard{}) {
						if g.Cond == nil {
							continue
						}
						bo, ok := g.Cond.(*ssa.BinOp)
						if !ok || !isConstNil(bo.Y) {
							continue
						}
						nonNil := (bo.Op == token.NEQ) == g.Polarity
						for rl, k := range paramOf {
							if bo.X == ssa.Value(callee.Params[k]) && nonNil {
								tied[rl] = true
							}
						}
					}
				}
			}
			walk(v, e.Block(), map[ssa.Value]bool{})
			switch {
			case tied["after"] && !tied["before"]:
				resultOf["elemsBefore"] = r
			case tied["before"] && !tied["after"]:
				resultOf["elemsAfter"] = r
			}
		}
	}
	_, okEB := resultOf["elemsBefore"]
	_, okEA := resultOf["elemsAfter"]
	an.Need(okEB && okEA, "the two boolean results of applyCursorsToAllEdges")
	return callee, paramOf, resultOf
}
