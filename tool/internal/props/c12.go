package props

import (
	"go/ast"
	"go/token"
	"go/types"
	"regexp"
	"sort"
	"strings"

	"golang.org/x/tools/go/ssa"

	"thunderlint/internal/an"
)

func init() {
	register("C12", "Decides 'no statement without the shard check' structurally for package sqlgen (and its users): every statement sink (Query*/Exec*/QueryRow* on *sql.DB, *sql.Tx or the QueryExecer interface, and batchFetch.Invoke) reachable from a method of *DB is reached only through the success edge of checkFilterAgainstLimits (reads) or checkColumnValuesAgainstLimits (writes), directly or through in-package helpers (summaries); bulk writers check every row of the chunk in a loop over len(chunk) whose only way on is the success edge; the object checked is the object executed (same query value, filter/columns/values taken from it); the limit checkers are total (missing and different both fail inside the loop over the whole limit, the only nil return follows the loop; the shard branch always propagates the error, the dynamic branch unless ShouldContinueOnError said to continue); the raw connection (DB.Conn, QueryExecer) and batchFetch are used only by an allow-list of functions. Not decided: that equal Go values denote equal SQL values (filterV != v compares interfaces); MySQL's own evaluation.", c12)
}

const sg = "sqlgen"

func sgPath() string { return an.ModulePath + "/" + sg }

var stmtMethods = map[string]bool{"Query": true, "QueryRow": true, "Exec": true, "QueryContext": true, "QueryRowContext": true, "ExecContext": true, "Prepare": true, "PrepareContext": true}

// isStmtSink: a call that sends a statement to the database.
func isStmtSink(c *ssa.CallCommon) bool {
	if c.IsInvoke() {
		n := an.NamedOf(c.Value.Type())
		return n != nil && n.Obj().Name() == "QueryExecer" && stmtMethods[c.Method.Name()]
	}
	f := an.CalleeFunc(c)
	if f == nil || f.Pkg() == nil {
		return false
	}
	sig := f.Type().(*types.Signature)
	if f.Pkg().Path() == "database/sql" && sig.Recv() != nil && stmtMethods[f.Name()] {
		n := an.NamedOf(sig.Recv().Type())
		return n != nil && (n.Obj().Name() == "DB" || n.Obj().Name() == "Tx" || n.Obj().Name() == "Conn")
	}
	// batchFetch.Invoke
	if an.Mod("batch", "Func", "Invoke").MatchesFunc(f) && len(c.Args) > 0 && an.IsFieldAccess(c.Args[0], "DB", "batchFetch") {
		return true
	}
	return false
}

var checkSpecs = []an.CalleeSpec{an.Mod(sg, "DB", "checkFilterAgainstLimits"), an.Mod(sg, "DB", "checkColumnValuesAgainstLimits")}

func c12(c *an.Ctx) {
	p := c.P
	sgFuncs := func() []*ssa.Function { return p.ModuleFuncs(func(rel string) bool { return rel == sg }) }

	// uncheckedSinks(fn): sink sites (direct, or calls of in-package functions
	// that themselves have unchecked sinks) reachable from fn's entry without
	// passing the success edge of a check. Computed as a fixpoint.
	type site struct {
		instr ssa.Instruction
		what  string
	}
	needs := map[*ssa.Function][]site{}
	loopChecked := map[ssa.Instruction]bool{}
	compute := func() {
		funcs := sgFuncs()
		byFn := map[*ssa.Function]bool{}
		for _, f := range funcs {
			byFn[f] = true
		}
		for iter := 0; iter < 6; iter++ {
			changed := false
			for _, fn := range funcs {
				checks := an.Calls(fn, checkSpecs...)
				blk := an.NewBlocker()
				an.BlockSuccessEdges(fn, blk, checks)
				// loop-contained checks: the success edge leads back to the loop; block the loop's exit
				// only when the loop body cannot reach the header except through the success edge
				for _, chk := range checks {
					h := an.LoopHeaderOf(chk)
					if h == nil {
						continue
					}
					if ok := loopCheckShape(fn, chk, h); ok {
						loopChecked[chk] = true
					}
				}
				reach := an.Reach(fn, nil, blk)
				var out []site
				an.Instrs(fn, func(i ssa.Instruction) {
					cc := an.CallOf(i)
					if cc == nil {
						return
					}
					what := ""
					if isStmtSink(cc) {
						what = "statement " + an.Short(an.Expr(cc.Value), 40)
						if !cc.IsInvoke() {
							what = "statement " + an.CalleeFunc(cc).Name()
						} else {
							what = "statement QueryExecer." + cc.Method.Name()
						}
					} else if callee := cc.StaticCallee(); callee != nil && byFn[callee] && len(needs[callee]) > 0 {
						what = "call of " + an.QualName(callee) + " (which reaches " + needs[callee][0].what + " unchecked)"
					}
					if what == "" {
						return
					}
					if !reach[i] {
						return // only reachable through a successful check
					}
					// reachable without success edge: allow when dominated by a loop-checked loop exit
					for chk := range loopChecked {
						if chk.Block().Parent() != fn {
							continue
						}
						h := an.LoopHeaderOf(chk)
						if h != nil && h.Dominates(i.Block()) && an.LoopHeaderOf(i) != h {
							// after the loop: every row passed the check (or there were none)
							b2 := an.NewBlocker(h.Instrs[0])
							if !an.Reach(fn, nil, b2)[i] {
								return
							}
						}
					}
					out = append(out, site{i, what})
				})
				if len(out) != len(needs[fn]) {
					changed = true
				}
				needs[fn] = out
			}
			if !changed {
				break
			}
		}
	}

	// Unexported named helpers are not reported themselves: an unchecked sink in
	// a helper makes every call of the helper a sink of its caller (summaries),
	// so the obligation lands on the exported API methods and on closures.
	// batchFetch.Many - identified by role (the function stored in the Many field of the
	// batch.Func literal of NewDB, a closure or a method value): it is reached only through
	// batchFetch.Invoke, itself a sink that BaseQuery guards (verified by the who-may-use rule)
	batchMany := func() *ssa.Function {
		nd := c.NeedFunc(sg, "NewDB")
		for _, l := range an.StructLits(nd, "Func") {
			if f := an.ClosureArg(l.Fields["Many"]); f != nil {
				return f
			}
		}
		return nil
	}
	isBatchMany := func(fn *ssa.Function) bool {
		m := batchMany()
		for f := fn; f != nil && m != nil; f = f.Parent() {
			if f == m {
				return true
			}
		}
		return false
	}

	c.Check("R-DOM-ERR", "every statement sink reachable from a *DB method lies behind the success edge of the limit check", 12, func(o *an.O) {
		compute()
		nsinks := 0
		for _, fn := range sgFuncs() {
			an.Instrs(fn, func(i ssa.Instruction) {
				if cc := an.CallOf(i); cc != nil && isStmtSink(cc) {
					nsinks++
					o.Site(i)
				}
			})
			for _, chk := range an.Calls(fn, checkSpecs...) {
				o.Site(chk)
			}
			name := an.QualName(fn)
			if isBatchMany(fn) {
				continue
			}
			if fn.Parent() == nil && !ast.IsExported(fn.Name()) {
				// helper: must only ever be called statically (its callers carry the obligation)
				if refs := fn.Referrers(); refs != nil {
					for _, r := range *refs {
						if cc := an.CallOf(r); cc == nil || cc.StaticCallee() != fn {
							o.FailAt(r, "helper %s (which sends statements) is used as a function value; its callers cannot be checked", name)
						}
					}
				}
				continue
			}
			for _, s := range needs[fn] {
				o.FailAt(s.instr, "%s reaches %s without passing the success edge of checkFilterAgainstLimits / checkColumnValuesAgainstLimits: a shard-limited handle could touch rows outside its shard", name, s.what)
			}
		}
		if nsinks < 5 {
			o.Undecided("only %d statement sinks found in sqlgen (expected >= 5)", nsinks)
		}
		// helpers: every in-package caller must be fine (already implied by the fixpoint); callers outside sqlgen are forbidden (unexported)
		if batchMany() == nil {
			o.Undecided("cannot find the function stored as batchFetch.Many in NewDB")
		}
	})

	c.Check("R-PROV", "bulk writers check every row of the chunk: loop over len(chunk), Values[i*n:(i+1)*n] with n = len(Columns), only the success edge continues", 2, func(o *an.O) {
		compute()
		for _, nm := range []string{"(*DB).InsertRows", "(*DB).UpsertRows"} {
			fn := c.NeedFunc(sg, nm)
			found := false
			for _, chk := range an.Calls(fn, checkSpecs...) {
				h := an.LoopHeaderOf(chk)
				if h == nil {
					continue
				}
				found = true
				o.Site(chk)
				if !loopCheckShape(fn, chk, h) {
					o.FailAt(chk, "%s: the per-row limit check does not have the shape `for i := 0; i < len(chunk); i++ { check(Values[i*n:(i+1)*n]) or return }`: some row of the chunk could go unchecked", nm)
				}
			}
			if !found {
				o.Fail(p.Pos(fn.Pos()), "%s has no per-row limit check inside a loop", nm)
			}
		}
	})

	c.Check("R-ID", "the object checked is the object executed (same query value; filter/columns/values taken from it)", 8, func(o *an.O) {
		for _, fn := range sgFuncs() {
			for _, chk := range an.Calls(fn, checkSpecs...) {
				o.Site(chk)
				cc := an.CallOf(chk)
				q := an.StripConv(cc.Args[2])
				anc := ancestors(q)
				anc[q] = true
				// other checked arguments derive from the query or its ancestors
				var others []ssa.Value
				if an.CalleeFunc(cc).Name() == "checkFilterAgainstLimits" {
					others = []ssa.Value{cc.Args[3], cc.Args[4]}
				} else {
					others = []ssa.Value{cc.Args[3], cc.Args[4], cc.Args[5]}
				}
				for _, x := range others {
					for _, r := range roots(x) {
						if !anc[r] {
							o.FailAt(chk, "%s: checked argument %s does not come from the query being executed (%s)", an.QualName(fn), an.Short(an.Expr(x), 60), an.Short(an.Expr(q), 40))
						}
					}
				}
				// executed object: sinks reachable after this check use q (or an ancestor for the batched path)
				after := an.Reach(fn, chk, nil)
				an.Instrs(fn, func(i ssa.Instruction) {
					if !after[i] {
						return
					}
					c2 := an.CallOf(i)
					if c2 == nil {
						return
					}
					if an.Mod(sg, "DB", "execWithTrace").Matches(c2) {
						if an.StripConv(c2.Args[2]) != q {
							o.FailAt(i, "%s executes %s but checked %s", an.QualName(fn), an.Short(an.Expr(c2.Args[2]), 40), an.Short(an.Expr(q), 40))
						}
					}
					if c2.IsInvoke() && c2.Method.Name() == "ToSQL" || (!c2.IsInvoke() && an.CalleeFunc(c2) != nil && an.CalleeFunc(c2).Name() == "ToSQL") {
						recv := c2.Value
						if !c2.IsInvoke() {
							recv = c2.Args[0]
						}
						if an.StripConv(recv) != q {
							o.FailAt(i, "%s renders %s.ToSQL() but checked %s", an.QualName(fn), an.Short(an.Expr(recv), 40), an.Short(an.Expr(q), 40))
						}
					}
					if isStmtSink(c2) && !c2.IsInvoke() && an.CalleeFunc(c2).Name() == "Invoke" {
						if !anc[an.StripConv(c2.Args[2])] {
							o.FailAt(i, "%s batches %s, which is not the query that was checked", an.QualName(fn), an.Short(an.Expr(c2.Args[2]), 40))
						}
					}
				})
			}
		}
	})

	totalRule := func(o *an.O, name string) {
		fn := c.NeedFunc(sg, name)
		limit := fn.Params[len(fn.Params)-1]
		var rng *ssa.Range
		an.Instrs(fn, func(i ssa.Instruction) {
			if r, ok := i.(*ssa.Range); ok && r.X == ssa.Value(limit) {
				rng = r
			}
		})
		if rng == nil {
			o.Fail(p.Pos(fn.Pos()), "%s does not range over the whole limit", name)
			return
		}
		o.Site(rng)
		var hdr *ssa.BasicBlock
		for _, r := range *rng.Referrers() {
			if nx, ok := r.(*ssa.Next); ok {
				hdr = nx.Block()
			}
		}
		an.Need(hdr != nil, "range loop header")
		nMissing, nDiff := 0, 0
		for _, e := range an.Exits(fn, false) {
			ret := e.(*ssa.Return)
			inLoop := an.LoopHeaderOf(e) == hdr || blockInLoop(e.Block(), hdr)
			if isConstNil(ret.Results[0]) {
				o.Site(e)
				// legitimate only when every path to it leaves the loop through its exit edge
				b0 := an.NewBlocker()
				if iff, ok := hdr.Instrs[len(hdr.Instrs)-1].(*ssa.If); ok {
					b0.AddEdge(iff.Block(), hdr.Succs[1])
				}
				if inLoop || len(b0.Edge) == 0 || an.Reach(fn, nil, b0)[e] {
					o.FailAt(e, "%s can return nil before the loop over the limit has finished: later limit columns are never compared", name)
				}
				continue
			}
			o.Site(e)
			gs := strings.Join(an.GuardStrings(e.Block()), " ")
			switch {
			case strings.Contains(gs, " != ") && !strings.Contains(gs, "!= nil"):
				nDiff++
			default:
				nMissing++
			}
		}
		if nMissing == 0 {
			o.Fail(p.Pos(fn.Pos()), "%s no longer fails when a limit column is missing", name)
		}
		if nDiff == 0 {
			o.Fail(p.Pos(fn.Pos()), "%s no longer fails when a limit column has a different value", name)
		}
		// the comparison is between the looked-up value and the limit's value
		okCmp := false
		for _, ci := range an.CondIfs(fn, func(v ssa.Value) bool {
			bo, ok := v.(*ssa.BinOp)
			return ok && bo.Op == token.NEQ && !isConstNil(bo.Y)
		}) {
			bo := ci.If.Cond.(*ssa.BinOp)
			for _, side := range []ssa.Value{bo.X, bo.Y} {
				if ex, ok := side.(*ssa.Extract); ok {
					if nx, ok := ex.Tuple.(*ssa.Next); ok && nx.Iter == ssa.Value(rng) && ex.Index == 2 {
						okCmp = true
					}
				}
			}
			// the true edge must return an error
			if isReturnNil(fn, ci.True) {
				o.FailAt(ci.If, "%s: a different value does not produce an error", name)
			}
		}
		if !okCmp {
			o.Fail(p.Pos(fn.Pos()), "%s does not compare against the limit's value", name)
		}
	}
	c.Check("R-SHAPE", "checkFilterAgainstLimit is total: missing and different fail inside the loop over the whole limit; nil only after the loop", 4, func(o *an.O) {
		totalRule(o, "(*DB).checkFilterAgainstLimit")
	})
	c.Check("R-BOOL", "limit decision tables: a wrapper returns an error exactly when the shard limit is violated, or the dynamic limit (both callbacks set, non-nil filter) is violated and ShouldContinueOnError says no; a per-limit check fails for every limit entry that is missing or different and only then", 6, func(o *an.O) {
		ruleLimitTables(c, o)
	})

	c.Check("R-SHAPE", "checkColumnValuesAgainstLimit is total: missing and different fail inside the loop over the whole limit; nil only after the loop", 4, func(o *an.O) {
		totalRule(o, "(*DB).checkColumnValuesAgainstLimit")
		// the value compared is values[i] of the column whose name matched (same index)
		fn := c.NeedFunc(sg, "(*DB).checkColumnValuesAgainstLimit")
		okIdx := false
		an.Instrs(fn, func(i ssa.Instruction) {
			ia, ok := i.(*ssa.IndexAddr)
			if !ok || ia.X != ssa.Value(fn.Params[2]) {
				return
			}
			// guarded by columns[idx] == k with the same idx
			for _, g := range an.GuardsOf(i.Block()) {
				if bo, ok := g.Cond.(*ssa.BinOp); ok && bo.Op == token.EQL && g.Polarity {
					if ld, ok := bo.X.(*ssa.UnOp); ok {
						if ca, ok := ld.X.(*ssa.IndexAddr); ok && ca.X == ssa.Value(fn.Params[1]) && ca.Index == ia.Index {
							okIdx = true
						}
					}
				}
			}
		})
		if !okIdx {
			o.Fail(p.Pos(fn.Pos()), "the value compared with the limit is not values[i] of the column whose name matched (columns[i] == k with the same i)")
		}
	})

	wrapperRule := func(o *an.O, name, inner string) {
		fn := c.NeedFunc(sg, name)
		calls := an.Calls(fn, an.Mod(sg, "DB", inner))
		if len(calls) != 2 {
			o.Fail(p.Pos(fn.Pos()), "%s: expected a shard-limit and a dynamic-limit call of %s, found %d", name, inner, len(calls))
			return
		}
		var shard, dyn ssa.Instruction
		for _, call := range calls {
			last := an.CallOf(call).Args[len(an.CallOf(call).Args)-1]
			if an.IsFieldAccess(last, "DB", "shardLimit") {
				shard = call
			} else {
				dyn = call
			}
		}
		if shard == nil || dyn == nil {
			o.Fail(p.Pos(fn.Pos()), "%s: cannot tell the shard-limit check from the dynamic one", name)
			return
		}
		o.Site(shard)
		o.Site(dyn)
		// the checked values are the wrapper's own parameters
		for _, call := range calls {
			args := an.CallOf(call).Args
			for k := 1; k < len(args)-1; k++ {
				isParam := false
				for _, pa := range fn.Params {
					if args[k] == ssa.Value(pa) {
						isParam = true
					}
				}
				if !isParam {
					o.FailAt(call, "%s checks %s instead of its own argument", name, an.Expr(args[k]))
				}
			}
		}
		// shard: executed whenever shardLimit != nil
		blk := an.NewBlocker(shard)
		for _, ci := range an.CondIfs(fn, func(v ssa.Value) bool { return strings.HasSuffix(an.Expr(v), ".shardLimit != nil)") }) {
			blk.AddEdge(ci.If.Block(), ci.False)
		}
		if e := an.ReachableAvoiding(fn, nil, blk, an.Exits(fn, false)); e != nil {
			o.FailAt(e, "%s can return without running the shard-limit check although a shard limit is set", name)
		}
		// shard failure: every reachable return is non-nil
		b2 := an.NewBlocker()
		for _, ev := range an.ErrResult(shard.(ssa.Value)) {
			for _, nt := range an.NilTests(fn, ev) {
				b2.AddEdge(nt.If.Block(), nt.NilSucc)
			}
		}
		if len(b2.Edge) == 0 {
			o.FailAt(shard, "%s ignores the result of the shard-limit check", name)
		}
		for e := range an.Reach(fn, shard, b2) {
			if ret, ok := e.(*ssa.Return); ok && isConstNil(ret.Results[0]) {
				o.FailAt(e, "%s returns nil although the shard-limit check failed", name)
			}
		}
		// dynamic failure: nil only if ShouldContinueOnError said to continue
		b3 := an.NewBlocker()
		for _, ev := range an.ErrResult(dyn.(ssa.Value)) {
			for _, nt := range an.NilTests(fn, ev) {
				b3.AddEdge(nt.If.Block(), nt.NilSucc)
			}
		}
		nk := 0
		for _, ci := range an.CondIfs(fn, func(v ssa.Value) bool { return strings.Contains(an.Expr(v), "ShouldContinueOnError(") }) {
			b3.AddEdge(ci.If.Block(), ci.True) // keepGoing
			nk++
		}
		if len(b3.Edge)-nk == 0 {
			o.FailAt(dyn, "%s ignores the result of the dynamic-limit check", name)
		}
		for e := range an.Reach(fn, dyn, b3) {
			if ret, ok := e.(*ssa.Return); ok && isConstNil(ret.Results[0]) {
				o.FailAt(e, "%s returns nil although the dynamic-limit check failed and the callback did not ask to continue", name)
			}
		}
	}
	c.Check("R-ERR", "checkFilterAgainstLimits: shard failure always returns an error; dynamic failure unless ShouldContinueOnError", 2, func(o *an.O) {
		wrapperRule(o, "(*DB).checkFilterAgainstLimits", "checkFilterAgainstLimit")
	})
	c.Check("R-ERR", "checkColumnValuesAgainstLimits: shard failure always returns an error; dynamic failure unless ShouldContinueOnError", 2, func(o *an.O) {
		wrapperRule(o, "(*DB).checkColumnValuesAgainstLimits", "checkColumnValuesAgainstLimit")
	})

	c.Check("R-POST", "the statement that is sent carries the filter that was checked: SelectOptions.IncludeFilter never returns success without having rendered the filter it was given into the options' WHERE clause (no 'already included' shortcut: the options value may have been used with another filter)", 1, func(o *an.O) {
		fn := c.NeedFunc(sg, "(*SelectOptions).IncludeFilter")
		var filterParam ssa.Value
		for _, prm := range fn.Params {
			if n := an.NamedOf(prm.Type()); n != nil && n.Obj().Name() == "Filter" {
				filterParam = prm
			}
		}
		an.Need(filterParam != nil, "Filter parameter of IncludeFilter")
		var renders []ssa.Instruction
		for _, g := range an.WithAnons(fn) {
			an.Instrs(g, func(i ssa.Instruction) {
				if cc := an.CallOf(i); cc != nil && g == fn {
					for _, a := range cc.Args {
						if a == filterParam {
							renders = append(renders, i)
						}
					}
				}
			})
		}
		if len(renders) == 0 {
			o.Fail(p.Pos(fn.Pos()), "IncludeFilter never looks at the filter it is given")
			return
		}
		for _, r := range renders {
			o.Site(r)
		}
		first := fn.Blocks[0].Instrs[0]
		for _, r := range renders {
			if r == first {
				return // the very first thing the function does
			}
		}
		reach := an.Reach(fn, first, an.NewBlocker(renders...))
		reach[first] = true
		for i := range reach {
			ret, ok := i.(*ssa.Return)
			if !ok || len(ret.Results) == 0 {
				continue
			}
			if isConstNil(an.ResultAt(ret, len(ret.Results)-1)) {
				o.FailAt(ret, "IncludeFilter can report success without rendering the filter it was given: the WHERE clause that is sent then comes from an earlier use of the same options value, while the limit check looked at this call's filter")
			}
		}
	})

	c.Check("R-SHAPE", "bulk writers cover every row: the chunk loop of InsertRows / UpsertRows starts at row 0, runs while the position is below len(rows), and each chunk begins at the loop position (a row outside every chunk is neither checked against the limits nor written, and the call still reports success)", 2, func(o *an.O) {
		for _, nm := range []string{"(*DB).InsertRows", "(*DB).UpsertRows"} {
			fn := c.NeedFunc(sg, nm)
			var chunks []*ssa.Slice
			an.Instrs(fn, func(i ssa.Instruction) {
				sl, ok := i.(*ssa.Slice)
				if !ok || an.LoopHeaderOf(i) == nil {
					return
				}
				if st, ok := sl.X.Type().Underlying().(*types.Slice); !ok || !types.IsInterface(st.Elem()) {
					return
				}
				if _, isMake := sl.X.(*ssa.MakeSlice); !isMake {
					if call, ok := sl.X.(*ssa.Call); !ok || call.Call.StaticCallee() == nil {
						return
					}
				}
				chunks = append(chunks, sl)
			})
			if len(chunks) == 0 {
				o.Fail(p.Pos(fn.Pos()), "%s: no chunk of the rows is taken inside a loop", nm)
				continue
			}
			for _, sl := range chunks {
				o.Site(sl)
				phi, ok := sl.Low.(*ssa.Phi)
				if !ok {
					o.FailAt(sl, "%s: a chunk starts at %s, not at the chunk loop's position", nm, an.Expr(sl.Low))
					continue
				}
				startsAtZero, advances := false, false
				for _, e := range phi.Edges {
					if n, ok := an.ConstInt(e); ok {
						startsAtZero = n == 0
						continue
					}
					if bo, ok := e.(*ssa.BinOp); ok && bo.Op == token.ADD && (bo.X == ssa.Value(phi) || bo.Y == ssa.Value(phi)) {
						advances = true
					}
				}
				cond := false
				if iff, ok := phi.Block().Instrs[len(phi.Block().Instrs)-1].(*ssa.If); ok {
					if cmp, ok := iff.Cond.(*ssa.BinOp); ok && cmp.Op == token.LSS && cmp.X == ssa.Value(phi) {
						if call, ok := cmp.Y.(*ssa.Call); ok {
							if b, ok := call.Call.Value.(*ssa.Builtin); ok && b.Name() == "len" && call.Call.Args[0] == sl.X {
								cond = true
							}
						}
					}
				}
				if !startsAtZero || !advances || !cond {
					o.FailAt(sl, "%s: the chunk loop does not run over all rows (starts at 0: %v, advances: %v, continues while position < len(rows): %v): rows outside the chunks are silently neither checked nor written", nm, startsAtZero, advances, cond)
				}
			}
		}
	})

	c.Check("R-WHO", "the raw connection (DB.Conn, QueryExecer), batchFetch and the limit fields are used only by the allow-listed functions", 15, func(o *an.O) {
		allowConn := map[string]string{
			"sqlgen.NewDB": "constructor stores the connection",
			// (batchFetch.Many itself is allowed by role, see isBatchMany: it runs the combined SELECT
			// after the filters were checked before Invoke)
			"sqlgen.(*DB).WithTx":            "BeginTx sends no table statement; context key",
			"sqlgen.(*DB).WithExistingTx":    "context key only",
			"sqlgen.(*DB).HasTx":             "context key only",
			"sqlgen.(*DB).QueryExecer":       "documented escape hatch returning the handle (callers listed separately)",
			"livesql.NewBinlog":              "hands the connection to NewBinlogWithSource: server variables / binlog position only",
			"livesql.(*Binlog).getColumnMap": "information_schema column lookup for binlog decoding",
			"livesql.(*LiveDB).Close":        "closes the connection",
		}
		allowExecer := map[string]string{
			"sqlgen.(*DB).BaseQuery": "after checkFilterAgainstLimits", "sqlgen.(*DB).Count": "after checkFilterAgainstLimits",
			"sqlgen.(*DB).execWithTrace": "callers check first", "sqlgen.(*DB).runExplainQuery": "EXPLAIN of a checked query",
		}
		allowBatch := map[string]string{"sqlgen.NewDB": "constructor", "sqlgen.(*DB).BaseQuery": "after checkFilterAgainstLimits"}
		allowLimit := map[string]string{
			"sqlgen.(*DB).WithShardLimit": "sets the limit on a copy", "sqlgen.(*DB).WithDynamicLimit": "sets the limit on a copy",
			"sqlgen.(*DB).checkFilterAgainstLimits": "reads", "sqlgen.(*DB).checkColumnValuesAgainstLimits": "reads",
		}
		for _, fn := range p.ModuleFuncs(nil) {
			full := an.RelPkg(fn) + "." + an.QualName(fn)
			for _, r := range an.FieldRefs(fn, sgPath(), "DB", "Conn") {
				o.Site(r.Instr)
				if !isBatchMany(fn) && !p.AllowedFunc(fn, func(f *ssa.Function) bool { _, ok := allowConn[an.RelPkg(f)+"."+an.QualName(f)]; return ok }) {
					o.FailAt(r.Instr, "%s uses DB.Conn directly: statements sent this way bypass the shard-limit checks", full)
				}
			}
			for _, i := range an.CallsAny(fn, an.Mod(sg, "DB", "QueryExecer")) {
				o.Site(i)
				if !p.AllowedFunc(fn, func(f *ssa.Function) bool { _, ok := allowExecer[an.RelPkg(f)+"."+an.QualName(f)]; return ok }) {
					o.FailAt(i, "%s obtains the raw QueryExecer: statements sent this way bypass the shard-limit checks", full)
				}
			}
			for _, r := range an.FieldRefs(fn, sgPath(), "DB", "batchFetch") {
				o.Site(r.Instr)
				if !p.AllowedFunc(fn, func(f *ssa.Function) bool { _, ok := allowBatch[an.RelPkg(f)+"."+an.QualName(f)]; return ok }) {
					o.FailAt(r.Instr, "%s uses DB.batchFetch", full)
				}
			}
			for _, f := range []string{"shardLimit", "dynamicLimit"} {
				for _, r := range an.FieldRefs(fn, sgPath(), "DB", f) {
					o.Site(r.Instr)
					listed := p.AllowedFunc(fn, func(f *ssa.Function) bool { _, ok := allowLimit[an.RelPkg(f)+"."+an.QualName(f)]; return ok })
					switch {
					case (r.Kind == "load" || (r.Kind == "addr" && onlyReadThrough(r.Instr))) && an.RelPkg(fn) == sg:
						// reading the limit inside the package is harmless
					case !listed:
						o.FailAt(r.Instr, "%s touches DB.%s", full, f)
					case r.Kind != "load" && !(r.Kind == "addr" && onlyReadThrough(r.Instr)) && !strings.Contains(full, "With"):
						o.FailAt(r.Instr, "%s overwrites DB.%s", full, f)
					}
				}
			}
		}
		// limits can only be added, never replaced: WithShardLimit refuses when one is set and writes to a copy
		ws := c.NeedFunc(sg, "(*DB).WithShardLimit")
		for _, r := range an.FieldRefs(ws, sgPath(), "DB", "shardLimit") {
			if r.Kind == "store" {
				if an.PathOf(r.Addr) == ws.Params[0].Name()+".shardLimit" {
					o.FailAt(r.Instr, "WithShardLimit modifies the receiver instead of a copy")
				}
				if !an.HasGuard(r.Instr.Block(), "("+ws.Params[0].Name()+".shardLimit == nil)") && !an.HasGuard(r.Instr.Block(), "!("+ws.Params[0].Name()+".shardLimit != nil)") {
					o.FailAt(r.Instr, "WithShardLimit can replace an existing shard limit (guards %v)", an.GuardStrings(r.Instr.Block()))
				}
			}
		}
		var keys []string
		for k := range allowConn {
			keys = append(keys, k)
		}
		sort.Strings(keys)
		o.Note("allow-list: %s", strings.Join(keys, ", "))
	})

	c.Check("R-PROV", "WithShardLimit / WithDynamicLimit return a whole copy of the receiver with one limit added: a limit that is already set is carried over to the derived handle", 2, func(o *an.O) {
		for _, nm := range []string{"(*DB).WithShardLimit", "(*DB).WithDynamicLimit"} {
			fn := c.NeedFunc(sg, nm)
			recv := ssa.Value(fn.Params[0])
			for _, e := range an.Exits(fn, false) {
				ret, ok := e.(*ssa.Return)
				if !ok || len(ret.Results) != 2 || !isConstNil(an.ResultAt(ret, 1)) {
					continue
				}
				o.Site(e)
				al, ok := an.StripConv(an.ResultAt(ret, 0)).(*ssa.Alloc)
				if !ok {
					o.FailAt(e, "%s returns %s, not a fresh copy of the receiver", nm, an.Short(an.Expr(ret.Results[0]), 50))
					continue
				}
				// the copy is initialised with *db as a whole ...
				whole := false
				copied := map[string]bool{}
				for _, r := range *al.Referrers() {
					switch x := r.(type) {
					case *ssa.Store:
						if x.Addr == ssa.Value(al) {
							if ld, ok := x.Val.(*ssa.UnOp); ok && ld.Op == token.MUL && ld.X == recv {
								whole = true
							}
						}
					case *ssa.FieldAddr:
						for _, r2 := range *x.Referrers() {
							if st, ok := r2.(*ssa.Store); ok && st.Addr == ssa.Value(x) {
								copied[an.FieldName(x.X.Type(), x.Field)] = true
							}
						}
					}
				}
				if whole {
					continue
				}
				// ... or field by field, and then both limits must be among the fields carried over
				for _, f := range []string{"shardLimit", "dynamicLimit", "Conn", "Schema"} {
					if !copied[f] {
						o.FailAt(e, "%s builds the derived handle field by field and does not carry over %s: a handle that already had that limit (or connection / schema) loses it - statements on the derived handle are no longer confined", nm, f)
					}
				}
			}
		}
	})

	c.Check("R-GUARD", "BaseQuery batches only without options, outside a transaction, with batching on the context; batchFetch shards by table", 2, func(o *an.O) {
		fn := c.NeedFunc(sg, "(*DB).BaseQuery")
		n := 0
		an.Instrs(fn, func(i ssa.Instruction) {
			cc := an.CallOf(i)
			if cc == nil || !isStmtSink(cc) || cc.IsInvoke() || an.CalleeFunc(cc).Name() != "Invoke" {
				return
			}
			n++
			o.Site(i)
			gs := strings.Join(an.GuardStrings(i.Block()), " ; ")
			for _, want := range []string{".Options == nil)", ".HasTx(", "batch.HasBatching("} {
				if !strings.Contains(gs, want) {
					o.FailAt(i, "the batched path is taken without the %s condition (guards: %s)", want, gs)
				}
			}
			if m := regexp.MustCompile(`(!?)[A-Za-z_][A-Za-z0-9_]*\.HasTx\(`).FindStringSubmatch(gs); m != nil && m[1] != "!" {
				o.FailAt(i, "the batched path is taken inside a transaction (it would read outside the transaction's snapshot)")
			}
		})
		if n != 1 {
			o.Fail(p.Pos(fn.Pos()), "expected one batchFetch.Invoke in BaseQuery, found %d", n)
		}
		nd := c.NeedFunc(sg, "NewDB")
		okShard := false
		for _, l := range an.StructLits(nd, "Func") {
			if sh := an.ClosureArg(l.Fields["Shard"]); sh != nil {
				for _, e := range an.Exits(sh, false) {
					if strings.HasSuffix(an.Expr(e.(*ssa.Return).Results[0]), ".Table") {
						okShard = true
						o.Site(e)
					}
				}
			}
		}
		if !okShard {
			o.Fail(p.Pos(nd.Pos()), "batchFetch.Shard does not return the query's table: selects on different tables would be combined")
		}
	})
}

func blockInLoop(b, hdr *ssa.BasicBlock) bool {
	if !hdr.Dominates(b) {
		return false
	}
	// b can reach hdr
	seen := map[*ssa.BasicBlock]bool{}
	work := []*ssa.BasicBlock{b}
	for len(work) > 0 {
		x := work[len(work)-1]
		work = work[:len(work)-1]
		if seen[x] {
			continue
		}
		seen[x] = true
		for _, s := range x.Succs {
			if s == hdr {
				return true
			}
			work = append(work, s)
		}
	}
	return false
}

func isReturnNil(fn *ssa.Function, b *ssa.BasicBlock) bool {
	if len(b.Instrs) == 0 {
		return false
	}
	ret, ok := b.Instrs[len(b.Instrs)-1].(*ssa.Return)
	return ok && len(ret.Results) > 0 && isConstNil(ret.Results[len(ret.Results)-1])
}

// loopCheckShape verifies the per-row check loop of the bulk writers.
func loopCheckShape(fn *ssa.Function, chk ssa.Instruction, h *ssa.BasicBlock) bool {
	// (a) from the check, the header is reachable only through the success edge
	blk := an.NewBlocker()
	if an.BlockSuccessEdges(fn, blk, []ssa.Instruction{chk}) == 0 {
		return false
	}
	if an.Reach(fn, chk, blk)[h.Instrs[0]] {
		return false
	}
	// (b) the body cannot reach the header without passing the check
	var body *ssa.BasicBlock
	iff, ok := h.Instrs[len(h.Instrs)-1].(*ssa.If)
	if !ok {
		return false
	}
	body = h.Succs[0]
	if an.Reach(fn, body.Instrs[0], an.NewBlocker(chk))[h.Instrs[0]] || body.Instrs[0] == chk {
		if body.Instrs[0] != chk {
			return false
		}
	}
	// (c) the loop visits i = 0, 1, ... below len(chunk) (range or counting form)
	bo, ok := iff.Cond.(*ssa.BinOp)
	if !ok || bo.Op != token.LSS || !an.IsRangeIndex(bo.X) {
		return false
	}
	idx := bo.X
	chunk := an.LoopSliceOf(idx)
	if chunk == nil {
		return false
	}
	// the query comes from MakeBatch*Row(chunk)
	cc := an.CallOf(chk)
	q := an.StripConv(cc.Args[2])
	ex, ok := q.(*ssa.Extract)
	if !ok {
		return false
	}
	mk, ok := ex.Tuple.(*ssa.Call)
	if !ok || !strings.HasPrefix(an.CalleeFunc(mk.Common()).Name(), "MakeBatch") || mk.Call.Args[len(mk.Call.Args)-1] != chunk {
		return false
	}
	// values argument: q.Values[i*n:(i+1)*n], n = len(q.Columns)
	sl, ok := cc.Args[4].(*ssa.Slice)
	if !ok {
		return false
	}
	fieldOfQ := func(v ssa.Value, field string) bool {
		ld, ok := v.(*ssa.UnOp)
		if !ok {
			return false
		}
		fa, ok := ld.X.(*ssa.FieldAddr)
		return ok && fa.X == q && an.FieldName(fa.X.Type(), fa.Field) == field
	}
	if !fieldOfQ(sl.X, "Values") || !fieldOfQ(cc.Args[3], "Columns") {
		return false
	}
	isN := func(v ssa.Value) bool {
		call, ok := v.(*ssa.Call)
		if !ok {
			return false
		}
		b, ok := call.Call.Value.(*ssa.Builtin)
		return ok && b.Name() == "len" && fieldOfQ(call.Call.Args[0], "Columns")
	}
	// window bounds as polynomials c1 + ci*i + cn*n + cin*i*n over the loop index i and n = len(q.Columns)
	type poly struct{ c1, ci, cn, cin int64 }
	var lin func(v ssa.Value, d int) (poly, bool)
	lin = func(v ssa.Value, d int) (poly, bool) {
		if d > 6 {
			return poly{}, false
		}
		if v == idx {
			return poly{ci: 1}, true
		}
		if isN(v) {
			return poly{cn: 1}, true
		}
		if c, ok := an.ConstInt(v); ok {
			return poly{c1: c}, true
		}
		b, ok := v.(*ssa.BinOp)
		if !ok {
			return poly{}, false
		}
		x, okx := lin(b.X, d+1)
		y, oky := lin(b.Y, d+1)
		if !okx || !oky {
			return poly{}, false
		}
		switch b.Op {
		case token.ADD:
			return poly{x.c1 + y.c1, x.ci + y.ci, x.cn + y.cn, x.cin + y.cin}, true
		case token.SUB:
			return poly{x.c1 - y.c1, x.ci - y.ci, x.cn - y.cn, x.cin - y.cin}, true
		case token.MUL:
			// terms outside the basis (i*i, n*n, i*n*anything) are not representable
			if x.ci*y.ci != 0 || x.cn*y.cn != 0 || x.cin*(y.ci+y.cn+y.cin) != 0 || y.cin*(x.ci+x.cn+x.cin) != 0 {
				return poly{}, false
			}
			return poly{
				c1:  x.c1 * y.c1,
				ci:  x.c1*y.ci + x.ci*y.c1,
				cn:  x.c1*y.cn + x.cn*y.c1,
				cin: x.c1*y.cin + x.cin*y.c1 + x.ci*y.cn + x.cn*y.ci,
			}, true
		}
		return poly{}, false
	}
	lo, ok1 := lin(sl.Low, 0)
	hi, ok2 := lin(sl.High, 0)
	return ok1 && ok2 && lo == poly{cin: 1} && hi == poly{cn: 1, cin: 1}
}

// ancestors walks backwards from v through extracts, calls (receiver and
// arguments), loads, field addresses and conversions.
func ancestors(v ssa.Value) map[ssa.Value]bool {
	seen := map[ssa.Value]bool{}
	var walk func(x ssa.Value, d int)
	walk = func(x ssa.Value, d int) {
		if x == nil || seen[x] || d > 8 {
			return
		}
		seen[x] = true
		switch y := x.(type) {
		case *ssa.Extract:
			walk(y.Tuple, d+1)
		case *ssa.Call:
			if y.Call.IsInvoke() {
				walk(y.Call.Value, d+1)
			}
			for _, a := range y.Call.Args {
				walk(a, d+1)
			}
		case *ssa.UnOp:
			walk(y.X, d+1)
		case *ssa.FieldAddr:
			walk(y.X, d+1)
		case *ssa.ChangeInterface:
			walk(y.X, d+1)
		case *ssa.MakeInterface:
			walk(y.X, d+1)
		case *ssa.ChangeType:
			walk(y.X, d+1)
		case *ssa.Phi:
			for _, e := range y.Edges {
				walk(e, d+1)
			}
		}
	}
	walk(v, 0)
	delete(seen, v)
	return seen
}

// roots walks x backwards through loads, field selections, slicing and append
// to the values it is taken from.
func roots(x ssa.Value) []ssa.Value {
	var out []ssa.Value
	seen := map[ssa.Value]bool{}
	var walk func(v ssa.Value)
	walk = func(v ssa.Value) {
		if v == nil || seen[v] {
			return
		}
		seen[v] = true
		switch y := v.(type) {
		case *ssa.UnOp:
			walk(y.X)
		case *ssa.FieldAddr:
			walk(y.X)
		case *ssa.Field:
			walk(y.X)
		case *ssa.Slice:
			walk(y.X)
		case *ssa.ChangeType:
			walk(y.X)
		case *ssa.MakeInterface:
			walk(y.X)
		case *ssa.Call:
			if b, ok := y.Call.Value.(*ssa.Builtin); ok && b.Name() == "append" {
				walk(y.Call.Args[0])
				walk(y.Call.Args[1])
				return
			}
			out = append(out, v)
		default:
			out = append(out, v)
		}
	}
	walk(x)
	return out
}

// onlyReadThrough: instruction i takes the address of a (nested) field and that
// address is only ever loaded from.
func onlyReadThrough(i ssa.Instruction) bool {
	fa, ok := i.(*ssa.FieldAddr)
	if !ok {
		return false
	}
	for _, r := range *fa.Referrers() {
		switch x := r.(type) {
		case *ssa.UnOp:
		case *ssa.FieldAddr:
			if !onlyReadThrough(x) {
				return false
			}
		case *ssa.DebugRef:
		default:
			return false
		}
	}
	return true
}
