package props

import (
	"go/token"
	"go/types"
	"strings"

	"golang.org/x/tools/go/ssa"

	"thunderlint/internal/an"
)

func init() {
	register("C05", "Decides the structural basis of batch.Func.Invoke on every path: the caller's slot `index` is len(bg.args) read in the critical section (batchContext.mu) that contains the single append of arg (or len-1 read after it), and the value returned is bg.result[index] with that same SSA value, only after bg.err was tested; Func.Many is invoked only through safeInvoke, only by the creator of the group, and only after the group was removed from pendingBatchGroups under the lock (so nobody can join a batch whose arguments were handed out); the MaxSize test closes maxSizeCh and unpublishes the group in the section that appended; every access to pendingBatchGroups holds the lock and uses the key built from f and f.Shard(arg); close(doneCh) lies on every creator path after the select, which has arms for both timers, ctx.Done() and maxSizeCh; safeInvoke recovers panics into err and rejects wrong-length results; joiners wait only on doneCh. Not decided: timer semantics (WaitInterval reset), 'exactly once unless cancelled' as a liveness statement.", c05)
}

func c05(c *an.Ctx) {
	p := c.P
	const bp = "batch"
	invoke := func() *ssa.Function { return c.NeedFunc(bp, "(*Func).Invoke") }
	bgField := func(v ssa.Value, f string) bool { return an.IsFieldAccess(v, "batchGroup", f) }

	c.Check("R-PROV+R-LOCK", "Invoke: index is the position of arg in bg.args, taken in the critical section of the single append; result read with the same value after the err test", 4, func(o *an.O) {
		fn := invoke()
		ls := an.ComputeLocks(fn, nil)
		arg := fn.Params[2]
		// the append of arg to bg.args
		var appends []*ssa.Call
		var storesArgs []ssa.Instruction
		for _, r := range an.FieldRefs(fn, "", "batchGroup", "args") {
			if r.Kind == "store" {
				storesArgs = append(storesArgs, r.Instr)
			}
		}
		an.Instrs(fn, func(i ssa.Instruction) {
			if call, ok := i.(*ssa.Call); ok {
				if b, ok := call.Call.Value.(*ssa.Builtin); ok && b.Name() == "append" && bgField(call.Call.Args[0], "args") {
					appends = append(appends, call)
				}
			}
		})
		if len(appends) != 1 || len(storesArgs) != 1 {
			o.Fail(p.Pos(fn.Pos()), "expected exactly one append to bg.args and one store of it, found %d/%d", len(appends), len(storesArgs))
			return
		}
		app := appends[0]
		o.Site(app)
		// appended element is arg
		if !sliceOfSingle(app.Call.Args[1], arg) {
			o.FailAt(app, "the value appended to bg.args is not the caller's arg")
		}
		if storesArgs[0].(*ssa.Store).Val != ssa.Value(app) {
			o.FailAt(storesArgs[0], "bg.args is assigned something other than append(bg.args, arg)")
		}
		mu, held := ls.HeldField(app, "batchContext", "mu")
		if !held {
			o.FailAt(app, "append to bg.args without batchContext.mu")
			return
		}
		// the final result read
		var resIdx *ssa.IndexAddr
		an.Instrs(fn, func(i ssa.Instruction) {
			if ia, ok := i.(*ssa.IndexAddr); ok && bgField(ia.X, "result") {
				if resIdx != nil {
					o.FailAt(i, "more than one read of bg.result[...]")
				}
				resIdx = ia
			}
		})
		if resIdx == nil {
			o.Fail(p.Pos(fn.Pos()), "Invoke does not return bg.result[index]")
			return
		}
		o.Site(resIdx)
		idx := resIdx.Index
		// idx must be len(bg.args) read before the append, or len(bg.args)-1 read after it, in the same section
		var lenCall *ssa.Call
		after := false
		switch v := idx.(type) {
		case *ssa.Call:
			lenCall = v
		case *ssa.BinOp:
			if n, ok := an.ConstInt(v.Y); ok && n == 1 && v.Op == token.SUB {
				lenCall, _ = v.X.(*ssa.Call)
				after = true
			}
		}
		okLen := false
		if lenCall != nil {
			if b, ok := lenCall.Call.Value.(*ssa.Builtin); ok && b.Name() == "len" && bgField(lenCall.Call.Args[0], "args") {
				okLen = true
			}
		}
		if !okLen {
			o.FailAt(resIdx, "bg.result is indexed by %s, which is not len(bg.args) taken at the append (another caller's result would be returned)", an.Expr(idx))
			return
		}
		o.Site(lenCall)
		if !ls.Held(lenCall, mu) || !ls.SameSection(lenCall, app, mu) {
			o.FailAt(lenCall, "len(bg.args) is not read in the critical section that appends arg: another caller can append in between")
		}
		reachFromLen := an.Reach(fn, lenCall, nil)
		reachFromApp := an.Reach(fn, app, nil)
		if !after && (!reachFromLen[app] || reachFromApp[lenCall]) {
			o.FailAt(lenCall, "index = len(bg.args) must be read before the append")
		}
		if after && (!reachFromApp[lenCall] || reachFromLen[app]) {
			o.FailAt(lenCall, "index = len(bg.args)-1 must be read after the append")
		}
		// result read only after bg.err tested nil
		blk := an.NewBlocker()
		n := 0
		for _, ci := range an.CondIfs(fn, func(v ssa.Value) bool {
			bo, ok := v.(*ssa.BinOp)
			return ok && (bo.Op == token.NEQ || bo.Op == token.EQL) && bgField(bo.X, "err") && isConstNil(bo.Y)
		}) {
			n++
			if ci.If.Cond.(*ssa.BinOp).Op == token.NEQ {
				blk.AddEdge(ci.If.Block(), ci.False)
			} else {
				blk.AddEdge(ci.If.Block(), ci.True)
			}
			o.Site(ci.If)
		}
		if n == 0 || an.Reach(fn, nil, blk)[resIdx] {
			o.FailAt(resIdx, "bg.result[index] is read without bg.err having been tested (result may be nil/short when the batch failed)")
		}
	})

	c.Check("R-WHO+R-DOM", "Func.Many runs only via safeInvoke in Invoke, on the creator path, after the group was unpublished under the lock", 2, func(o *an.O) {
		fn := invoke()
		ls := an.ComputeLocks(fn, nil)
		// who reads Func.Many
		for _, f := range p.ModuleFuncs(nil) {
			for _, r := range an.FieldRefs(f, an.ModulePath+"/batch", "Func", "Many") {
				if r.Kind == "store" {
					continue // configuration by users of the package
				}
				// loads: only as the argument of safeInvoke in Invoke
				okUse := false
				if f == fn {
					if refs := r.Instr.(ssa.Value).Referrers(); refs != nil {
						okUse = len(*refs) > 0
						for _, u := range *refs {
							cc := an.CallOf(u)
							if cc == nil || !an.Mod(bp, "", "safeInvoke").Matches(cc) {
								if _, isDbg := u.(*ssa.DebugRef); !isDbg {
									okUse = false
								}
							}
						}
					}
				}
				o.Site(r.Instr)
				if !okUse {
					o.FailAt(r.Instr, "%s.%s uses Func.Many other than by handing it to safeInvoke in Invoke: a batch function could run outside the once-per-group protocol or without panic recovery", an.RelPkg(f), an.QualName(f))
				}
			}
			if an.RelPkg(f) == bp && f != fn {
				for _, i := range an.CallsAny(f, an.Mod(bp, "", "safeInvoke")) {
					o.FailAt(i, "safeInvoke called outside Invoke")
				}
			}
		}
		sis := an.CallsAny(fn, an.Mod(bp, "", "safeInvoke"))
		if len(sis) != 1 {
			o.Fail(p.Pos(fn.Pos()), "expected exactly one safeInvoke call in Invoke, found %d", len(sis))
			return
		}
		si := sis[0]
		o.Site(si)
		if _, ok := si.(*ssa.Call); !ok {
			o.FailAt(si, "safeInvoke must be called synchronously")
		}
		cc := an.CallOf(si)
		okMany, okArgs := false, false
		for _, a := range cc.Args { // whatever the parameter order of safeInvoke
			if an.IsFieldAccess(a, "Func", "Many") {
				okMany = true
			}
			if bgField(a, "args") {
				okArgs = true
			}
		}
		if !okMany || !okArgs {
			o.FailAt(si, "safeInvoke is not given (f.Many, bg.args)")
		}
		if an.InCycle(fn, si) {
			o.FailAt(si, "safeInvoke can run more than once per Invoke")
		}
		// creator path only: guarded by !existed
		okCreator := false
		for _, g := range an.GuardsOf(si.Block()) {
			if ex, ok := g.Cond.(*ssa.Extract); ok && !g.Polarity && ex.Index == 1 {
				if lk, ok := ex.Tuple.(*ssa.Lookup); ok && an.IsFieldAccess(lk.X, "batchContext", "pendingBatchGroups") {
					okCreator = true
				}
			}
		}
		if !okCreator {
			o.FailAt(si, "safeInvoke is not restricted to the caller that created the group (guards %v): the batch would run once per caller", an.GuardStrings(si.Block()))
		}
		// unpublish before running: from the select, every path to safeInvoke passes a delete under the lock or the `!= bg` edge
		var sel ssa.Instruction
		an.Instrs(fn, func(i ssa.Instruction) {
			if _, ok := i.(*ssa.Select); ok {
				sel = i
			}
		})
		an.Need(sel != nil, "select in Invoke")
		blk := an.NewBlocker()
		for _, d := range pendingDeletes(fn) {
			if _, held := ls.HeldField(d, "batchContext", "mu"); held && an.Reach(fn, sel, nil)[d] {
				blk.Instr[d] = true
			}
		}
		for _, ci := range an.CondIfs(fn, func(v ssa.Value) bool {
			bo, ok := v.(*ssa.BinOp)
			if !ok || bo.Op != token.EQL {
				return false
			}
			isLk := func(x ssa.Value) bool {
				lk, ok := x.(*ssa.Lookup)
				return ok && an.IsFieldAccess(lk.X, "batchContext", "pendingBatchGroups")
			}
			return isLk(bo.X) || isLk(bo.Y)
		}) {
			if _, held := ls.HeldField(ci.If, "batchContext", "mu"); held {
				blk.AddEdge(ci.If.Block(), ci.False)
			}
		}
		for _, op := range an.ChanOps(fn) {
			if op.Kind == "close" && bgField(op.Chan, "doneCh") {
				o.Site(op.Instr)
				if an.Reach(fn, sel, blk)[op.Instr] {
					o.FailAt(op.Instr, "doneCh can be closed while the group is still published in pendingBatchGroups (e.g. on the cancelled path): later callers on a live context join the finished group, their argument is never handed to Func.Many and they get the dead group's error")
				}
			}
		}
		if an.Reach(fn, sel, blk)[si] {
			o.FailAt(si, "Func.Many can run while the group is still published in pendingBatchGroups: a later caller could join a batch whose arguments were already handed out and wait for a result that never contains its argument")
		}
	})

	c.Check("R-LOCK", "pendingBatchGroups: every access under batchContext.mu with the key {f, f.Shard(arg)}; MaxSize closes maxSizeCh and unpublishes in the appending section", 5, func(o *an.O) {
		fn := invoke()
		ls := an.ComputeLocks(fn, nil)
		// key literal
		var fsAlloc *ssa.Alloc
		an.Instrs(fn, func(i ssa.Instruction) {
			if a, ok := i.(*ssa.Alloc); ok {
				if n := an.NamedOf(a.Type()); n != nil && n.Obj().Name() == "funcShard" {
					fsAlloc = a
				}
			}
		})
		an.Need(fsAlloc != nil, "funcShard literal in Invoke")
		setF, setShard := false, false
		for _, r := range *fsAlloc.Referrers() {
			fa, ok := r.(*ssa.FieldAddr)
			if !ok {
				continue
			}
			for _, u := range *fa.Referrers() {
				st, ok := u.(*ssa.Store)
				if !ok {
					continue
				}
				switch an.FieldName(fa.X.Type(), fa.Field) {
				case "f":
					setF = st.Val == fn.Params[0]
				case "shard":
					// must derive from f.Shard(arg)
					s := an.Expr(st.Val)
					setShard = strings.Contains(s, "phi") || strings.Contains(s, "Shard")
					if phi, ok := st.Val.(*ssa.Phi); ok {
						setShard = false
						for _, e := range phi.Edges {
							if call, ok := an.StripConv(e).(*ssa.Call); ok && an.IsFieldAccess(call.Call.Value, "Func", "Shard") && len(call.Call.Args) == 1 && call.Call.Args[0] == fn.Params[2] {
								setShard = true
							}
						}
					}
				}
			}
		}
		o.Site(fsAlloc)
		if !setF || !setShard {
			o.FailAt(fsAlloc, "the pending-group key is not built from both f and f.Shard(arg) (f:%v shard:%v): batches of different functions or shards would mix", setF, setShard)
		}
		// all accesses
		nacc := 0
		for _, f := range p.ModuleFuncs(func(rel string) bool { return rel == bp }) {
			lsf := ls
			if f != fn {
				lsf = an.ComputeLocks(f, nil)
			}
			an.Instrs(f, func(i ssa.Instruction) {
				var m, key ssa.Value
				switch x := i.(type) {
				case *ssa.Lookup:
					m, key = x.X, x.Index
				case *ssa.MapUpdate:
					m, key = x.Map, x.Key
				case *ssa.Call:
					if b, ok := x.Call.Value.(*ssa.Builtin); ok && b.Name() == "delete" {
						m, key = x.Call.Args[0], x.Call.Args[1]
					}
				}
				if m == nil || !an.IsFieldAccess(m, "batchContext", "pendingBatchGroups") {
					return
				}
				nacc++
				o.Site(i)
				if _, held := lsf.HeldField(i, "batchContext", "mu"); !held {
					o.FailAt(i, "pendingBatchGroups accessed without batchContext.mu in %s", an.QualName(f))
				}
				if f == fn {
					if ld, ok := key.(*ssa.UnOp); !ok || ld.X != ssa.Value(fsAlloc) {
						o.FailAt(i, "pendingBatchGroups accessed with a key other than fs")
					}
				}
			})
		}
		if nacc < 4 {
			o.Fail(p.Pos(fn.Pos()), "expected lookup, insert and two deletes of pendingBatchGroups, found %d accesses", nacc)
		}
		// MaxSize: close(maxSizeCh) + delete guarded by len(bg.args) == f.MaxSize, in the section of the append
		var app ssa.Instruction
		an.Instrs(fn, func(i ssa.Instruction) {
			if call, ok := i.(*ssa.Call); ok {
				if b, ok := call.Call.Value.(*ssa.Builtin); ok && b.Name() == "append" && bgField(call.Call.Args[0], "args") {
					app = i
				}
			}
		})
		an.Need(app != nil, "append to bg.args")
		mu, _ := ls.HeldField(app, "batchContext", "mu")
		var closeMax ssa.Instruction
		for _, op := range an.ChanOps(fn) {
			if op.Kind == "close" && bgField(op.Chan, "maxSizeCh") {
				closeMax = op.Instr
			}
		}
		if closeMax == nil {
			o.Fail(p.Pos(fn.Pos()), "maxSizeCh is never closed: a full batch would keep accepting arguments until a timer fires")
			return
		}
		o.Site(closeMax)
		isLenArgs := func(x ssa.Value) bool {
			call, ok := x.(*ssa.Call)
			if !ok {
				return false
			}
			bi, ok := call.Call.Value.(*ssa.Builtin)
			return ok && bi.Name() == "len" && bgField(call.Call.Args[0], "args")
		}
		isMax := func(x ssa.Value) bool { return an.IsFieldAccess(x, "Func", "MaxSize") }
		// impliesFull: v being true implies len(bg.args) == f.MaxSize - the comparison itself, or a
		// boolean that was computed as `... && len(bg.args) == f.MaxSize` (a phi whose other
		// edges are the constant false)
		var impliesFull func(v ssa.Value, d int) bool
		impliesFull = func(v ssa.Value, d int) bool {
			if d > 4 {
				return false
			}
			switch x := v.(type) {
			case *ssa.BinOp:
				return x.Op == token.EQL && ((isLenArgs(x.X) && isMax(x.Y)) || (isLenArgs(x.Y) && isMax(x.X)))
			case *ssa.Phi:
				some := false
				for _, e := range x.Edges {
					if cst, ok := e.(*ssa.Const); ok && cst.Value != nil && cst.Value.String() == "false" {
						continue
					}
					if !impliesFull(e, d+1) {
						return false
					}
					some = true
				}
				return some
			}
			return false
		}
		isMaxTest := func(b *ssa.BasicBlock) bool {
			for _, g := range an.GuardsOf(b) {
				if g.Polarity && impliesFull(g.Cond, 0) {
					return true
				}
			}
			return false
		}
		if !isMaxTest(closeMax.Block()) {
			o.FailAt(closeMax, "maxSizeCh closed under guards %v, expected len(bg.args) == f.MaxSize", an.GuardStrings(closeMax.Block()))
		}
		if mu == "" || !ls.SameSection(app, closeMax, mu) {
			o.FailAt(closeMax, "the MaxSize test is not in the critical section that appended the argument: the batch can exceed MaxSize")
		}
		// a delete in the same block/section so that nobody joins a full group
		okDel := false
		for _, d := range pendingDeletes(fn) {
			if d.Block() == closeMax.Block() || (mu != "" && ls.SameSection(closeMax, d, mu) && isMaxTest(d.Block())) {
				okDel = true
			}
		}
		if !okDel {
			o.FailAt(closeMax, "a full group is not removed from pendingBatchGroups when MaxSize is hit: later callers would be added beyond MaxSize")
		}
	})

	c.Check("R-GUARD", "Invoke: the size trigger exists whenever it can be closed (both MaxSize tests pass every positive MaxSize, the size test compares len(bg.args) with MaxSize for equality); a cancelled leader publishes ctx.Err() as the group's error before closing doneCh", 4, func(o *an.O) {
		fn := c.NeedFunc(bp, "(*Func).Invoke")
		// every comparison of f.MaxSize with a constant
		nConst, nSize := 0, 0
		an.Instrs(fn, func(i ssa.Instruction) {
			bo, ok := i.(*ssa.BinOp)
			if !ok {
				return
			}
			isMax := func(v ssa.Value) bool { return an.IsFieldAccess(v, "Func", "MaxSize") }
			switch {
			case isMax(bo.X) || isMax(bo.Y):
				other, flipped := bo.Y, false
				if isMax(bo.Y) {
					other, flipped = bo.X, true
				}
				if n, ok := an.ConstInt(other); ok {
					nConst++
					o.Site(i)
					op := bo.Op
					if flipped {
						op = map[token.Token]token.Token{token.LSS: token.GTR, token.GTR: token.LSS, token.LEQ: token.GEQ, token.GEQ: token.LEQ}[op]
					}
					// evaluated, not matched: the test must let every positive MaxSize through (what it says
					// about MaxSize <= 0 does not matter: len(bg.args) >= 1 never equals such a MaxSize)
					okCmp := true
					for _, m := range []int64{1, 2, 3, 1000} {
						var holds bool
						switch op {
						case token.GTR:
							holds = m > n
						case token.GEQ:
							holds = m >= n
						case token.LSS:
							holds = m < n
						case token.LEQ:
							holds = m <= n
						case token.NEQ:
							holds = m != n
						case token.EQL:
							holds = m == n
						}
						if !holds {
							okCmp = false
						}
					}
					if !okCmp {
						o.FailAt(i, "f.MaxSize is tested with %s %d, which some positive MaxSize does not pass: the channel that signals a full batch must exist, and be closed, for every MaxSize > 0 (with MaxSize == 1 the first argument would close a nil channel, or the group would never be closed)", op, n)
					}
					return
				}
				// len(bg.args) vs MaxSize
				if call, ok := other.(*ssa.Call); ok {
					if b, ok := call.Call.Value.(*ssa.Builtin); ok && b.Name() == "len" && bgField(call.Call.Args[0], "args") {
						nSize++
						o.Site(i)
						if bo.Op != token.EQL && bo.Op != token.GEQ && bo.Op != token.LEQ {
							o.FailAt(i, "the batch-is-full test compares len(bg.args) with MaxSize using %s", bo.Op)
						}
					}
				}
			}
		})
		if nConst < 2 || nSize < 1 {
			o.Fail(p.Pos(fn.Pos()), "expected two MaxSize > 0 tests and one len(bg.args) == MaxSize test in Invoke (found %d/%d)", nConst, nSize)
		}
		// cancelled leader
		var closeDone ssa.Instruction
		for _, op := range an.ChanOps(fn) {
			if op.Kind == "close" && bgField(op.Chan, "doneCh") {
				closeDone = op.Instr
			}
		}
		an.Need(closeDone != nil, "close(bg.doneCh) in Invoke")
		n := 0
		for _, nt := range an.NilTestsWhere(fn, func(v ssa.Value) bool {
			call, ok := v.(*ssa.Call)
			return ok && call.Call.IsInvoke() && call.Call.Method.Name() == "Err"
		}) {
			if !an.Reach(fn, nt.NonNil.Instrs[0], an.NewBlocker())[closeDone] && nt.NonNil.Instrs[0] != closeDone {
				continue // the early test before the lock, not the leader's
			}
			n++
			o.Site(nt.If)
			blk := an.NewBlocker()
			an.Instrs(fn, func(i ssa.Instruction) {
				if st, ok := i.(*ssa.Store); ok {
					if fa, ok := st.Addr.(*ssa.FieldAddr); ok && an.FieldName(fa.X.Type(), fa.Field) == "err" && !isConstNil(st.Val) {
						blk.Instr[i] = true
					}
				}
			})
			if an.Reach(fn, nt.NonNil.Instrs[0], blk)[closeDone] {
				o.FailAt(nt.If, "a leader whose context is cancelled can close doneCh without having set the group's error: every caller of the group then indexes a nil result")
			}
		}
		if n == 0 {
			o.Fail(p.Pos(fn.Pos()), "the leader no longer tests ctx.Err() before running the batch")
		}
	})

	c.Check("R-LOCK", "Invoke never blocks (channel receive/send, blocking select, wait) and never runs user-supplied code (Shard, Many) while holding batchContext.mu", 2, func(o *an.O) {
		fn := invoke()
		ls := an.ComputeLocks(fn, nil)
		for _, f := range an.WithAnons(fn) {
			lsf := ls
			if f != fn {
				lsf = an.ComputeLocks(f, nil)
			}
			for _, op := range an.ChanOps(f) {
				if op.Kind == "close" || op.Kind == "len" || op.Kind == "cap" {
					continue
				}
				if sel, ok := op.Instr.(*ssa.Select); ok && !sel.Blocking {
					continue
				}
				o.Site(op.Instr)
				if _, held := lsf.HeldField(op.Instr, "batchContext", "mu"); held {
					o.FailAt(op.Instr, "Invoke blocks on a channel (%s %s) while holding batchContext.mu: if the awaited event was already consumed (e.g. the group's creator took the timer tick) every other caller of this batching context hangs behind the lock", op.Kind, an.Short(an.Expr(op.Chan), 40))
				}
			}
			// user-supplied code (Func.Shard, Func.Many called directly) never runs under the lock: it may
			// block, and a panic in it - recovered further up, as the graphql executor does - would leave
			// the mutex locked because Invoke unlocks explicitly
			for _, field := range []string{"Shard", "Many"} {
				for _, dc := range an.DynCallsThrough(f, "Func", field) {
					o.Site(dc)
					if _, held := lsf.HeldField(dc, "batchContext", "mu"); held {
						o.FailAt(dc, "Invoke calls the user-supplied Func.%s while holding batchContext.mu: if it panics the mutex stays locked (Invoke unlocks explicitly, not by defer) and every later or waiting caller of this batching context hangs", field)
					}
				}
			}
			for _, i := range an.CallsAny(f, an.CalleeSpec{Pkg: "sync", Recv: "WaitGroup", Name: "Wait"}, an.CalleeSpec{Pkg: "time", Name: "Sleep"}, an.Mod("concurrencylimiter", "", "TemporarilyRelease"), an.Mod("batch", "", "safeInvoke")) {
				o.Site(i)
				if _, held := lsf.HeldField(i, "batchContext", "mu"); held {
					o.FailAt(i, "Invoke calls %s while holding batchContext.mu", an.Short(an.Expr(an.CallOf(i).Value), 40))
				}
			}
		}
	})

	c.Check("R-POST", "Invoke: creator always closes doneCh after the select; select has both timers, ctx.Done() and maxSizeCh; joiners wait only on doneCh", 3, func(o *an.O) {
		fn := invoke()
		var sel *ssa.Select
		an.Instrs(fn, func(i ssa.Instruction) {
			if s, ok := i.(*ssa.Select); ok {
				sel = s
			}
		})
		an.Need(sel != nil, "select in Invoke")
		o.Site(sel)
		arms := map[string]bool{}
		for _, st := range sel.States {
			e := an.Expr(st.Chan)
			switch {
			case strings.Contains(e, "intervalTimer"):
				arms["interval"] = true
			case strings.HasSuffix(e, ".Done()"):
				arms["done"] = true
			case bgField(st.Chan, "maxSizeCh"):
				arms["max"] = true
			case strings.HasSuffix(e, ".C"):
				arms["maxduration"] = true
			}
		}
		for _, a := range []string{"interval", "done", "max", "maxduration"} {
			if !arms[a] {
				o.FailAt(sel, "the creator's select has no %s arm", a)
			}
		}
		if !sel.Blocking {
			o.FailAt(sel, "the creator's select has a default arm (it would not wait for other callers)")
		}
		var closes []ssa.Instruction
		for _, op := range an.ChanOps(fn) {
			if op.Kind == "close" && bgField(op.Chan, "doneCh") {
				closes = append(closes, op.Instr)
				o.Site(op.Instr)
			}
		}
		if len(closes) == 0 {
			o.Fail(p.Pos(fn.Pos()), "doneCh is never closed: joiners wait forever")
			return
		}
		if e := an.ReachableAvoiding(fn, sel, an.NewBlocker(closes...), an.Exits(fn, false)); e != nil {
			o.FailAt(e, "the creator can return without closing doneCh (e.g. on the cancelled path): every joiner of the group hangs")
		}
		for _, cl := range closes {
			if an.Reach(fn, cl, nil)[cl] {
				o.FailAt(cl, "doneCh can be closed twice")
			}
			// results are stored before the close
		}
		// bg.result/bg.err stores happen before close
		for _, f := range []string{"result", "err"} {
			for _, r := range an.FieldRefs(fn, "", "batchGroup", f) {
				if r.Kind == "store" {
					for _, cl := range closes {
						if an.Reach(fn, cl, nil)[r.Instr] {
							o.FailAt(r.Instr, "bg.%s written after doneCh is closed: joiners may read before it is set", f)
						}
					}
				}
			}
		}
		// joiner: waits on doneCh only
		for _, f := range an.WithAnons(fn)[1:] {
			for _, op := range an.ChanOps(f) {
				o.Site(op.Instr)
				if !bgField(op.Chan, "doneCh") || op.Kind != "recv" {
					o.FailAt(op.Instr, "joiner blocks on something other than a receive from doneCh")
				}
			}
		}
	})

	c.Check("R-POST", "safeInvoke: deferred recover assigns err; wrong-length results become an error", 3, func(o *an.O) {
		fn := c.NeedFunc(bp, "safeInvoke")
		var d *ssa.Defer
		an.Instrs(fn, func(i ssa.Instruction) {
			if x, ok := i.(*ssa.Defer); ok {
				d = x
			}
		})
		if d == nil {
			o.Fail(p.Pos(fn.Pos()), "safeInvoke has no deferred recover")
			return
		}
		o.Site(d)
		// the defer dominates the dynamic call of f
		var fcall ssa.Instruction
		an.Instrs(fn, func(i ssa.Instruction) {
			if cc := an.CallOf(i); cc != nil {
				// the call through the parameter of function type (wherever it is in the parameter list)
				if pa, ok := cc.Value.(*ssa.Parameter); ok && pa.Parent() == fn {
					if _, isFn := pa.Type().Underlying().(*types.Signature); isFn {
						fcall = i
					}
				}
			}
		})
		an.Need(fcall != nil, "f(ctx, args) in safeInvoke")
		o.Site(fcall)
		if an.Reach(fn, nil, an.NewBlocker(d))[fcall] {
			o.FailAt(fcall, "the batch function is called before the recover is installed")
		}
		mc, ok := d.Call.Value.(*ssa.MakeClosure)
		an.Need(ok, "deferred closure")
		cl := mc.Fn.(*ssa.Function)
		var rec *ssa.Call
		an.Instrs(cl, func(i ssa.Instruction) {
			if call, ok := i.(*ssa.Call); ok {
				if b, ok := call.Call.Value.(*ssa.Builtin); ok && b.Name() == "recover" {
					rec = call
				}
			}
		})
		if rec == nil {
			o.Fail(p.Pos(cl.Pos()), "the deferred function does not call recover()")
			return
		}
		o.Site(rec)
		// on the recovered branch err (free var) is stored non-nil
		errStores := 0
		lenChecked := false
		an.Instrs(cl, func(i ssa.Instruction) {
			if st, ok := i.(*ssa.Store); ok {
				if fv, ok := st.Addr.(*ssa.FreeVar); ok && an.IsErrorType(fv.Type().(*types.Pointer).Elem()) && !isConstNil(st.Val) {
					errStores++
					for _, g := range an.GuardsOf(i.Block()) {
						bo, ok := g.Cond.(*ssa.BinOp)
						if !ok || !((bo.Op == token.NEQ && g.Polarity) || (bo.Op == token.EQL && !g.Polarity)) {
							// `err == nil && len(..) != len(..)` lowers to nested Ifs; look through the && phi too
							if strings.Contains(an.Expr(g.Cond), "(len(") && strings.Contains(an.Expr(g.Cond), " != len(") && g.Polarity {
								lenChecked = true
							}
							continue
						}
						lx, okx := bo.X.(*ssa.Call)
						ly, oky := bo.Y.(*ssa.Call)
						if okx && oky {
							bx, ok1 := lx.Call.Value.(*ssa.Builtin)
							by, ok2 := ly.Call.Value.(*ssa.Builtin)
							if ok1 && ok2 && bx.Name() == "len" && by.Name() == "len" {
								lenChecked = true
							}
						}
					}
				}
			}
		})
		if errStores < 2 {
			o.Fail(p.Pos(cl.Pos()), "expected the deferred function to set err both for a panic and for a wrong-length result (found %d stores)", errStores)
		}
		if !lenChecked {
			o.Fail(p.Pos(cl.Pos()), "no error for len(result) != len(args): bg.result[index] would panic or return another caller's value")
		}
		// recovered branch stores err under guard recover() != nil
		okRec := false
		an.Instrs(cl, func(i ssa.Instruction) {
			if st, ok := i.(*ssa.Store); ok {
				if _, ok := st.Addr.(*ssa.FreeVar); ok && !isConstNil(st.Val) {
					for _, g := range an.GuardStrings(i.Block()) {
						if g == "(recover() != nil)" {
							okRec = true
						}
					}
				}
			}
		})
		if !okRec {
			o.Fail(p.Pos(cl.Pos()), "a recovered panic does not set err")
		}
	})
}

// pendingDeletes lists delete(bctx.pendingBatchGroups, _) calls.
func pendingDeletes(fn *ssa.Function) []ssa.Instruction {
	var out []ssa.Instruction
	an.Instrs(fn, func(i ssa.Instruction) {
		if call, ok := i.(*ssa.Call); ok {
			if b, ok := call.Call.Value.(*ssa.Builtin); ok && b.Name() == "delete" && an.IsFieldAccess(call.Call.Args[0], "batchContext", "pendingBatchGroups") {
				out = append(out, i)
			}
		}
	})
	return out
}

// sliceOfSingle reports whether v is the varargs slice [x].
func sliceOfSingle(v ssa.Value, x ssa.Value) bool {
	sl, ok := v.(*ssa.Slice)
	if !ok {
		return false
	}
	al, ok := sl.X.(*ssa.Alloc)
	if !ok {
		return false
	}
	for _, r := range *al.Referrers() {
		if ia, ok := r.(*ssa.IndexAddr); ok {
			for _, u := range *ia.Referrers() {
				if st, ok := u.(*ssa.Store); ok && an.StripConv(st.Val) == x {
					return true
				}
			}
		}
	}
	return false
}
