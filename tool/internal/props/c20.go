package props

import (
	"go/token"
	"go/types"
	"strings"

	"golang.org/x/tools/go/ssa"

	"thunderlint/internal/an"
)

func init() {
	register("C20", "Decides the structural basis of token conservation in concurrencylimiter: every operation on the token channel limiter.ch is control-dependent on the success of exactly the declared atomic transition of holder.status (release: Swap(.,released)==acquired before the receive; block: CAS(acquired->blocked) before the receive, CAS(blocked->acquired) before the send in the deferred function, which is installed only on the branch that gave the token up); no other function of the module touches limiter.ch or holder.status (who-may-touch); Acquire sends only inside a select that also waits on ctx.Done(), returns a no-op release before any channel operation when there is no limiter, builds the holder (status acquired) only after the successful send and returns h.release; release receives at most once; block and TemporarilyRelease run f exactly once on every path; the batch waiter blocks on doneCh only inside TemporarilyRelease. Not decided: the numeric bound '<= n running' as a runtime statement (it follows from these pairings plus channel capacity by argument, not by this analysis) and behaviour under real schedules.", c20)
}

const clPkg = "concurrencylimiter"

// atomicCall describes a call to a sync/atomic function on &h.status.
type atomicCall struct {
	call *ssa.Call
	name string
	args []ssa.Value
}

func asStatusAtomic(v ssa.Value) *atomicCall {
	c, ok := v.(*ssa.Call)
	if !ok {
		return nil
	}
	f := an.CalleeFunc(c.Common())
	if f == nil || f.Pkg() == nil || f.Pkg().Path() != "sync/atomic" {
		return nil
	}
	if len(c.Call.Args) == 0 || !an.IsFieldAccess(c.Call.Args[0], "holder", "status") {
		return nil
	}
	return &atomicCall{call: c, name: f.Name(), args: c.Call.Args[1:]}
}

// guardedByTransition reports whether block b is control-dependent on the
// success of the given status transition.
//
//	kind "swap":  Swap(&status, to) == from
//	kind "cas":   CompareAndSwap(&status, from, to) is true
func guardedByTransition(b *ssa.BasicBlock, kind string, from, to int64) bool {
	for _, g := range an.GuardsOf(b) {
		switch kind {
		case "cas":
			ac := asStatusAtomic(g.Cond)
			if ac == nil || !strings.HasPrefix(ac.name, "CompareAndSwap") || !g.Polarity || len(ac.args) != 2 {
				continue
			}
			f, ok1 := an.ConstInt(ac.args[0])
			t, ok2 := an.ConstInt(ac.args[1])
			if ok1 && ok2 && f == from && t == to {
				return true
			}
		case "swap":
			bo, ok := g.Cond.(*ssa.BinOp)
			if !ok {
				continue
			}
			want := g.Polarity
			if bo.Op == token.NEQ {
				want = !want
			} else if bo.Op != token.EQL {
				continue
			}
			if !want {
				continue
			}
			x, y := bo.X, bo.Y
			ac := asStatusAtomic(x)
			if ac == nil {
				ac = asStatusAtomic(y)
				y = x
			}
			if ac == nil || !strings.HasPrefix(ac.name, "Swap") || len(ac.args) != 1 {
				continue
			}
			t, ok1 := an.ConstInt(ac.args[0])
			f, ok2 := an.ConstInt(y)
			if ok1 && ok2 && f == from && t == to {
				return true
			}
		}
	}
	return false
}

func isLimiterCh(v ssa.Value) bool { return an.IsFieldAccess(v, "limiter", "ch") }

func c20(c *an.Ctx) {
	p := c.P
	var acq, blk, rel int64
	consts := func() {
		sp := p.Pkg(clPkg)
		an.Need(sp != nil, "package concurrencylimiter")
		var ok1, ok2, ok3 bool
		acq, ok1 = an.PkgConstInt(sp.Pkg, "acquired")
		blk, ok2 = an.PkgConstInt(sp.Pkg, "blocked")
		rel, ok3 = an.PkgConstInt(sp.Pkg, "released")
		an.Need(ok1 && ok2 && ok3, "constants acquired/blocked/released")
		an.Need(acq != blk && blk != rel && acq != rel, "status constants are distinct")
	}

	c.Check("R-TS", "holder.release: receive only after Swap(status,released)==acquired", 1, func(o *an.O) {
		consts()
		fn := c.NeedFunc(clPkg, "(*holder).release")
		n := 0
		for _, op := range an.ChanOps(fn) {
			if !isLimiterCh(op.Chan) {
				o.FailAt(op.Instr, "channel operation on something other than limiter.ch in release")
				continue
			}
			o.Site(op.Instr)
			n++
			if op.Kind != "recv" {
				o.FailAt(op.Instr, "release performs a %s on the token channel; only a receive gives a token back", op.Kind)
			}
			if !guardedByTransition(op.Instr.Block(), "swap", acq, rel) {
				o.FailAt(op.Instr, "receive from limiter.ch is not control-dependent on atomic.Swap(&h.status, released) == acquired")
			}
			if an.InCycle(fn, op.Instr) {
				o.FailAt(op.Instr, "receive can execute more than once per release call")
			}
		}
		if n > 1 {
			o.Fail(p.Pos(fn.Pos()), "release has %d token-channel operations; exactly one receive expected", n)
		}
	})

	c.Check("R-TS", "holder.block: receive only after CAS(acquired->blocked); re-acquire deferred on that branch only", 2, func(o *an.O) {
		consts()
		fn := c.NeedFunc(clPkg, "(*holder).block")
		for _, op := range an.ChanOps(fn) {
			o.Site(op.Instr)
			if !isLimiterCh(op.Chan) || op.Kind != "recv" {
				o.FailAt(op.Instr, "unexpected channel operation %s in block", op.Kind)
				continue
			}
			if !guardedByTransition(op.Instr.Block(), "cas", acq, blk) {
				o.FailAt(op.Instr, "receive from limiter.ch is not control-dependent on CompareAndSwap(&h.status, acquired, blocked) succeeding")
			}
			if an.InCycle(fn, op.Instr) {
				o.FailAt(op.Instr, "receive in a loop")
			}
		}
		// the deferred re-acquire closure
		var defers []*ssa.Defer
		an.Instrs(fn, func(i ssa.Instruction) {
			if d, ok := i.(*ssa.Defer); ok {
				defers = append(defers, d)
			}
		})
		sends := 0
		for _, d := range defers {
			var cl *ssa.Function
			if mc, ok := d.Call.Value.(*ssa.MakeClosure); ok {
				cl, _ = mc.Fn.(*ssa.Function)
			} else if f := d.Call.StaticCallee(); f != nil && f.Blocks != nil && an.RelPkg(f) == clPkg {
				cl = f // `defer h.reacquire()`: a method instead of a closure
			}
			if cl == nil {
				continue
			}
			for _, op := range an.ChanOps(cl) {
				o.Site(op.Instr)
				if !isLimiterCh(op.Chan) || op.Kind != "send" {
					o.FailAt(op.Instr, "unexpected channel operation %s in block's deferred function", op.Kind)
					continue
				}
				sends++
				if !guardedByTransition(op.Instr.Block(), "cas", blk, acq) {
					o.FailAt(op.Instr, "send to limiter.ch is not control-dependent on CompareAndSwap(&h.status, blocked, acquired) succeeding")
				}
				if an.InCycle(cl, op.Instr) {
					o.FailAt(op.Instr, "send in a loop")
				}
				if !guardedByTransition(d.Block(), "cas", acq, blk) {
					o.FailAt(d, "the re-acquiring defer is installed on a path that did not give the token up (CAS acquired->blocked)")
				}
			}
		}
		if sends != 1 {
			o.Fail(p.Pos(fn.Pos()), "expected exactly one deferred re-acquire send, found %d (a token given up in block would never come back)", sends)
		}
	})

	c.Check("R-POST", "holder.block and TemporarilyRelease run f exactly once on every path", 3, func(o *an.O) {
		fn := c.NeedFunc(clPkg, "(*holder).block")
		var fparam *ssa.Parameter
		for _, pa := range fn.Params {
			if _, ok := pa.Type().Underlying().(*types.Signature); ok {
				fparam = pa
			}
		}
		an.Need(fparam != nil, "block's func parameter")
		var calls []ssa.Instruction
		an.Instrs(fn, func(i ssa.Instruction) {
			if cc := an.CallOf(i); cc != nil && cc.Value == fparam {
				if _, isCall := i.(*ssa.Call); !isCall {
					o.FailAt(i, "f is started with go/defer rather than called")
				}
				calls = append(calls, i)
				o.Site(i)
			}
		})
		if why := an.ExactlyOnce(fn, calls); why != "" {
			o.Fail(p.Pos(fn.Pos()), "block: f(): %s", why)
		}
		tr := c.NeedFunc(clPkg, "TemporarilyRelease")
		var fp2 *ssa.Parameter
		for _, pa := range tr.Params {
			if _, ok := pa.Type().Underlying().(*types.Signature); ok {
				fp2 = pa
			}
		}
		an.Need(fp2 != nil, "TemporarilyRelease's func parameter")
		var sites []ssa.Instruction
		an.Instrs(tr, func(i ssa.Instruction) {
			cc := an.CallOf(i)
			if cc == nil {
				return
			}
			if _, isCall := i.(*ssa.Call); !isCall {
				return
			}
			if cc.Value == fp2 {
				sites = append(sites, i)
				o.Site(i)
			} else if cc.StaticCallee() == fn && len(cc.Args) == 2 && cc.Args[1] == fp2 {
				sites = append(sites, i)
				o.Site(i)
			}
		})
		if why := an.ExactlyOnce(tr, sites); why != "" {
			o.Fail(p.Pos(tr.Pos()), "TemporarilyRelease: f: %s", why)
		}
	})

	c.Check("R-TS", "Acquire: send only in a select with ctx.Done(); holder built after the successful send; returns h.release", 3, func(o *an.O) {
		consts()
		fn := c.NeedFunc(clPkg, "Acquire")
		ops := an.ChanOps(fn)
		var sel *ssa.Select
		for _, op := range ops {
			if isLimiterCh(op.Chan) {
				o.Site(op.Instr)
				if op.Kind != "select-send" {
					o.FailAt(op.Instr, "Acquire performs %s on limiter.ch outside a select (would block on a cancelled context)", op.Kind)
					continue
				}
				sel = op.Instr.(*ssa.Select)
			}
		}
		if sel == nil {
			o.Fail(p.Pos(fn.Pos()), "no select sending on limiter.ch found in Acquire")
			return
		}
		if !sel.Blocking {
			o.FailAt(sel, "select has a default arm: Acquire would not wait for a token")
		}
		doneArm, sendIdx := false, -1
		for k, st := range sel.States {
			if st.Dir == types.RecvOnly {
				doneSpec := an.CalleeSpec{Pkg: "context", Recv: "Context", Name: "Done"}
				if cl, ok := st.Chan.(*ssa.Call); ok && doneSpec.Matches(cl.Common()) {
					doneArm = true
				}
			}
			if st.Dir == types.SendOnly && isLimiterCh(st.Chan) {
				sendIdx = k
			}
		}
		if !doneArm {
			o.FailAt(sel, "the select that sends the token has no <-ctx.Done() arm")
		}
		// the holder allocation must be reachable only through index == sendIdx
		var holderAlloc ssa.Instruction
		an.Instrs(fn, func(i ssa.Instruction) {
			if a, ok := i.(*ssa.Alloc); ok {
				if n, ok := a.Type().(*types.Pointer).Elem().(*types.Named); ok && n.Obj().Name() == "holder" {
					holderAlloc = i
				}
			}
		})
		if holderAlloc == nil {
			o.Fail(p.Pos(fn.Pos()), "no holder allocated in Acquire")
			return
		}
		o.Site(holderAlloc)
		// find Ifs testing extract(sel,0) == k
		blkr := an.NewBlocker()
		found := false
		for _, b := range fn.Blocks {
			iff, ok := b.Instrs[len(b.Instrs)-1].(*ssa.If)
			if !ok {
				continue
			}
			bo, ok := iff.Cond.(*ssa.BinOp)
			if !ok || bo.Op != token.EQL {
				continue
			}
			ex, ok := bo.X.(*ssa.Extract)
			if !ok || ex.Tuple != sel || ex.Index != 0 {
				continue
			}
			k, ok := an.ConstInt(bo.Y)
			if ok && int(k) == sendIdx {
				blkr.AddEdge(b, b.Succs[0])
				found = true
			}
		}
		if !found {
			o.FailAt(sel, "cannot find the branch taken when the token send succeeded")
		} else if an.Reach(fn, sel, blkr)[holderAlloc] {
			o.FailAt(holderAlloc, "a holder is created on a path where the token was not sent (ctx.Done arm)")
		}
		if !an.Reach(fn, sel, nil)[holderAlloc] {
			o.FailAt(holderAlloc, "holder is created before the token is acquired")
		}
		// status initialised to acquired (or left zero when acquired == 0)
		initOK := acq == 0
		an.Instrs(fn, func(i ssa.Instruction) {
			if st, ok := i.(*ssa.Store); ok && an.IsFieldAccess(st.Addr, "holder", "status") {
				v, ok := an.ConstInt(st.Val)
				initOK = ok && v == acq
				if !initOK {
					o.FailAt(i, "holder.status initialised to something other than acquired")
				}
			}
		})
		if !initOK {
			o.Fail(p.Pos(fn.Pos()), "holder.status is not initialised to acquired")
		}
		// returns: on the path through holderAlloc the second result is the bound method h.release
		rel := c.NeedFunc(clPkg, "(*holder).release")
		for _, e := range an.Exits(fn, false) {
			ret := e.(*ssa.Return)
			if !an.Reach(fn, holderAlloc, nil)[e] {
				// no-limiter or cancelled: must return a closure that does no channel operation
				if mc, ok := an.StripConv(ret.Results[1]).(*ssa.MakeClosure); ok {
					if f, ok := mc.Fn.(*ssa.Function); ok && len(an.ChanOps(f)) > 0 {
						o.FailAt(e, "the no-op release function performs a channel operation")
					}
				}
				continue
			}
			o.Site(e)
			mc, ok := an.StripConv(ret.Results[1]).(*ssa.MakeClosure)
			okRel := false
			if ok {
				if f, ok := mc.Fn.(*ssa.Function); ok && f.Synthetic != "" && strings.Contains(f.Name(), "release") {
					// bound method wrapper release$bound
					if len(mc.Bindings) == 1 && mc.Bindings[0] == holderAlloc.(ssa.Value) {
						okRel = true
					}
				}
			}
			if !okRel {
				o.FailAt(e, "Acquire does not return the new holder's release method (%s)", rel.Name())
			}
		}
		// the !ok (no limiter) return happens before the select
		early := false
		for _, e := range an.Exits(fn, false) {
			if !an.Reach(fn, sel, nil)[e] {
				early = true
			}
		}
		if !early {
			o.Fail(p.Pos(fn.Pos()), "Acquire has no return that avoids the channel when the context has no limiter")
		}
	})

	c.Check("R-WHO", "limiter.ch and holder.status are touched only by release/block/Acquire/With", 4, func(o *an.O) {
		allowedCh := map[string]string{
			"(*holder).release": "gives the token back",
			"(*holder).block":   "temporarily gives the token up",
			"(*holder).block$1": "re-acquires after block",
			"Acquire":           "takes a token",
			"With":              "creates the channel",
		}
		allowedStatus := map[string]string{
			"(*holder).release": "atomic swap", "(*holder).block": "atomic CAS", "(*holder).block$1": "atomic CAS", "Acquire": "initialises the new holder",
		}
		for _, fn := range p.ModuleFuncs(nil) {
			name := an.QualName(fn)
			an.Instrs(fn, func(i ssa.Instruction) {
				fa, ok := i.(*ssa.FieldAddr)
				if !ok {
					return
				}
				n := an.NamedOf(fa.X.Type())
				if n == nil || n.Obj().Pkg() == nil || n.Obj().Pkg().Path() != an.ModulePath+"/"+clPkg {
					return
				}
				fname := an.FieldName(fa.X.Type(), fa.Field)
				switch {
				case n.Obj().Name() == "limiter" && fname == "ch":
					o.Site(i)
					if !p.AllowedFunc(fn, func(f *ssa.Function) bool { _, ok := allowedCh[an.QualName(f)]; return ok && an.RelPkg(f) == clPkg }) {
						o.FailAt(i, "%s.%s touches limiter.ch; token traffic is only allowed in release/block/Acquire", an.RelPkg(fn), name)
					}
				case n.Obj().Name() == "holder" && fname == "status":
					o.Site(i)
					if !p.AllowedFunc(fn, func(f *ssa.Function) bool { _, ok := allowedStatus[an.QualName(f)]; return ok && an.RelPkg(f) == clPkg }) {
						o.FailAt(i, "%s.%s touches holder.status", an.RelPkg(fn), name)
						return
					}
					// every use is an atomic call argument or the initialising store in Acquire
					for _, r := range *fa.Referrers() {
						switch r := r.(type) {
						case *ssa.Call:
							f := an.CalleeFunc(r.Common())
							if f == nil || f.Pkg() == nil || f.Pkg().Path() != "sync/atomic" {
								o.FailAt(r, "holder.status passed to a non-atomic function")
							}
						case *ssa.Store:
							if name != "Acquire" {
								o.FailAt(r, "plain store to holder.status outside Acquire's constructor")
							}
						default:
							o.FailAt(r, "non-atomic access to holder.status")
						}
					}
				}
			})
		}
	})

	c.Check("R-WHO", "batch.Invoke: joiners wait on doneCh only inside concurrencylimiter.TemporarilyRelease", 1, func(o *an.O) {
		fn := c.NeedFunc("batch", "(*Func).Invoke")
		tr := an.Mod(clPkg, "", "TemporarilyRelease")
		inTR := map[*ssa.Function]bool{}
		for _, call := range an.Calls(fn, tr) {
			cc := an.CallOf(call)
			if len(cc.Args) == 2 {
				if mc, ok := cc.Args[1].(*ssa.MakeClosure); ok {
					inTR[mc.Fn.(*ssa.Function)] = true
				}
			}
		}
		n := 0
		for _, f := range an.WithAnons(fn) {
			for _, op := range an.ChanOps(f) {
				if !an.IsFieldAccess(op.Chan, "batchGroup", "doneCh") {
					continue
				}
				if op.Kind == "close" {
					continue
				}
				n++
				o.Site(op.Instr)
				if !inTR[f] {
					o.FailAt(op.Instr, "wait on batchGroup.doneCh outside TemporarilyRelease: the waiter keeps its limiter token while blocked")
				}
			}
		}
		if n == 0 {
			o.Undecided("no wait on doneCh found in Invoke")
		}
	})
}
