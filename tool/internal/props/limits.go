package props

import (
	"fmt"
	"go/token"
	"strings"

	"golang.org/x/tools/go/ssa"

	"thunderlint/internal/an"
)

// ruleLimitTables (C12): the two limit wrappers and the two per-limit checks are
// small decision procedures; they are evaluated for every assignment of their
// conditions (BoolSim) instead of being matched against one source shape.
func ruleLimitTables(c *an.Ctx, o *an.O) {
	p := c.P
	fieldLoad := func(v ssa.Value, name string) bool {
		ld, ok := v.(*ssa.UnOp)
		if !ok || ld.Op != token.MUL {
			return false
		}
		switch a := ld.X.(type) {
		case *ssa.FieldAddr:
			return an.FieldName(a.X.Type(), a.Field) == name
		}
		return false
	}
	fieldValue := func(v ssa.Value, name string) bool { // x.f as a value (Field of a loaded struct) or a load of &x.f
		if fieldLoad(v, name) {
			return true
		}
		if f, ok := v.(*ssa.Field); ok {
			return an.FieldName(f.X.Type(), f.Field) == name
		}
		return false
	}
	nilTest := func(v ssa.Value) (ssa.Value, bool, bool) { // subject, isEq, ok
		bo, ok := v.(*ssa.BinOp)
		if !ok || (bo.Op != token.EQL && bo.Op != token.NEQ) {
			return nil, false, false
		}
		if isConstNil(bo.Y) {
			return bo.X, bo.Op == token.EQL, true
		}
		if isConstNil(bo.X) {
			return bo.Y, bo.Op == token.EQL, true
		}
		return nil, false, false
	}
	for _, w := range []struct{ wrapper, inner string }{
		{"(*DB).checkFilterAgainstLimits", "checkFilterAgainstLimit"},
		{"(*DB).checkColumnValuesAgainstLimits", "checkColumnValuesAgainstLimit"},
	} {
		fn := c.NeedFunc(sg, w.wrapper)
		o.SitePos(p.Pos(fn.Pos()))
		inner := an.Calls(fn, an.Mod(sg, "DB", w.inner))
		var shardCheck, dynCheck ssa.Instruction
		for _, call := range inner {
			lim := an.CallOf(call).Args[len(an.CallOf(call).Args)-1]
			if fieldValue(lim, "shardLimit") {
				shardCheck = call
			} else {
				dynCheck = call
			}
		}
		if shardCheck == nil || dynCheck == nil {
			o.Fail(p.Pos(fn.Pos()), "%s must check against the shard limit and against the dynamic limit filter (found shard: %v, dynamic: %v)", w.wrapper, shardCheck != nil, dynCheck != nil)
			continue
		}
		o.Site(shardCheck)
		o.Site(dynCheck)
		errOf := func(call ssa.Instruction) ssa.Value { return call.(ssa.Value) }
		for mask := 0; mask < 128; mask++ {
			shardSet, shardErr, getSet, contSet, lfNonNil, dynErr, keepGoing := mask&1 != 0, mask&2 != 0, mask&4 != 0, mask&8 != 0, mask&16 != 0, mask&32 != 0, mask&64 != 0
			sim := &an.BoolSim{Fn: fn, Atom: func(v ssa.Value) (bool, bool) {
				if call, ok := v.(*ssa.Call); ok && !call.Call.IsInvoke() {
					if fieldValue(call.Call.Value, "ShouldContinueOnError") {
						return keepGoing, true
					}
				}
				subj, isEq, ok := nilTest(v)
				if !ok {
					return false, false
				}
				switch {
				case fieldValue(subj, "shardLimit"):
					return shardSet != isEq, true
				case fieldValue(subj, "GetLimitFilter"):
					return getSet != isEq, true
				case fieldValue(subj, "ShouldContinueOnError"):
					return contSet != isEq, true
				case subj == errOf(shardCheck):
					return shardErr != isEq, true
				case subj == errOf(dynCheck):
					return dynErr != isEq, true
				}
				if call, ok := subj.(*ssa.Call); ok && !call.Call.IsInvoke() && fieldValue(call.Call.Value, "GetLimitFilter") {
					return lfNonNil != isEq, true
				}
				return false, false
			}}
			reached := sim.Run()
			nOK, nErr := 0, 0
			for _, r := range sim.Returns {
				if isConstNil(an.ResultAt(r.Ret, 0)) {
					nOK++
				} else {
					nErr++
				}
			}
			wantShard := shardSet
			shardFails := shardSet && shardErr
			wantDyn := !shardFails && getSet && contSet && lfNonNil
			dynFails := wantDyn && dynErr && !keepGoing
			wantErr := shardFails || dynFails
			desc := fmt.Sprintf("shard limit set=%v violated=%v; dynamic callbacks set=%v/%v, limit filter non-nil=%v, violated=%v, ShouldContinueOnError=%v", shardSet, shardErr, getSet, contSet, lfNonNil, dynErr, keepGoing)
			if reached[shardCheck.Block()] != wantShard {
				o.FailAt(shardCheck, "%s (%s): the shard limit is checked: %v, expected %v", w.wrapper, desc, reached[shardCheck.Block()], wantShard)
				break
			}
			if reached[dynCheck.Block()] != wantDyn {
				o.FailAt(dynCheck, "%s (%s): the dynamic limit is checked: %v, expected %v", w.wrapper, desc, reached[dynCheck.Block()], wantDyn)
				break
			}
			if wantErr && (nOK > 0 || nErr == 0) {
				o.Fail(p.Pos(fn.Pos()), "%s (%s) can return nil: a statement outside the limit would be sent", w.wrapper, desc)
				break
			}
			if !wantErr && (nErr > 0 || nOK == 0) {
				o.Fail(p.Pos(fn.Pos()), "%s (%s) returns an error although every limit is satisfied or waived", w.wrapper, desc)
				break
			}
		}
	}
	// the per-limit checks: an entry of the limit that is missing or different is an error, a
	// matching one moves on to the next entry
	for _, nm := range []string{"(*DB).checkFilterAgainstLimit", "(*DB).checkColumnValuesAgainstLimit"} {
		fn := c.NeedFunc(sg, nm)
		o.SitePos(p.Pos(fn.Pos()))
		// the outer loop over the limit
		var outer *ssa.BasicBlock
		an.Instrs(fn, func(i ssa.Instruction) {
			if nx, ok := i.(*ssa.Next); ok && outer == nil {
				if r, ok := nx.Iter.(*ssa.Range); ok && r.X == ssa.Value(fn.Params[len(fn.Params)-1]) {
					outer = i.Block()
				}
			}
		})
		if outer == nil {
			o.Fail(p.Pos(fn.Pos()), "%s does not range over the whole limit", nm)
			continue
		}
		for mask := 0; mask < 4; mask++ {
			present, equal := mask&1 != 0, mask&2 != 0
			sim := &an.BoolSim{Fn: fn, Atom: func(v ssa.Value) (bool, bool) {
				// map form: filter[k] comma-ok
				if ex, ok := v.(*ssa.Extract); ok && ex.Index == 1 {
					if lk, ok := ex.Tuple.(*ssa.Lookup); ok && lk.CommaOk {
						return present, true
					}
				}
				bo, ok := v.(*ssa.BinOp)
				if !ok || (bo.Op != token.EQL && bo.Op != token.NEQ) {
					return false, false
				}
				// column-name comparison of the slice form: columns[i] == k
				if strings.Contains(bo.X.Type().String(), "string") && strings.Contains(bo.Y.Type().String(), "string") {
					return present == (bo.Op == token.EQL), true
				}
				// value comparison (interface{} operands)
				if _, isIface := bo.X.Type().Underlying().(interface{ NumMethods() int }); isIface && !isConstNil(bo.X) && !isConstNil(bo.Y) {
					return equal == (bo.Op == token.EQL), true
				}
				return false, false
			}}
			sim.Run()
			back := false
			for k, pred := range outer.Preds {
				if sim.In[outer][k] && outer.Dominates(pred) {
					back = true
				}
			}
			if present && equal {
				if !back {
					o.Fail(p.Pos(fn.Pos()), "%s rejects (or stops at) a limit entry that the statement satisfies", nm)
				}
			} else if back {
				o.Fail(p.Pos(fn.Pos()), "%s goes on to the next limit entry although this one is missing=%v / different=%v in the statement: the limit would not confine it", nm, !present, !equal)
			}
		}
	}
}
