// Package props holds the per-property rule instances (DESIGN.md section 4).
package props

import "thunderlint/internal/an"

// Registry maps property ids to their checkers.
var Registry = map[string]func(*an.Ctx){}

func register(id, explanation string, f func(*an.Ctx)) {
	Registry[id] = f
	an.Explanations[id] = explanation
}
