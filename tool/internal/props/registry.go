// Package props holds the per-property rule instances (DESIGN.md section 4).
package props

import "strings"

import "thunderlint/internal/an"

// Registry maps property ids to their checkers.
var Registry = map[string]func(*an.Ctx){}

func register(id, explanation string, f func(*an.Ctx)) {
	Registry[id] = f
	an.Explanations[id] = explanation
}

// listedFunc looks a function up in a name-keyed table. Closures are looked up
// under their own name and under the name of the function they are written in
// (an entry "pkg.F$1" therefore covers every closure of F: the position of a
// closure among its siblings is not something a rule should depend on).
func listedFunc(m map[string]string, name string) bool {
	if _, ok := m[name]; ok {
		return true
	}
	strip := func(s string) string {
		if i := strings.Index(s, "$"); i >= 0 {
			return s[:i]
		}
		return s
	}
	base := strip(name)
	if base == name {
		return false
	}
	for k := range m {
		if strip(k) == base {
			return true
		}
	}
	return false
}
