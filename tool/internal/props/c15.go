package props

import (
	"go/token"
	"go/types"
	"sort"
	"strings"

	"golang.org/x/tools/go/ssa"

	"thunderlint/internal/an"
)

func init() {
	register("C15", "Decides structural conditions of 'untrusted input never crashes or hangs the server': (1) pointer fields of the third-party GraphQL AST that its parser can leave nil (computed from the parser package's own composite literals on every run) are nil-tested on the same access path before package graphql dereferences them, or handed to a callee that tests its parameter first; (2) valueToJson and Parse's definition switch are total with an error default; (3) every single-value type assertion in package graphql and in the argument parsers (schemabuilder/input.go) is either comma-ok/type-switch or one of the justified forms (a struct field all of whose stores have that static type; or dominated by a successful comma-ok assertion of the same operand to the same type), others only on the reasoned allow-list; (4) every recursive walk over fragments (call-graph cycles through SelectionSet.Fragments in graphql and federation) has a visited-set guard keyed by the recursion argument, so repeated spreads cannot multiply work; (5) SafeExecuteResolver/SafeExecuteBatchResolver defer a recover that assigns the error, and Field.Resolve/BatchResolver are invoked only through them (or from inside another resolver closure); (6) every blocking wait on a signal that only a rerunner compute function gives is a select with a ctx.Done() arm, and Rerunner.run returns on a cancelled context before taking r.mu (shared with C04); (7) the websocket envelope handlers return errors for malformed JSON and unknown types. graphql.Flatten and federation.mergeSameAlias agree on rejecting same-alias selections that differ in field name, arguments or in having sub-selections; Parse never writes into the variables map it was given (a nil map from an envelope without variables would panic). Not decided: absence of all runtime panics (reflection, user code), the polynomial bound itself, goroutine leaks.", c15)
}

// nilableASTFields computes, from the graphql-go parser package, the pointer
// fields of ast structs that some composite literal leaves nil (omitted) or
// assigns from a value that may be nil.
func nilableASTFields(p *an.Prog) map[string]bool {
	out := map[string]bool{}
	const parserPath = "github.com/graphql-go/graphql/language/parser"
	const astPath = "github.com/graphql-go/graphql/language/ast"
	sp := p.SPkgs[parserPath]
	if sp == nil {
		return nil
	}
	var funcs []*ssa.Function
	for _, m := range sp.Members {
		if f, ok := m.(*ssa.Function); ok {
			funcs = append(funcs, an.WithAnons(f)...)
		}
	}
	for _, fn := range funcs {
		an.Instrs(fn, func(i ssa.Instruction) {
			al, ok := i.(*ssa.Alloc)
			if !ok {
				return
			}
			n := an.NamedOf(al.Type())
			if n == nil || n.Obj().Pkg() == nil || n.Obj().Pkg().Path() != astPath {
				return
			}
			st, ok := n.Underlying().(*types.Struct)
			if !ok {
				return
			}
			stored := map[string]ssa.Value{}
			for _, r := range *al.Referrers() {
				if fa, ok := r.(*ssa.FieldAddr); ok {
					for _, u := range *fa.Referrers() {
						if s, ok := u.(*ssa.Store); ok && s.Addr == ssa.Value(fa) {
							stored[an.FieldName(fa.X.Type(), fa.Field)] = s.Val
						}
					}
				}
			}
			for k := 0; k < st.NumFields(); k++ {
				f := st.Field(k)
				if _, isPtr := f.Type().Underlying().(*types.Pointer); !isPtr {
					continue
				}
				key := n.Obj().Name() + "." + f.Name()
				v, ok := stored[f.Name()]
				if !ok || mayBeNil(v, 0) {
					out[key] = true
				}
			}
		})
	}
	return out
}

func mayBeNil(v ssa.Value, d int) bool {
	if d > 6 {
		return false
	}
	switch x := v.(type) {
	case *ssa.Const:
		return x.IsNil()
	case *ssa.Phi:
		for _, e := range x.Edges {
			if mayBeNil(e, d+1) {
				return true
			}
		}
	case *ssa.UnOp:
		// load of a local `var x *T` that is conditionally assigned
		if al, ok := x.X.(*ssa.Alloc); ok {
			for _, r := range *al.Referrers() {
				if s, ok := r.(*ssa.Store); ok && s.Addr == ssa.Value(al) && mayBeNil(s.Val, d+1) {
					return true
				}
			}
		}
	}
	return false
}

// paramNilChecked: every dereference of parameter k in fn happens behind a
// `param != nil` test (i.e. is unreachable when the non-nil edges are removed).
func paramNilChecked(fn *ssa.Function, k int) bool {
	if fn == nil || k >= len(fn.Params) {
		return false
	}
	pa := fn.Params[k]
	blk := an.NewBlocker()
	for _, nt := range an.NilTests(fn, pa) {
		blk.AddEdge(nt.If.Block(), nt.NonNil)
	}
	if len(blk.Edge) == 0 {
		return false
	}
	reach := an.Reach(fn, nil, blk)
	for _, r := range *pa.Referrers() {
		switch r.(type) {
		case *ssa.FieldAddr, *ssa.IndexAddr:
			if reach[r] {
				return false
			}
		}
	}
	return true
}

func c15(c *an.Ctx) {
	p := c.P
	gqFuncs := func() []*ssa.Function { return p.ModuleFuncs(func(rel string) bool { return rel == gq }) }

	c.Check("R-NILAST", "optional pointer fields of the third-party AST are nil-tested before package graphql dereferences them", 3, func(o *an.O) {
		nilable := nilableASTFields(p)
		if len(nilable) < 3 {
			o.Undecided("could not compute the optional AST fields from the parser package (found %d)", len(nilable))
			return
		}
		var keys []string
		for k := range nilable {
			keys = append(keys, k)
		}
		sort.Strings(keys)
		o.Note("computed nil-able AST pointer fields: %s", strings.Join(keys, ", "))
		for _, fn := range gqFuncs() {
			an.Instrs(fn, func(i ssa.Instruction) {
				// a load of x.F where T.F is nil-able
				ld, ok := i.(*ssa.UnOp)
				if !ok || ld.Op != token.MUL {
					return
				}
				fa, ok := ld.X.(*ssa.FieldAddr)
				if !ok {
					return
				}
				n := an.NamedOf(fa.X.Type())
				if n == nil || n.Obj().Pkg() == nil || !strings.HasSuffix(n.Obj().Pkg().Path(), "language/ast") {
					return
				}
				key := n.Obj().Name() + "." + an.FieldName(fa.X.Type(), fa.Field)
				if !nilable[key] {
					return
				}
				path := an.Expr(ld)
				for _, r := range *ld.Referrers() {
					switch u := r.(type) {
					case *ssa.FieldAddr:
						o.Site(u)
						if !an.NonNilGuard(u.Block(), path) {
							o.FailAt(u, "%s dereferences %s (%s), which the parser leaves nil for some valid documents, without a dominating nil test: the request goroutine would panic", an.QualName(fn), path, key)
						}
					case *ssa.Call:
						// passed to a module function: that function must test its parameter
						callee := u.Call.StaticCallee()
						if callee == nil {
							continue
						}
						for k, a := range u.Call.Args {
							if a != ssa.Value(ld) {
								continue
							}
							o.Site(u)
							if an.NonNilGuard(u.Block(), path) {
								continue
							}
							if an.RelPkg(callee) == "?" {
								continue // not ours
							}
							if !paramNilChecked(callee, k) {
								o.FailAt(u, "%s passes possibly-nil %s to %s, which dereferences it without a nil test", an.QualName(fn), path, an.QualName(callee))
							}
						}
					}
				}
			})
		}
	})

	c.Check("R-FRESH", "Parse never writes into the variables map it was given (an envelope without variables gives a nil map; writing a default into it panics in every entry point) - rule shared with C18", 4, func(o *an.O) {
		ruleParseDefaults(c, o, "write")
	})
	c.Check("R-EXH", "valueToJson and Parse's definition switch are total with an error default", 2, func(o *an.O) {
		for _, nm := range []string{"valueToJson", "Parse"} {
			fd, pp := p.FuncDecl(gq, nm)
			an.Need(fd != nil, nm)
			sws := an.Switches(fd, pp)
			found := false
			for _, sw := range sws {
				if !sw.IsType {
					continue
				}
				isAST := false
				for _, t := range sw.AllCaseTypes() {
					if strings.HasPrefix(t, "*ast.") {
						isAST = true
					}
				}
				if !isAST {
					continue
				}
				found = true
				o.SitePos(p.Pos(sw.Node.Pos()))
				d := sw.HasDefault()
				if d == nil || !an.EndsInPanicOrError(d.Body) || strings.Contains(strings.Join(an.CallsInStmts(d.Body, pp), ","), "panic") {
					o.Fail(p.Pos(sw.Node.Pos()), "%s: the switch over third-party AST node kinds has no default that returns an error (an unsupported construct would be silently dropped or crash later)", nm)
				}
			}
			if !found {
				o.Fail(p.Pos(fd.Pos()), "%s no longer type-switches over AST nodes", nm)
			}
		}
	})

	assertAllow := map[string]string{
		"graphql.mergeDeprecationReason": "", // placeholder removed below if absent
	}
	delete(assertAllow, "graphql.mergeDeprecationReason")
	c.Check("R-ASSERT", "single-value type assertions on client-influenced values are justified (typed field / dominated by comma-ok) or allow-listed", 2, func(o *an.O) {
		scope := func(fn *ssa.Function) bool {
			rel := an.RelPkg(fn)
			if rel == gq {
				return true
			}
			if rel == "graphql/schemabuilder" {
				return baseName(p.Fset.Position(fn.Pos()).Filename) == "input.go"
			}
			return false
		}
		allow := map[string]string{
			"graphql/schemabuilder.(*schemaBuilder).makeArgParserInner": "schema-build time, on the builder's own freshly built argType - not client input",
		}
		for _, fn := range p.ModuleFuncs(nil) {
			if !scope(fn) {
				continue
			}
			an.Instrs(fn, func(i ssa.Instruction) {
				ta, ok := i.(*ssa.TypeAssert)
				if !ok || ta.CommaOk {
					return
				}
				// type switches lower to comma-ok asserts; plain x.(T):
				o.Site(i)
				full := an.RelPkg(fn) + "." + an.QualName(fn)
				if why := assertionJustified(p, fn, ta); why != "" {
					return
				}
				if _, ok := allow[full]; ok {
					return
				}
				o.FailAt(i, "%s asserts %s.(%s) without comma-ok: a value of another dynamic type (client JSON, context value) panics the request", full, an.Short(an.Expr(ta.X), 50), types.TypeString(ta.AssertedType, func(p *types.Package) string { return p.Name() }))
			})
		}
	})

	c.Check("R-REC", "prepareQuery records every non-nil (type, selection set) pair before it descends: no recursive call is reachable for a non-nil selection set without the memo insert (a fragment spread k times is validated once)", 2, func(o *an.O) {
		fn := c.NeedFunc(gq, "prepareQuery")
		var setParam, memoParam ssa.Value
		for _, prm := range fn.Params {
			if n := an.NamedOf(prm.Type()); n != nil && n.Obj().Name() == "SelectionSet" {
				setParam = prm
			}
			if _, isMap := prm.Type().Underlying().(*types.Map); isMap {
				memoParam = prm
			}
		}
		an.Need(setParam != nil && memoParam != nil, "selection-set and memo parameters of prepareQuery")
		var inserts []ssa.Instruction
		an.Instrs(fn, func(i ssa.Instruction) {
			if mu, ok := i.(*ssa.MapUpdate); ok && mu.Map == memoParam {
				inserts = append(inserts, i)
				o.Site(i)
			}
		})
		if len(inserts) == 0 {
			o.Fail(p.Pos(fn.Pos()), "prepareQuery never records a validated (type, selection set) pair: shared fragments are re-validated at every spread (exponential in the nesting depth)")
			return
		}
		sim := &an.BoolSim{Fn: fn, Stop: map[ssa.Instruction]bool{}, Atom: func(v ssa.Value) (bool, bool) {
			bo, ok := v.(*ssa.BinOp)
			if !ok || (bo.Op != token.EQL && bo.Op != token.NEQ) {
				return false, false
			}
			if (bo.X == setParam && isConstNil(bo.Y)) || (bo.Y == setParam && isConstNil(bo.X)) {
				return bo.Op == token.NEQ, true // the selection set is not nil
			}
			return false, false
		}}
		for _, i := range inserts {
			sim.Stop[i] = true
		}
		reached := sim.Run()
		for _, rc := range an.CallsToFunc(fn, fn) {
			o.Site(rc)
			if reached[rc.Block()] {
				o.FailAt(rc, "prepareQuery can descend from a non-nil selection set without having recorded it in the memo: a fragment that is spread k times is validated k times, and nested double spreads take exponential time")
			}
		}
	})

	c.Check("R-ERR", "directive conditions are client input: parseIf answers a missing, null or non-boolean `if` with an error (rule shared with C19)", 3, func(o *an.O) {
		ruleParseIf(c, o)
	})

	c.Check("R-SIBLING", "graphql.Flatten and federation.mergeSameAlias merge same-alias selections only after rejecting pairs that differ in field name, arguments or in having sub-selections (detectConflicts covers only the top level)", 8, func(o *an.O) {
		ruleSameAliasAgreement(c, o)
	})

	c.Check("R-CMP", "values decoded from client JSON (interface{}) are never compared with == / != : two lists or objects would panic with 'comparing uncomparable type'", 1, func(o *an.O) {
		// every function of the packages that handle client-supplied values: graphql (parser,
		// validation, executor, server) and its schema builder adapters (argument parsing).
		// (diff.diffMap and the federation executor compare __key values with != : those come
		// from resolvers / member services, not from the client, and are outside this property.)
		isEmptyIface := func(t types.Type) bool {
			it, ok := t.Underlying().(*types.Interface)
			return ok && it.NumMethods() == 0
		}
		n := 0
		for _, fn := range p.ModuleFuncs(func(rel string) bool {
			return rel == gq || rel == sbp
		}) {
			n++
			an.Instrs(fn, func(i ssa.Instruction) {
				bo, ok := i.(*ssa.BinOp)
				if !ok || (bo.Op != token.EQL && bo.Op != token.NEQ) {
					return
				}
				if !isEmptyIface(bo.X.Type()) || !isEmptyIface(bo.Y.Type()) {
					return
				}
				if isConstNil(bo.X) || isConstNil(bo.Y) {
					return
				}
				// a freshly boxed comparable value on one side cannot panic for slices/maps on the other?
				// it can not: comparing interface values of different dynamic types is false without
				// looking at the contents, so one side of known comparable dynamic type is safe
				for _, v := range []ssa.Value{bo.X, bo.Y} {
					if mi, ok := v.(*ssa.MakeInterface); ok && types.Comparable(mi.X.Type()) {
						return
					}
				}
				// one side already failed the type assertions to the JSON list and object types (the
				// default branch of a type switch over the JSON shapes): what is left is comparable
				for _, v := range []ssa.Value{bo.X, bo.Y} {
					excluded := map[string]bool{}
					for _, g := range an.GuardsOf(i.Block()) {
						if g.Polarity {
							continue
						}
						ex, ok := g.Cond.(*ssa.Extract)
						if !ok || ex.Index != 1 {
							continue
						}
						if ta, ok := ex.Tuple.(*ssa.TypeAssert); ok && ta.X == v {
							switch ta.AssertedType.Underlying().(type) {
							case *types.Slice:
								excluded["slice"] = true
							case *types.Map:
								excluded["map"] = true
							}
						}
					}
					if excluded["slice"] && excluded["map"] {
						return
					}
				}
				o.FailAt(i, "%s compares two interface{} values with %s (%s): if both hold a list or an object decoded from the query or its variables the comparison panics at run time, on a goroutine without recover", an.QualName(fn), bo.Op, an.Short(an.Expr(bo), 70))
			})
		}
		o.SitePos(p.Pos(c.NeedFunc(gq, "Parse").Pos()))
		if n < 100 {
			o.Undecided("only %d functions of package graphql were scanned", n)
		}
	})

	c.Check("R-REC", "every recursive walk through SelectionSet.Fragments has a visited-set guard keyed by the recursion argument", 4, func(o *an.O) {
		// candidates: functions (incl. closures) in graphql/federation that open a fragment body and
		// (transitively, within the module) call themselves with it.
		cands := map[*ssa.Function]bool{}
		for _, fn := range p.ModuleFuncs(func(rel string) bool { return rel == gq || rel == "federation" }) {
			for _, e := range rangeElems(fn, "Fragments") {
				for _, u := range nodeUses(e, true) {
					// the fragment body is passed to a call
					ld := loadOf(u.(*ssa.FieldAddr))
					if ld == nil {
						continue
					}
					for _, r := range *ld.Referrers() {
						if call, ok := r.(ssa.CallInstruction); ok && reachesFn(p, call, fn, 3) {
							cands[fn] = true
						}
					}
				}
			}
		}
		if len(cands) < 3 {
			o.Undecided("found only %d recursive fragment walkers (expected >= 3)", len(cands))
			return
		}
		exemptRec := map[string]string{
			"federation.printSelections":               "debug printing, not on a request path",
			"federation.(*Planner).planUnion":          "walks the flattener's output, a tree: flatten builds one fresh fragment per union member, no fragment is shared",
			"federation.marshalPbSelections":           "serialises the planner's flattened output: no shared fragments remain",
			"federation.unmarshalPbSelectionSet":       "input is the gateway's own flattened sub-query",
			"graphql.detectCyclesAndUnusedFragments$1": "visitSelectionSet delegates to visitFragment, which carries the visited map",
		}
		var names []string
		for fn := range cands {
			names = append(names, an.RelPkg(fn)+"."+an.QualName(fn))
		}
		sort.Strings(names)
		o.Note("recursive fragment walkers: %s", strings.Join(names, ", "))
		for fn := range cands {
			full := an.RelPkg(fn) + "." + an.QualName(fn)
			o.SitePos(p.Pos(fn.Pos()))
			if listedFunc(exemptRec, full) {
				continue
			}
			if !hasVisitedGuard(fn) {
				o.Fail(p.Pos(fn.Pos()), "%s recurses into fragment bodies without a visited-set guard on its selection-set argument: a fragment spread k times is walked k times, so chains of double spreads take exponential time", full)
			}
		}
		// the exemption of the cycle detector rests on its fragment visitor being memoised: verified here
		dc := c.NeedFunc(gq, "detectCyclesAndUnusedFragments")
		if why := persistentMemo(dc); why != "" {
			o.Fail(p.Pos(dc.Pos()), "detectCyclesAndUnusedFragments: %s: a fragment that is spread k times is walked k times, so a chain of fragments that each spread the next one twice takes exponential time (a 2 kB query stalls the parser, which runs under the connection lock for subscriptions)", why)
		} else {
			o.SitePos(p.Pos(dc.Pos()))
		}
	})

	c.Check("R-WHO", "resolver panics are contained: SafeExecute*Resolver defer a recover that sets the error; Field.Resolve/BatchResolver are only invoked through them", 4, func(o *an.O) {
		for _, nm := range []string{"SafeExecuteResolver", "SafeExecuteBatchResolver"} {
			fn := c.NeedFunc(gq, nm)
			var d *ssa.Defer
			an.Instrs(fn, func(i ssa.Instruction) {
				if x, ok := i.(*ssa.Defer); ok {
					d = x
				}
			})
			if d == nil {
				o.Fail(p.Pos(fn.Pos()), "%s has no deferred recover: a panicking resolver would crash the process / connection", nm)
				continue
			}
			o.Site(d)
			cl := an.ClosureArg(d.Call.Value)
			okRec := false
			if cl != nil {
				an.Instrs(cl, func(i ssa.Instruction) {
					if call, ok := i.(*ssa.Call); ok {
						if b, ok := call.Call.Value.(*ssa.Builtin); ok && b.Name() == "recover" {
							// an error free variable is assigned under recover() != nil
							an.Instrs(cl, func(j ssa.Instruction) {
								if st, ok := j.(*ssa.Store); ok {
									if fv, ok := st.Addr.(*ssa.FreeVar); ok && an.IsErrorType(fv.Type().(*types.Pointer).Elem()) && !isConstNil(st.Val) {
										for _, g := range an.GuardStrings(j.Block()) {
											if g == "(recover() != nil)" {
												okRec = true
											}
										}
									}
								}
							})
						}
					}
				})
			}
			if !okRec {
				o.FailAt(d, "%s's deferred function does not turn a recovered panic into the returned error", nm)
			}
			// the resolver call happens after the defer is installed
			for _, dc := range append(an.DynCallsThrough(fn, "Field", "Resolve"), an.DynCallsThrough(fn, "Field", "BatchResolver")...) {
				o.Site(dc)
				if an.Reach(fn, nil, an.NewBlocker(d))[dc] {
					o.FailAt(dc, "%s calls the resolver before installing the recover", nm)
				}
			}
		}
		allowed := map[string]string{
			"graphql.SafeExecuteResolver":      "the recover wrapper",
			"graphql.SafeExecuteBatchResolver": "the recover wrapper",
		}
		for _, fn := range p.ModuleFuncs(nil) {
			for _, field := range []string{"Resolve", "BatchResolver"} {
				for _, dc := range an.DynCallsThrough(fn, "Field", field) {
					o.Site(dc)
					full := an.RelPkg(fn) + "." + an.QualName(fn)
					if _, ok := allowed[full]; ok {
						continue
					}
					// allowed inside a resolver closure: a function literal that is itself stored into Field.Resolve/BatchResolver
					if storedAsResolver(fn) {
						continue
					}
					o.FailAt(dc, "%s invokes Field.%s directly, outside SafeExecute*Resolver: a resolver panic would not be contained", full, field)
				}
			}
		}
	})

	c.Check("R-WAIT", "waits on a signal given only by a rerunner compute function also wait on ctx.Done()", 3, func(o *an.O) {
		n := 0
		for _, fn := range p.ModuleFuncs(nil) {
			calls := an.CallsAny(fn, an.Mod(rx, "", "NewRerunner"))
			if len(calls) == 0 || strings.HasSuffix(p.Fset.Position(fn.Pos()).Filename, "_test.go") {
				continue
			}
			for _, call := range calls {
				n++
				o.Site(call)
				cl := an.ClosureArg(an.CallOf(call).Args[1])
				if cl == nil {
					continue
				}
				// signals given by the closure: channels closed / sent, WaitGroups Done'd (free variables)
				sigs := map[ssa.Value]string{}
				for _, f := range an.WithAnons(cl) {
					for _, op := range an.ChanOps(f) {
						if op.Kind == "close" || op.Kind == "send" {
							if cell := freeVarCell(fn, cl, f, op.Chan); cell != nil {
								sigs[cell] = "channel"
							}
						}
					}
					for _, i := range an.CallsAny(f, an.CalleeSpec{Pkg: "sync", Recv: "WaitGroup", Name: "Done"}) {
						if cell := freeVarCell(fn, cl, f, an.CallOf(i).Args[0]); cell != nil {
							sigs[cell] = "waitgroup"
						}
					}
				}
				// waits in the outer function on those cells
				an.Instrs(fn, func(i ssa.Instruction) {
					switch x := i.(type) {
					case *ssa.UnOp:
						if x.Op == token.ARROW {
							if cell := cellOf(x.X); cell != nil && sigs[cell] != "" {
								o.Site(i)
								o.FailAt(i, "%s blocks on a bare receive from a channel that only the rerunner's compute function signals; a rerunner whose context is already cancelled never runs it, so the request would hang", an.QualName(fn))
							}
						}
					case *ssa.Call:
						if (an.CalleeSpec{Pkg: "sync", Recv: "WaitGroup", Name: "Wait"}).Matches(x.Common()) {
							if cell := cellOf(x.Call.Args[0]); cell != nil && sigs[cell] != "" {
								o.Site(i)
								o.FailAt(i, "%s blocks in WaitGroup.Wait for a Done that only the rerunner's compute function gives; a rerunner whose context is already cancelled never runs it, so the request would hang", an.QualName(fn))
							}
						}
					case *ssa.Select:
						watches := false
						for _, st := range x.States {
							if cell := cellOf(st.Chan); cell != nil && sigs[cell] != "" {
								watches = true
							}
						}
						if !watches {
							return
						}
						o.Site(i)
						hasDone := !x.Blocking
						for _, st := range x.States {
							if strings.HasSuffix(an.Expr(st.Chan), ".Done()") {
								hasDone = true
							}
						}
						if !hasDone {
							o.FailAt(i, "%s selects on the compute function's signal without a ctx.Done() arm", an.QualName(fn))
						}
					}
				})
			}
		}
		if n < 4 {
			o.Undecided("expected at least 4 NewRerunner sites, found %d", n)
		}
	})

	c.Check("R-GUARD", "validation cannot be bypassed: prepareQuery validates every selection's sub-selection against its field type on every path (an unvalidated field crashes the executor goroutine)", 4, func(o *an.O) {
		ruleSelectionsValidated(c, o)
	})

	c.Check("R-ERR", "websocket envelope handlers return errors for malformed JSON and unknown message types", 4, func(o *an.O) {
		for _, nm := range []string{"(*conn).handleSubscribe", "(*conn).handleMutate", "(*conn).handle"} {
			fn := c.NeedFunc(gq, nm)
			for _, call := range an.Calls(fn, an.CalleeSpec{Pkg: "encoding/json", Name: "Unmarshal"}) {
				o.Site(call)
				blk := an.NewBlocker()
				for _, e := range an.ErrResult(call.(ssa.Value)) {
					for _, nt := range an.NilTests(fn, e) {
						blk.AddEdge(nt.If.Block(), nt.NilSucc)
					}
				}
				if len(blk.Edge) == 0 {
					o.FailAt(call, "%s ignores the json.Unmarshal error of a client message", nm)
					continue
				}
				for e := range an.Reach(fn, call, blk) {
					if ret, ok := e.(*ssa.Return); ok && isConstNil(an.ResultAt(ret, len(ret.Results)-1)) {
						o.FailAt(e, "%s returns nil although the client message failed to decode", nm)
					}
				}
			}
		}
		fd, pp := p.FuncDecl(gq, "conn.handle")
		an.Need(fd != nil, "conn.handle")
		for _, sw := range an.Switches(fd, pp) {
			o.SitePos(p.Pos(sw.Node.Pos()))
			if d := sw.HasDefault(); d == nil || !an.EndsInPanicOrError(d.Body) {
				o.Fail(p.Pos(sw.Node.Pos()), "conn.handle has no error default for unknown message types")
			}
		}
	})
}

func loadOf(fa *ssa.FieldAddr) *ssa.UnOp {
	for _, r := range *fa.Referrers() {
		if ld, ok := r.(*ssa.UnOp); ok && ld.Op == token.MUL {
			return ld
		}
	}
	return nil
}

// reachesFn: the call (static, or through a local func variable holding a
// closure of the same outer function) reaches target within depth steps.
func reachesFn(p *an.Prog, call ssa.CallInstruction, target *ssa.Function, depth int) bool {
	callees := calleesOf(call)
	seen := map[*ssa.Function]bool{}
	var walk func(f *ssa.Function, d int) bool
	walk = func(f *ssa.Function, d int) bool {
		if f == target {
			return true
		}
		if d == 0 || seen[f] || f.Blocks == nil || an.RelPkg(f) == "?" {
			return false
		}
		seen[f] = true
		found := false
		an.Instrs(f, func(i ssa.Instruction) {
			if found {
				return
			}
			if ci, ok := i.(ssa.CallInstruction); ok {
				for _, g := range calleesOf(ci) {
					if walk(g, d-1) {
						found = true
					}
				}
			}
		})
		return found
	}
	for _, f := range callees {
		if walk(f, depth) {
			return true
		}
	}
	return false
}

// calleesOf resolves static callees and calls through a captured/local
// variable of function type that is assigned closures (the `var visit func…;
// visit = func…` idiom).
func calleesOf(call ssa.CallInstruction) []*ssa.Function {
	cc := call.Common()
	if f := cc.StaticCallee(); f != nil {
		return []*ssa.Function{f}
	}
	if cc.IsInvoke() {
		return nil
	}
	var out []*ssa.Function
	v := cc.Value
	if ld, ok := v.(*ssa.UnOp); ok && ld.Op == token.MUL {
		cell := ld.X
		// follow a free variable to the enclosing function's binding
		out = append(out, closuresStoredIn(cell, call.Parent())...)
	}
	return out
}

func closuresStoredIn(cell ssa.Value, in *ssa.Function) []*ssa.Function {
	var out []*ssa.Function
	switch c := cell.(type) {
	case *ssa.Alloc:
		for _, r := range *c.Referrers() {
			if st, ok := r.(*ssa.Store); ok && st.Addr == cell {
				if f := an.ClosureArg(st.Val); f != nil {
					out = append(out, f)
				}
			}
		}
	case *ssa.FreeVar:
		// find the binding in the parent
		par := in.Parent()
		if par == nil {
			return nil
		}
		idx := -1
		for k, fv := range in.FreeVars {
			if fv == c {
				idx = k
			}
		}
		if idx < 0 {
			return nil
		}
		for _, f := range an.WithAnons(par) {
			an.Instrs(f, func(i ssa.Instruction) {
				if mc, ok := i.(*ssa.MakeClosure); ok && mc.Fn == in && idx < len(mc.Bindings) {
					out = append(out, closuresStoredIn(mc.Bindings[idx], f)...)
				}
			})
		}
	}
	return out
}

// hasVisitedGuard: fn looks its selection-set parameter up in a map and
// returns early on a hit, and inserts it (the memo), before walking.
func hasVisitedGuard(fn *ssa.Function) bool {
	for _, pa := range fn.Params {
		n := an.NamedOf(pa.Type())
		if n == nil || n.Obj().Name() != "SelectionSet" {
			continue
		}
		lookup, insert := false, false
		an.Instrs(fn, func(i ssa.Instruction) {
			switch x := i.(type) {
			case *ssa.Lookup:
				if keyUses(x.Index, pa) {
					// the lookup result controls an early return
					for _, r := range *x.Referrers() {
						if controlsReturn(fn, r) {
							lookup = true
						}
					}
				}
			case *ssa.MapUpdate:
				if keyUses(x.Key, pa) {
					insert = true
				}
			}
		})
		if lookup && insert {
			return true
		}
	}
	return false
}

// keyUses: the map key is the parameter itself or a struct built from it.
func keyUses(key ssa.Value, pa *ssa.Parameter) bool {
	if key == ssa.Value(pa) {
		return true
	}
	if ld, ok := key.(*ssa.UnOp); ok {
		if al, ok := ld.X.(*ssa.Alloc); ok {
			for _, r := range *al.Referrers() {
				if fa, ok := r.(*ssa.FieldAddr); ok {
					for _, u := range *fa.Referrers() {
						if st, ok := u.(*ssa.Store); ok && st.Val == ssa.Value(pa) {
							return true
						}
					}
				}
			}
		}
	}
	return false
}

// controlsReturn: instruction r (an extract/compare of a lookup) feeds an If one
// of whose successors returns immediately.
func controlsReturn(fn *ssa.Function, r ssa.Instruction) bool {
	v, ok := r.(ssa.Value)
	if !ok {
		return false
	}
	seen := map[ssa.Value]bool{}
	var walk func(x ssa.Value) bool
	walk = func(x ssa.Value) bool {
		if seen[x] {
			return false
		}
		seen[x] = true
		for _, u := range *x.Referrers() {
			switch y := u.(type) {
			case *ssa.If:
				for _, s := range y.Block().Succs {
					// (through blocks that only jump on: an inlined helper's `return true` arrives at the
					// caller's `return` by way of such a block)
					for hops := 0; hops < 3 && len(s.Instrs) == 1 && len(s.Succs) == 1; hops++ {
						if _, isJump := s.Instrs[0].(*ssa.Jump); !isJump {
							break
						}
						s = s.Succs[0]
					}
					if len(s.Instrs) > 0 {
						if _, ok := s.Instrs[len(s.Instrs)-1].(*ssa.Return); ok && len(s.Instrs) <= 3 {
							return true
						}
					}
				}
			case *ssa.BinOp:
				if walk(y) {
					return true
				}
			case *ssa.Extract:
				if walk(y) {
					return true
				}
			}
		}
		return false
	}
	return walk(v)
}

// storedAsResolver: fn is a function literal that is stored into a Field's
// Resolve / BatchResolver (so it runs under SafeExecute*Resolver itself).
func storedAsResolver(fn *ssa.Function) bool {
	for f := fn; f != nil; f = f.Parent() {
		par := f.Parent()
		if par == nil {
			return false
		}
		found := false
		for _, g := range an.WithAnons(par) {
			an.Instrs(g, func(i ssa.Instruction) {
				mc, ok := i.(*ssa.MakeClosure)
				if !ok || mc.Fn != f {
					return
				}
				var refs []ssa.Instruction
				var collect func(v ssa.Value)
				collect = func(v ssa.Value) {
					for _, r := range *v.Referrers() {
						switch x := r.(type) {
						case *ssa.ChangeType:
							collect(x)
						case *ssa.MakeInterface:
							collect(x)
						default:
							refs = append(refs, r)
						}
					}
				}
				collect(mc)
				for _, r := range refs {
					if st, ok := r.(*ssa.Store); ok {
						if fa, ok := st.Addr.(*ssa.FieldAddr); ok {
							fname := an.FieldName(fa.X.Type(), fa.Field)
							if n := an.NamedOf(fa.X.Type()); n != nil && n.Obj().Name() == "Field" && (fname == "Resolve" || fname == "BatchResolver") {
								found = true
							}
						}
					}
					if _, ok := r.(*ssa.Return); ok {
						// returned as a resolver value by a builder helper (e.g. func(...) graphql.Resolver)
						if strings.Contains(types.TypeString(mc.Type(), nil), "context.Context") {
							found = found || returnsResolver(g)
						}
					}
				}
			})
		}
		if found {
			return true
		}
	}
	return false
}

func returnsResolver(fn *ssa.Function) bool {
	res := fn.Signature.Results()
	for k := 0; k < res.Len(); k++ {
		if n := an.NamedOf(res.At(k).Type()); n != nil && (n.Obj().Name() == "Resolver" || n.Obj().Name() == "BatchResolver") {
			return true
		}
		if _, ok := res.At(k).Type().Underlying().(*types.Signature); ok {
			return true
		}
	}
	return false
}

// assertionJustified returns a reason when a single-value assertion cannot panic.
func assertionJustified(p *an.Prog, fn *ssa.Function, ta *ssa.TypeAssert) string {
	// (b) dominated by a successful comma-ok assertion of the same operand path to the same type
	path := an.Expr(ta.X)
	tstr := types.TypeString(ta.AssertedType, func(p *types.Package) string { return p.Name() })
	if an.HasGuard(ta.Block(), path+".("+tstr+")#1") {
		return "dominated by comma-ok"
	}
	// (a) operand is a struct field all of whose stores (module-wide) have the asserted static type
	if ld, ok := ta.X.(*ssa.UnOp); ok {
		if fa, ok := ld.X.(*ssa.FieldAddr); ok {
			n := an.NamedOf(fa.X.Type())
			if n != nil && n.Obj().Pkg() != nil && strings.HasPrefix(n.Obj().Pkg().Path(), an.ModulePath) {
				fname := an.FieldName(fa.X.Type(), fa.Field)
				stores, allTyped := 0, true
				for _, f := range p.ModuleFuncs(nil) {
					if strings.HasSuffix(p.Fset.Position(f.Pos()).Filename, "_test.go") {
						continue
					}
					for _, r := range an.FieldRefs(f, n.Obj().Pkg().Path(), n.Obj().Name(), fname) {
						if r.Kind == "store" {
							stores++
							if !types.Identical(an.StripConv(r.Val).Type(), ta.AssertedType) {
								allTyped = false
							}
						}
						if r.Kind == "addr" {
							allTyped = false
						}
					}
				}
				if stores > 0 && allTyped {
					return "typed field"
				}
			}
		}
	}
	return ""
}

// freeVarCell maps a value used inside closure f (nested in cl, created in
// outer) that denotes a captured variable back to the outer function's cell.
func freeVarCell(outer, cl, f *ssa.Function, v ssa.Value) ssa.Value {
	v = an.Unload(v)
	fv, ok := v.(*ssa.FreeVar)
	if !ok {
		return nil
	}
	cur := f
	var cell ssa.Value = fv
	for cur != nil && cur != outer {
		fvv, ok := cell.(*ssa.FreeVar)
		if !ok {
			return nil
		}
		idx := -1
		for k, x := range cur.FreeVars {
			if x == fvv {
				idx = k
			}
		}
		par := cur.Parent()
		if idx < 0 || par == nil {
			return nil
		}
		var binding ssa.Value
		an.Instrs(par, func(i ssa.Instruction) {
			if mc, ok := i.(*ssa.MakeClosure); ok && mc.Fn == cur {
				binding = mc.Bindings[idx]
			}
		})
		if binding == nil {
			return nil
		}
		cell = binding
		cur = par
	}
	return cell
}

// cellOf: the local variable cell a value was loaded from.
func cellOf(v ssa.Value) ssa.Value {
	switch x := v.(type) {
	case *ssa.UnOp:
		if x.Op == token.MUL {
			return x.X
		}
	case *ssa.Alloc:
		return x
	}
	return v
}

// persistentMemo: some closure of parent looks its *Fragment / *SelectionSet
// parameter up in a map, returns success without descending when the entry
// says so, records the parameter in the same map, and nothing ever deletes
// from that map. Returns "" when such a memo exists, otherwise what is missing.
func persistentMemo(parent *ssa.Function) string {
	// the visitor may be a closure of parent or a function / method parent calls (closures
	// turned into methods of a small visitor struct): everything reachable through static calls
	// inside the package, two levels deep
	fns := an.WithAnons(parent)
	seenFn := map[*ssa.Function]bool{}
	for _, f := range fns {
		seenFn[f] = true
	}
	for depth := 0; depth < 2; depth++ {
		for _, f := range append([]*ssa.Function(nil), fns...) {
			an.Instrs(f, func(i ssa.Instruction) {
				cc := an.CallOf(i)
				if cc == nil {
					return
				}
				g := cc.StaticCallee()
				if g == nil || g.Blocks == nil || seenFn[g] || an.RelPkg(g) != an.RelPkg(parent) {
					return
				}
				seenFn[g] = true
				fns = append(fns, an.WithAnons(g)...)
			})
		}
	}
	return persistentMemoIn(fns)
}

func persistentMemoIn(fns []*ssa.Function) string {
	deleted := map[string]bool{}
	for _, g := range fns {
		an.Instrs(g, func(i ssa.Instruction) {
			if cc := an.CallOf(i); cc != nil {
				if b, ok := cc.Value.(*ssa.Builtin); ok && b.Name() == "delete" {
					deleted[an.Expr(cc.Args[0])] = true
				}
			}
		})
	}
	why := "no visitor that skips a fragment it has already finished"
	for _, g := range fns[1:] {
		for _, pa := range g.Params {
			n := an.NamedOf(pa.Type())
			if n == nil || (n.Obj().Name() != "Fragment" && n.Obj().Name() != "SelectionSet") {
				continue
			}
			skips := map[string]bool{}
			inserts := map[string]bool{}
			an.Instrs(g, func(i ssa.Instruction) {
				switch x := i.(type) {
				case *ssa.Lookup:
					if keyUses(x.Index, pa) && controlsNilReturn(x) {
						skips[an.Expr(x.X)] = true
					}
				case *ssa.MapUpdate:
					if keyUses(x.Key, pa) {
						inserts[an.Expr(x.Map)] = true
					}
				}
			})
			for m := range skips {
				if !inserts[m] {
					continue
				}
				if deleted[m] {
					why = "the visited set " + m + " has entries deleted again (it only tracks the current path)"
					continue
				}
				return ""
			}
		}
	}
	return why
}

// controlsNilReturn: the lookup result (through extracts and comparisons)
// decides an If one of whose successors returns immediately with a nil error.
func controlsNilReturn(v ssa.Value) bool {
	seen := map[ssa.Value]bool{}
	var walk func(x ssa.Value) bool
	walk = func(x ssa.Value) bool {
		if seen[x] {
			return false
		}
		seen[x] = true
		for _, u := range *x.Referrers() {
			switch y := u.(type) {
			case *ssa.If:
				for _, s := range y.Block().Succs {
					if len(s.Instrs) == 0 || len(s.Instrs) > 3 {
						continue
					}
					if ret, ok := s.Instrs[len(s.Instrs)-1].(*ssa.Return); ok && len(ret.Results) > 0 && isConstNil(ret.Results[len(ret.Results)-1]) {
						return true
					}
				}
			case *ssa.BinOp:
				if walk(y) {
					return true
				}
			case *ssa.Extract:
				if walk(y) {
					return true
				}
			}
		}
		return false
	}
	return walk(v)
}
