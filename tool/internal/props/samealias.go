package props

import (
	"go/token"

	"golang.org/x/tools/go/ssa"

	"thunderlint/internal/an"
)

// ruleSameAliasAgreement (C15, C14; sibling rule): the two places that merge
// selections sharing an alias - graphql.Flatten for execution and
// federation.mergeSameAlias for planning - merge sub-selections only of
// selections that select the same field the same way. Each must reject, with an
// error on every path, a pair that differs in (a) field name, (b) arguments,
// (c) having sub-selections. Parse's detectConflicts covers only the top level,
// and PrepareQuery validates every selection on its own, so without these
// checks a validated query reaches `selection.SelectionSet.Selections` with a
// nil set, or runs one field's sub-selections against another field's type.
func ruleSameAliasAgreement(c *an.Ctx, o *an.O) {
	p := c.P
	type site struct{ rel, name string }
	for _, s := range []site{{gq, "Flatten"}, {fed, "mergeSameAlias"}} {
		fn := c.NeedFunc(s.rel, s.name)
		o.SitePos(p.Pos(fn.Pos()))
		found := map[string]bool{}
		for _, g := range an.WithAnons(fn) {
			for _, b := range g.Blocks {
				if len(b.Instrs) == 0 {
					continue
				}
				iff, ok := b.Instrs[len(b.Instrs)-1].(*ssa.If)
				if !ok {
					continue
				}
				kind, mismatchOnTrue, ok := classifyAliasTest(iff.Cond, b)
				if !ok {
					continue
				}
				mis := b.Succs[1]
				if mismatchOnTrue {
					mis = b.Succs[0]
				}
				if abortsWithError(g, iff, mis) {
					found[kind] = true
					o.Site(iff)
				}
			}
		}
		for _, k := range []struct{ kind, what string }{
			{"name", "select different fields"},
			{"args", "pass different arguments"},
			{"presence", "do not agree on having sub-selections"},
		} {
			if !found[k.kind] {
				o.Fail(p.Pos(fn.Pos()), "%s merges selections that share an alias without rejecting a pair that %s: Parse only compares same-alias selections at the top level and PrepareQuery validates each selection alone, so a validated query like { a { x: obj { f } x: scalar } } reaches the merge, which dereferences a nil selection set or runs one field's sub-selections against another field's type (a panic on a scheduler goroutine)", an.QualName(fn), k.what)
			}
		}
	}
}

// selectionField: v is a load of field `field` of a graphql.Selection; returns the selection.
func selectionField(v ssa.Value, field string) (ssa.Value, bool) {
	if mi, ok := v.(*ssa.MakeInterface); ok {
		v = mi.X
	}
	ld, ok := v.(*ssa.UnOp)
	if !ok || ld.Op != token.MUL {
		return nil, false
	}
	fa, ok := ld.X.(*ssa.FieldAddr)
	if !ok || !an.IsFieldAccess(fa, "Selection", field) {
		return nil, false
	}
	return fa.X, true
}

// nilTestedSelections collects the selections whose SelectionSet is compared with nil inside v.
func nilTestedSelections(v ssa.Value, into map[string]bool, depth int) {
	if depth > 4 {
		return
	}
	switch x := v.(type) {
	case *ssa.UnOp:
		if x.Op == token.NOT {
			nilTestedSelections(x.X, into, depth+1)
		}
	case *ssa.BinOp:
		if x.Op != token.EQL && x.Op != token.NEQ {
			return
		}
		for _, pr := range [][2]ssa.Value{{x.X, x.Y}, {x.Y, x.X}} {
			if sel, ok := selectionField(pr[0], "SelectionSet"); ok && isConstNil(pr[1]) {
				into[an.Expr(sel)] = true
				return
			}
		}
		nilTestedSelections(x.X, into, depth+1)
		nilTestedSelections(x.Y, into, depth+1)
	}
}

// classifyAliasTest recognises the three agreement tests; mismatchOnTrue tells
// which successor is taken when the two selections disagree.
func classifyAliasTest(cond ssa.Value, b *ssa.BasicBlock) (kind string, mismatchOnTrue, ok bool) {
	neg := false
	for {
		u, isNot := cond.(*ssa.UnOp)
		if !isNot || u.Op != token.NOT {
			break
		}
		neg = !neg
		cond = u.X
	}
	switch x := cond.(type) {
	case *ssa.BinOp:
		if x.Op != token.EQL && x.Op != token.NEQ {
			return "", false, false
		}
		a, oka := selectionField(x.X, "Name")
		bb, okb := selectionField(x.Y, "Name")
		if oka && okb && a != bb {
			return "name", (x.Op == token.NEQ) != neg, true
		}
		// presence: (a.SelectionSet == nil) != (b.SelectionSet == nil), or a nil test of one
		// selection's set under a nil test of another's
		tested := map[string]bool{}
		nilTestedSelections(x, tested, 0)
		if len(tested) >= 2 {
			// the combination is a disagreement test when it is an inequality of two nil tests
			_, xb := x.X.(*ssa.BinOp)
			_, yb := x.Y.(*ssa.BinOp)
			if xb && yb {
				return "presence", (x.Op == token.NEQ) != neg, true
			}
		}
		if len(tested) == 1 {
			outer := map[string]bool{}
			var outerPol []bool
			for _, g := range an.GuardsOf(b) {
				before := len(outer)
				nilTestedSelections(g.Cond, outer, 0)
				if len(outer) > before {
					gb, _ := g.Cond.(*ssa.BinOp)
					// polarity: is the outer selection's set nil on this path?
					outerPol = append(outerPol, gb != nil && (gb.Op == token.EQL) == g.Polarity)
				}
			}
			for k := range tested {
				delete(outer, k)
			}
			if len(outer) >= 1 && len(outerPol) > 0 {
				// outer set is nil (non-nil) on this path: the pair disagrees when the inner one is non-nil (nil)
				outerNil := outerPol[0]
				innerNilOnTrue := (x.Op == token.EQL) != neg
				return "presence", innerNilOnTrue != outerNil, true
			}
		}
	case *ssa.Call:
		f := an.CalleeFunc(&x.Call)
		if f == nil || f.Pkg() == nil || f.Pkg().Path() != "reflect" || f.Name() != "DeepEqual" || len(x.Call.Args) != 2 {
			return "", false, false
		}
		a, oka := selectionField(x.Call.Args[0], "UnparsedArgs")
		bb, okb := selectionField(x.Call.Args[1], "UnparsedArgs")
		if oka && okb && a != bb {
			return "args", neg, true
		}
	}
	return "", false, false
}

// abortsWithError: every path from block `from` ends in a return with a non-nil error,
// without coming back to the test.
func abortsWithError(fn *ssa.Function, iff *ssa.If, from *ssa.BasicBlock) bool {
	if len(from.Instrs) == 0 {
		return false
	}
	reached := an.Reach(fn, from.Instrs[0], nil)
	reached[from.Instrs[0]] = true
	if reached[iff] {
		return false
	}
	sawReturn := false
	for i := range reached {
		ret, ok := i.(*ssa.Return)
		if !ok {
			continue
		}
		sawReturn = true
		if len(ret.Results) == 0 {
			return false
		}
		e := an.ResultAt(ret, len(ret.Results)-1)
		if !an.IsErrorType(e.Type()) || !an.DefinitelyNonNil(e, 0) {
			return false
		}
	}
	return sawReturn
}
