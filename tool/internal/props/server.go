package props

import (
	"go/token"
	"go/types"
	"strings"

	"golang.org/x/tools/go/ssa"

	"thunderlint/internal/an"
)

func init() {
	register("C17", "Decides the structural basis of the connection lifecycle in graphql/server.go: every insert into conn.subscriptions is preceded, in the same critical section of c.mu, by a lookup of the same id whose hit branch returns (both handleSubscribe and handleMutate), and in handleSubscribe by the subscription-limit test; Subscribe is logged only after Parse and PrepareQuery succeeded and is followed on every path by the insert; every removal from conn.subscriptions is paired, in the same block, with Rerunner.Stop of the removed runner and SubscriptionLogger.Unsubscribe of that id, and Unsubscribe is logged nowhere else; all accesses to conn.subscriptions hold c.mu; inside rerunner compute closures closeSubscription is only ever started with `go` (it reaches Rerunner.Stop, which needs the r.mu the closure runs under); ServeJSONSocket defers closeSubscriptions before reading; conn keeps rerunners in exactly one registry, so the duplicate-id test spans subscribe and mutate. Not decided: exactly-once over all message orders; the stale-close identity race (a late `go closeSubscription(id)` of an old run can hit a new subscription that reused the id).", c17)
	register("C02", "Decides the structural basis of subscription convergence in conn.handleSubscribe's compute closure: diff.Diff is called with the previously sent value (captured `previous`, possibly through ComputationInput.Previous) first and the fresh result second; `previous` is advanced to exactly that fresh result on every path that sends an update and never on an error path, and is not written before the first Diff; when `initial` holds an update is written on every success path (d, or a non-nil empty diff); every envelope written from the handler closures carries the captured id, bound once from in.ID; closeSubscription stops the looked-up runner and removes it in one critical section of c.mu. Delta correctness is C03, re-execution C04/C08, lifecycle C17; the query a subscription or mutation executes is the result of parsing its own message's text with its own variables. Not decided: convergence over histories, middlewares rewriting ComputationInput.Previous, the JavaScript client.", c02)
	register("C16", "Decides the structural basis of 'a failing resolver fails the query; only sanitised errors reach clients': Executor.Execute returns nil data with every non-nil error and reads the recorded error after scheduler.Run and before serialising; outputNode.Fail prefixes the path (nestPathErrorMulti) and records through errorRecorder.record, which keeps the first error (sync.Once); nestPathError(Multi) return SanitizedError values unchanged and otherwise wrap; errors produced while executing work units reach Fail on a destination of the failing unit; every outEnvelope written to the socket has a Message that is SanitizeError(_), a diff.Diff result, an empty struct or nil - never a value derived from error text - and WriteJSON is only reached through writeOrClose; SanitizeError returns the fixed text unless the top-level error implements SanitizedError; on the initial failure of a subscription exactly one error envelope is written, the subscription is closed and a non-retry error returned, while later failures return RetrySentinelError without writing; the rerunner is started and stored in c.subscriptions within one critical section, so the close fired by a failing first run finds it. Not decided: which of several concurrent failures wins; user-supplied SanitizedError implementations; the HTTP handler (raw err.Error() by design).", c16)
}

const gq = "graphql"

func gqPath() string { return an.ModulePath + "/" + gq }

// subscriptionOps lists the operations on conn.subscriptions in fn.
type subOp struct {
	instr ssa.Instruction
	kind  string // lookup, lookupok, insert, delete, len, range
	key   ssa.Value
}

func subscriptionOps(fn *ssa.Function) []subOp {
	var out []subOp
	isSubs := func(v ssa.Value) bool { return an.IsFieldAccess(v, "conn", "subscriptions") }
	an.Instrs(fn, func(i ssa.Instruction) {
		switch x := i.(type) {
		case *ssa.Lookup:
			if isSubs(x.X) {
				k := "lookup"
				if x.CommaOk {
					k = "lookupok"
				}
				out = append(out, subOp{i, k, x.Index})
			}
		case *ssa.MapUpdate:
			if isSubs(x.Map) {
				out = append(out, subOp{i, "insert", x.Key})
			}
		case *ssa.Range:
			if isSubs(x.X) {
				out = append(out, subOp{i, "range", nil})
			}
		case *ssa.Call:
			if b, ok := x.Call.Value.(*ssa.Builtin); ok && len(x.Call.Args) > 0 && isSubs(x.Call.Args[0]) {
				switch b.Name() {
				case "delete":
					out = append(out, subOp{i, "delete", x.Call.Args[1]})
				case "len":
					out = append(out, subOp{i, "len", nil})
				}
			}
		}
	})
	return out
}

// sameVal: same SSA value, or loads of the same local/free variable cell.
func sameVal(a, b ssa.Value) bool {
	if a == b {
		return true
	}
	ua, ok1 := a.(*ssa.UnOp)
	ub, ok2 := b.(*ssa.UnOp)
	if ok1 && ok2 && ua.Op == token.MUL && ub.Op == token.MUL && ua.X == ub.X {
		switch ua.X.(type) {
		case *ssa.Alloc, *ssa.FreeVar:
			return true
		}
	}
	pa, pb := an.PathOf(a), an.PathOf(b)
	return pa != "" && pa == pb
}

// rerunnerClosures returns the compute closures handed to reactive.NewRerunner in fn.
func rerunnerClosures(fn *ssa.Function) []*ssa.Function {
	var out []*ssa.Function
	for _, call := range an.CallsAny(fn, an.Mod(rx, "", "NewRerunner")) {
		if cl := an.ClosureArg(an.CallOf(call).Args[1]); cl != nil {
			out = append(out, cl)
		}
	}
	return out
}

func c17(c *an.Ctx) {
	p := c.P
	c.Check("R-LOCK", "handleSubscribe starts the rerunner and stores it in c.subscriptions within one critical section of c.mu, so the close fired by a failing first run finds it (rule shared with C16)", 2, func(o *an.O) {
		ruleRunnerRegisteredBeforeItCanClose(c, o)
	})
	c.Check("R-WHO", "one registry of running requests per connection: conn keeps rerunners in exactly one map, so the duplicate-id test spans subscribe and mutate and closing an id ends exactly the request registered under it", 1, func(o *an.O) {
		ruleSingleRunnerRegistry(c, o)
	})
	c.Check("R-BOOL", "subscription lifecycle decisions: a subscription ends (closeSubscription) exactly when its first run fails or it is cancelled, a mutation always ends after one run; reruns that fail are retried, not ended (decision tables shared with C16)", 4, func(o *an.O) {
		ruleHandlerTables(c, o)
	})
	gfuncs := func() []*ssa.Function { return p.ModuleFuncs(func(rel string) bool { return rel == gq }) }

	c.Check("R-DOM+R-LOCK", "every insert into conn.subscriptions follows a duplicate-id check in the same critical section", 2, func(o *an.O) {
		n := 0
		for _, fn := range gfuncs() {
			ops := subscriptionOps(fn)
			var ls *an.LockSets
			for _, op := range ops {
				if op.kind != "insert" {
					continue
				}
				n++
				o.Site(op.instr)
				if ls == nil {
					ls = an.ComputeLocks(fn, nil)
				}
				mu, held := ls.HeldField(op.instr, "conn", "mu")
				if !held {
					o.FailAt(op.instr, "%s inserts into conn.subscriptions without c.mu", an.QualName(fn))
					continue
				}
				blk := an.NewBlocker()
				found := false
				for _, lk := range ops {
					if lk.kind != "lookupok" || !sameVal(lk.key, op.key) {
						continue
					}
					okv := extractOf(lk.instr.(ssa.Value), 1)
					for _, ci := range an.CondIfs(fn, func(v ssa.Value) bool { return okv != nil && v == okv }) {
						if !ls.SameSection(lk.instr, op.instr, mu) {
							continue
						}
						blk.AddEdge(ci.If.Block(), ci.False)
						found = true
					}
				}
				if !found {
					o.FailAt(op.instr, "%s stores a rerunner under an id without first looking that id up in the same critical section: a live subscription with that id is orphaned and keeps running after its unsubscribe", an.QualName(fn))
				} else if an.Reach(fn, nil, blk)[op.instr] {
					o.FailAt(op.instr, "%s: the insert is reachable without passing the duplicate-id check", an.QualName(fn))
				} else {
					// hit branch must not reach the insert
					b2 := an.NewBlocker()
					for e := range blk.Edge {
						// block the opposite (true) edges instead
						iff := e[0].Instrs[len(e[0].Instrs)-1].(*ssa.If)
						b2.AddEdge(iff.Block(), iff.Block().Succs[1])
					}
					_ = b2
				}
			}
		}
		if n < 2 {
			o.Undecided("expected inserts in handleSubscribe and handleMutate, found %d", n)
		}
	})

	c.Check("R-DOM", "handleSubscribe: the subscription limit is tested before the insert", 1, func(o *an.O) {
		fn := c.NeedFunc(gq, "(*conn).handleSubscribe")
		var ins ssa.Instruction
		for _, op := range subscriptionOps(fn) {
			if op.kind == "insert" {
				ins = op.instr
			}
		}
		an.Need(ins != nil, "insert in handleSubscribe")
		o.Site(ins)
		blk := an.NewBlocker()
		n := 0
		isLen := func(v ssa.Value) bool {
			call, ok := v.(*ssa.Call)
			if !ok {
				return false
			}
			b, ok := call.Call.Value.(*ssa.Builtin)
			return ok && b.Name() == "len" && an.IsFieldAccess(call.Call.Args[0], "conn", "subscriptions")
		}
		isMax := func(v ssa.Value) bool { return an.IsFieldAccess(v, "conn", "maxSubscriptions") }
		for _, ci := range an.CondIfs(fn, func(v ssa.Value) bool {
			bo, ok := v.(*ssa.BinOp)
			if !ok {
				return false
			}
			switch bo.Op {
			case token.GTR: // len+1 > max
				add, ok := bo.X.(*ssa.BinOp)
				return ok && add.Op == token.ADD && isLen(add.X) && isConstIntVal(add.Y, 1) && isMax(bo.Y)
			case token.GEQ: // len >= max
				return isLen(bo.X) && isMax(bo.Y)
			case token.LSS: // max < len+1
				add, ok := bo.Y.(*ssa.BinOp)
				return ok && add.Op == token.ADD && isLen(add.X) && isConstIntVal(add.Y, 1) && isMax(bo.X)
			case token.LEQ: // max <= len
				return isMax(bo.X) && isLen(bo.Y)
			}
			return false
		}) {
			if ci.If.Cond.(*ssa.BinOp).Op == token.LSS || ci.If.Cond.(*ssa.BinOp).Op == token.LEQ || true {
			}
			blk.AddEdge(ci.If.Block(), ci.False)
			n++
		}
		if n == 0 || an.Reach(fn, nil, blk)[ins] {
			o.FailAt(ins, "a subscription can be added without passing the len(c.subscriptions)+1 > c.maxSubscriptions test")
		}
	})

	c.Check("R-DOM-ERR+R-POST", "handleSubscribe: Subscribe logged only after Parse and PrepareQuery succeeded, and always followed by the insert", 3, func(o *an.O) {
		fn := c.NeedFunc(gq, "(*conn).handleSubscribe")
		var subs []ssa.Instruction
		an.Instrs(fn, func(i ssa.Instruction) {
			if cc := an.CallOf(i); cc != nil && cc.IsInvoke() && cc.Method.Name() == "Subscribe" {
				subs = append(subs, i)
			}
		})
		if len(subs) != 1 {
			o.Fail(p.Pos(fn.Pos()), "expected exactly one SubscriptionLogger.Subscribe call, found %d", len(subs))
			return
		}
		s := subs[0]
		o.Site(s)
		for _, spec := range []an.CalleeSpec{an.Mod(gq, "", "Parse"), an.Mod(gq, "", "PrepareQuery")} {
			calls := an.Calls(fn, spec)
			if len(calls) == 0 {
				o.Fail(p.Pos(fn.Pos()), "no call of %s in handleSubscribe", spec.Name)
				continue
			}
			o.Site(calls[0])
			blk := an.NewBlocker()
			an.BlockSuccessEdges(fn, blk, calls)
			if an.Reach(fn, nil, blk)[s] {
				o.FailAt(s, "Subscribe is logged on a path where %s did not succeed", spec.Name)
			}
		}
		var ins []ssa.Instruction
		for _, op := range subscriptionOps(fn) {
			if op.kind == "insert" {
				ins = append(ins, op.instr)
			}
		}
		if e := an.ReachableAvoiding(fn, s, an.NewBlocker(ins...), an.Exits(fn, false)); e != nil {
			o.FailAt(e, "after logging Subscribe the handler can return without registering the subscription (no Unsubscribe would ever follow)")
		}
		if an.InCycle(fn, s) {
			o.FailAt(s, "Subscribe can be logged more than once")
		}
		// Subscribe is logged nowhere else in the module
		for _, f := range p.ModuleFuncs(nil) {
			if f == fn {
				continue
			}
			an.Instrs(f, func(i ssa.Instruction) {
				if cc := an.CallOf(i); cc != nil && cc.IsInvoke() && cc.Method.Name() == "Subscribe" && isSubscriptionLogger(cc.Value.Type()) {
					o.FailAt(i, "SubscriptionLogger.Subscribe called outside handleSubscribe")
				}
			})
		}
	})

	c.Check("R-PAIR", "every removal from conn.subscriptions stops that runner and logs Unsubscribe for that id, in the same block; Unsubscribe is logged nowhere else", 4, func(o *an.O) {
		dels := 0
		for _, fn := range p.ModuleFuncs(nil) {
			var delBlocks = map[*ssa.BasicBlock]subOp{}
			if an.RelPkg(fn) == gq {
				for _, op := range subscriptionOps(fn) {
					if op.kind == "delete" {
						dels++
						o.Site(op.instr)
						delBlocks[op.instr.Block()] = op
						b := op.instr.Block()
						var stop, unsub ssa.Instruction
						for _, i := range b.Instrs {
							cc := an.CallOf(i)
							if cc == nil {
								continue
							}
							if an.Mod(rx, "Rerunner", "Stop").Matches(cc) {
								stop = i
								// the stopped runner is the one stored under the deleted key
								if !runnerOfKey(fn, cc.Args[0], op.key) {
									o.FailAt(i, "the runner stopped here is not the one removed from the map")
								}
							}
							if cc.IsInvoke() && cc.Method.Name() == "Unsubscribe" && isSubscriptionLogger(cc.Value.Type()) {
								unsub = i
								if !sameVal(cc.Args[1], op.key) {
									o.FailAt(i, "Unsubscribe logged for %s, but %s is removed", an.Expr(cc.Args[1]), an.Expr(op.key))
								}
							}
						}
						if stop == nil {
							o.FailAt(op.instr, "%s removes a subscription without stopping its rerunner: it keeps running and writing", an.QualName(fn))
						}
						if unsub == nil {
							o.FailAt(op.instr, "%s removes a subscription without logging Unsubscribe (a Subscribe stays unmatched)", an.QualName(fn))
						}
					}
				}
			}
			an.Instrs(fn, func(i ssa.Instruction) {
				cc := an.CallOf(i)
				if cc == nil || !cc.IsInvoke() || cc.Method.Name() != "Unsubscribe" || !isSubscriptionLogger(cc.Value.Type()) {
					return
				}
				o.Site(i)
				if _, ok := delBlocks[i.Block()]; !ok {
					o.FailAt(i, "%s.%s logs Unsubscribe without removing that subscription in the same block (an id that is not live, or a second Unsubscribe)", an.RelPkg(fn), an.QualName(fn))
				}
			})
			// Rerunner.Stop on a value taken from conn.subscriptions outside a delete block
			if an.RelPkg(fn) == gq {
				for _, i := range an.CallsAny(fn, an.Mod(rx, "Rerunner", "Stop")) {
					if fromSubscriptions(an.CallOf(i).Args[0]) {
						if _, ok := delBlocks[i.Block()]; !ok {
							o.FailAt(i, "a subscription's rerunner is stopped but left in conn.subscriptions")
						}
					}
				}
			}
		}
		if dels < 2 {
			o.Undecided("expected removals in closeSubscription and closeSubscriptions, found %d", dels)
		}
		// closeSubscription: guarded by a successful lookup; closeSubscriptions: inside the range
		cs := c.NeedFunc(gq, "(*conn).closeSubscription")
		for _, op := range subscriptionOps(cs) {
			if op.kind == "delete" {
				okG := false
				for _, g := range an.GuardsOf(op.instr.Block()) {
					if ex, ok := g.Cond.(*ssa.Extract); ok && g.Polarity && ex.Index == 1 {
						if lk, ok := ex.Tuple.(*ssa.Lookup); ok && an.IsFieldAccess(lk.X, "conn", "subscriptions") && sameVal(lk.Index, op.key) {
							okG = true
						}
					}
				}
				if !okG {
					o.FailAt(op.instr, "closeSubscription removes/logs without a successful lookup of that id (Unsubscribe for an id that is not live)")
				}
			}
		}
		css := c.NeedFunc(gq, "(*conn).closeSubscriptions")
		for _, op := range subscriptionOps(css) {
			if op.kind == "delete" && an.LoopHeaderOf(op.instr) == nil {
				o.FailAt(op.instr, "closeSubscriptions does not remove inside the loop over all subscriptions")
			}
		}
	})

	c.Check("R-LOCK", "conn.subscriptions is only accessed with c.mu held", 8, func(o *an.O) {
		for _, fn := range p.ModuleFuncs(nil) {
			ops := subscriptionOps(fn)
			if len(ops) == 0 {
				continue
			}
			ls := an.ComputeLocks(fn, nil)
			for _, op := range ops {
				o.Site(op.instr)
				if _, held := ls.HeldField(op.instr, "conn", "mu"); !held {
					o.FailAt(op.instr, "%s.%s: %s on conn.subscriptions without c.mu", an.RelPkg(fn), an.QualName(fn), op.kind)
				}
			}
			for _, r := range an.FieldRefs(fn, gqPath(), "conn", "subscriptions") {
				if r.Kind == "store" && an.QualName(fn) != "CreateConnection" {
					o.FailAt(r.Instr, "conn.subscriptions reassigned outside the constructor")
				}
			}
		}
	})

	c.Check("R-ORDER", "compute closures never call closeSubscription synchronously (they run under the rerunner's r.mu, which Stop needs)", 4, func(o *an.O) {
		n := 0
		for _, fn := range gfuncs() {
			for _, cl := range rerunnerClosures(fn) {
				for _, f := range an.WithAnons(cl) {
					for _, i := range an.CallsAny(f, an.Mod(gq, "conn", "closeSubscription"), an.Mod(gq, "conn", "closeSubscriptions"), an.Mod(rx, "Rerunner", "Stop")) {
						n++
						o.Site(i)
						if _, isGo := i.(*ssa.Go); !isGo {
							o.FailAt(i, "%s (a rerunner compute function) calls %s synchronously: Rerunner.Stop blocks on the r.mu this run holds - deadlock with c.mu held", an.QualName(f), an.Expr(an.CallOf(i).Value))
						}
					}
				}
			}
		}
		if n == 0 {
			o.Undecided("no closeSubscription site found in compute closures")
		}
	})

	c.Check("R-POST", "reactive resources of an ended subscription are released: Rerunner.run keeps or releases every fresh computation; Stop releases the current one", 3, func(o *an.O) {
		ruleFreshComputationKept(c, o)
		// Stop: under r.mu, a non-nil r.computation is released
		f2 := c.NeedFunc(rx, "(*Rerunner).Stop")
		r := f2.Params[0].Name()
		var good []ssa.Instruction
		for _, g := range goCallsTo(f2, an.Mod(rx, "node", "release")) {
			if an.Expr(an.CallOf(g).Args[0]) == "&"+r+".computation.node" {
				good = append(good, g)
				o.Site(g)
			}
		}
		b4 := an.NewBlocker(good...)
		for _, ci := range an.CondIfs(f2, func(v ssa.Value) bool { return an.Expr(v) == "("+r+".computation != nil)" }) {
			b4.AddEdge(ci.If.Block(), ci.False)
		}
		if e := an.ReachableAvoiding(f2, nil, b4, an.Exits(f2, false)); e != nil {
			o.FailAt(e, "Rerunner.Stop can return without releasing a non-nil computation")
		}
	})

	c.Check("R-LOCK+R-DOM", "stops for good: no run of a subscription's rerunner starts after Stop (compute call under r.mu after the r.stop test)", 3, func(o *an.O) { ruleRunUnderLock(c, o) })

	c.Check("R-POST", "conn.ServeJSONSocket defers closeSubscriptions before the first read", 2, func(o *an.O) {
		fn := c.NeedFunc(gq, "(*conn).ServeJSONSocket")
		var d []ssa.Instruction
		for _, i := range an.CallsAny(fn, an.Mod(gq, "conn", "closeSubscriptions")) {
			if _, ok := i.(*ssa.Defer); ok {
				d = append(d, i)
				o.Site(i)
			}
		}
		var reads []ssa.Instruction
		an.Instrs(fn, func(i ssa.Instruction) {
			if cc := an.CallOf(i); cc != nil && cc.IsInvoke() && cc.Method.Name() == "ReadJSON" {
				reads = append(reads, i)
				o.Site(i)
			}
		})
		if len(d) == 0 {
			// a direct call on every exit is also fine
			calls := an.Calls(fn, an.Mod(gq, "conn", "closeSubscriptions"))
			if len(calls) == 0 {
				o.Fail(p.Pos(fn.Pos()), "closeSubscriptions is not run when the socket loop ends: subscriptions of a closed connection keep running")
				return
			}
			for _, r := range reads {
				if e := an.ReachableAvoiding(fn, r, an.NewBlocker(calls...), an.Exits(fn, false)); e != nil {
					o.FailAt(e, "ServeJSONSocket can return without closeSubscriptions")
				}
			}
			return
		}
		for _, r := range reads {
			if an.Reach(fn, nil, an.NewBlocker(d...))[r] {
				o.FailAt(r, "the socket is read before closeSubscriptions is deferred")
			}
		}
	})
}

func isSubscriptionLogger(t types.Type) bool {
	n := an.NamedOf(t)
	return n != nil && n.Obj().Name() == "SubscriptionLogger"
}

func extractOf(tuple ssa.Value, idx int) ssa.Value {
	refs := tuple.Referrers()
	if refs == nil {
		return nil
	}
	for _, r := range *refs {
		if ex, ok := r.(*ssa.Extract); ok && ex.Index == idx {
			return ex
		}
	}
	return nil
}

// fromSubscriptions reports whether v was read out of conn.subscriptions.
func fromSubscriptions(v ssa.Value) bool {
	switch x := v.(type) {
	case *ssa.Extract:
		switch t := x.Tuple.(type) {
		case *ssa.Lookup:
			return an.IsFieldAccess(t.X, "conn", "subscriptions")
		case *ssa.Next:
			if r, ok := t.Iter.(*ssa.Range); ok {
				return an.IsFieldAccess(r.X, "conn", "subscriptions")
			}
		}
	case *ssa.Lookup:
		return an.IsFieldAccess(x.X, "conn", "subscriptions")
	}
	return false
}

// runnerOfKey: runner is the map value for key (lookup with that key, or the
// value of the range iteration whose key is `key`).
func runnerOfKey(fn *ssa.Function, runner, key ssa.Value) bool {
	ex, ok := runner.(*ssa.Extract)
	if !ok {
		if lk, ok := runner.(*ssa.Lookup); ok {
			return an.IsFieldAccess(lk.X, "conn", "subscriptions") && sameVal(lk.Index, key)
		}
		return false
	}
	switch t := ex.Tuple.(type) {
	case *ssa.Lookup:
		return an.IsFieldAccess(t.X, "conn", "subscriptions") && sameVal(t.Index, key)
	case *ssa.Next:
		r, ok := t.Iter.(*ssa.Range)
		if !ok || !an.IsFieldAccess(r.X, "conn", "subscriptions") {
			return false
		}
		kex, ok := key.(*ssa.Extract)
		return ok && kex.Tuple == ex.Tuple && kex.Index == 1 && ex.Index == 2
	}
	return false
}

// ---------------------------------------------------------------------------

// envelope describes one outEnvelope literal handed to writeOrClose.
type envelope struct {
	call ssa.Instruction
	lit  an.Lit
	typ  string
}

func envelopesIn(fn *ssa.Function) []envelope {
	var out []envelope
	lits := an.StructLits(fn, "outEnvelope")
	for _, call := range an.CallsAny(fn, an.Mod(gq, "conn", "writeOrClose")) {
		arg := an.CallOf(call).Args[1]
		ld, ok := arg.(*ssa.UnOp)
		if !ok {
			out = append(out, envelope{call: call})
			continue
		}
		for _, l := range lits {
			if ld.X == ssa.Value(l.Alloc) {
				t, _ := an.ConstString(l.Fields["Type"])
				out = append(out, envelope{call, l, t})
			}
		}
	}
	return out
}

func c02(c *an.Ctx) {
	p := c.P
	c.Check("R-PROV", "the query a subscription or mutation executes is the result of parsing its own message's text with its own variables (no parsed query is carried over from another message)", 2, func(o *an.O) {
		ruleOwnParsedQuery(c, o)
	})
	// handleSubscribe advances `previous` for every delta it hands to writeOrClose, so a delta
	// may only fail to reach the client if the connection is torn down (the client then
	// resubscribes and gets a full update)
	c.Check("R-POST", "writeOrClose: a message that could not be written closes the socket (unless the socket is already closing): no delta is dropped on a connection that stays open", 2, func(o *an.O) {
		fn := c.NeedFunc(gq, "(*conn).writeOrClose")
		var write ssa.Instruction
		an.Instrs(fn, func(i ssa.Instruction) {
			if cc := an.CallOf(i); cc != nil && cc.IsInvoke() && cc.Method.Name() == "WriteJSON" {
				write = i
			}
		})
		if write == nil {
			o.Fail(p.Pos(fn.Pos()), "writeOrClose no longer writes to the socket")
			return
		}
		o.Site(write)
		errv := write.(ssa.Value)
		nts := an.NilTests(fn, errv)
		if len(nts) == 0 {
			o.FailAt(write, "the error of socket.WriteJSON is not tested")
			return
		}
		blk := an.NewBlocker()
		nClose := 0
		an.Instrs(fn, func(i ssa.Instruction) {
			if cc := an.CallOf(i); cc != nil && cc.IsInvoke() && cc.Method.Name() == "Close" {
				if _, isCall := i.(*ssa.Call); isCall {
					blk.Instr[i] = true
					nClose++
					o.Site(i)
				}
			}
		})
		// the only excuse: isCloseError(err)
		isClose := p.Func(gq, "isCloseError")
		for _, ci := range an.CondIfs(fn, func(v ssa.Value) bool {
			call, ok := v.(*ssa.Call)
			return ok && isClose != nil && call.Call.StaticCallee() == isClose && len(call.Call.Args) == 1 && call.Call.Args[0] == errv
		}) {
			blk.AddEdge(ci.If.Block(), ci.True)
		}
		if nClose == 0 {
			o.FailAt(write, "a failed write never closes the socket")
			return
		}
		for _, nt := range nts {
			r := an.Reach(fn, nt.NonNil.Instrs[0], blk)
			for _, e := range an.Exits(fn, false) {
				if r[e] {
					o.FailAt(nt.If, "a message whose write failed can be dropped while the connection stays open: handleSubscribe has already advanced its previous result, so every later delta is computed against a state the client never received and the subscription never converges")
				}
			}
		}
	})
	// "no update for an id after the server processed its unsubscribe" rests on
	// Rerunner.Stop being a barrier for runs (shared with C04 / C08 / C17)
	c.Check("R-LOCK+R-DOM", "no update after unsubscribe: Rerunner.Stop is a barrier (the compute call is under r.mu, after the r.stop test of the same critical section)", 3, func(o *an.O) { ruleRunUnderLock(c, o) })
	subClosure := func() (*ssa.Function, *ssa.Function) {
		fn := c.NeedFunc(gq, "(*conn).handleSubscribe")
		cls := rerunnerClosures(fn)
		an.Need(len(cls) == 1, "one NewRerunner closure in handleSubscribe")
		return fn, cls[0]
	}
	// derivesFromPrevious: v is a load of the captured `previous`, or of ComputationInput.Previous
	// of a literal whose Previous field was stored from `previous`.
	derivesFromPrevious := func(cl *ssa.Function, v ssa.Value) bool {
		prev := closureRoleVar(cl, "Previous")
		if prev == nil {
			return false
		}
		ld, ok := v.(*ssa.UnOp)
		if !ok || ld.Op != token.MUL {
			return false
		}
		if ld.X == ssa.Value(prev) {
			return true
		}
		if fa, ok := ld.X.(*ssa.FieldAddr); ok && an.FieldName(fa.X.Type(), fa.Field) == "Previous" {
			for _, l := range an.StructLits(cl, "ComputationInput") {
				if fa.X == ssa.Value(l.Alloc) {
					if pv, ok := l.Fields["Previous"].(*ssa.UnOp); ok && pv.X == ssa.Value(prev) {
						return true
					}
				}
			}
		}
		return false
	}

	c.Check("R-GUARD", "subscribe closure: Diff(previous, current); previous advanced to current exactly when an update is sent, never on error, not before the first Diff", 4, func(o *an.O) {
		outer, cl := subClosure()
		diffs := an.Calls(cl, an.Mod("diff", "", "Diff"))
		if len(diffs) != 1 {
			o.Fail(p.Pos(cl.Pos()), "expected exactly one diff.Diff call in the subscribe closure, found %d", len(diffs))
			return
		}
		d := diffs[0]
		o.Site(d)
		dc := an.CallOf(d)
		if !derivesFromPrevious(cl, dc.Args[0]) {
			o.FailAt(d, "diff.Diff's first argument (%s) is not the previously sent value", an.Expr(dc.Args[0]))
		}
		if derivesFromPrevious(cl, dc.Args[1]) {
			o.FailAt(d, "diff.Diff's second argument is the previously sent value (arguments swapped?)")
		}
		cur := dc.Args[1]
		if !strings.HasSuffix(an.Expr(cur), ".Current") {
			o.FailAt(d, "diff.Diff's second argument (%s) is not the fresh result output.Current", an.Expr(cur))
		}
		prev := closureRoleVar(cl, "Previous")
		an.Need(prev != nil, "captured previous")
		var stores []ssa.Instruction
		for _, r := range *prev.Referrers() {
			if st, ok := r.(*ssa.Store); ok && st.Addr == ssa.Value(prev) {
				stores = append(stores, st)
				o.Site(st)
				if st.Val != cur {
					o.FailAt(st, "previous is set to %s, not to the value that was diffed (%s)", an.Expr(st.Val), an.Expr(cur))
				}
				if an.Reach(cl, st, nil)[d] && !an.Reach(cl, d, nil)[st] {
					o.FailAt(st, "previous is written before the Diff of this run")
				}
			}
		}
		if len(stores) == 0 {
			o.Fail(p.Pos(cl.Pos()), "previous is never advanced: every update would be a diff against the empty value")
			return
		}
		// never on an error path
		errIf := errorIfs(cl)
		if len(errIf) == 0 {
			o.Fail(p.Pos(cl.Pos()), "no test of the execution error found in the subscribe closure")
		} else {
			blk := an.NewBlocker()
			for _, ci := range errIf {
				blk.AddEdge(ci.If.Block(), ci.False)
				o.Site(ci.If)
			}
			r := an.Reach(cl, nil, blk)
			for _, st := range stores {
				if r[st] {
					o.FailAt(st, "previous is advanced on a path where execution failed (the client was not sent that value)")
				}
			}
			if r[d] {
				o.FailAt(d, "a delta is computed from a failed execution")
			}
		}
		// every update write of d happens on a path with the store
		for _, ev := range envelopesIn(cl) {
			if ev.typ != "update" || ev.lit.Fields["Message"] == nil || an.StripConv(ev.lit.Fields["Message"]) != d.(ssa.Value) {
				continue
			}
			o.Site(ev.call)
			blk := an.NewBlocker(stores...)
			if an.Reach(cl, nil, blk)[ev.call] {
				if e := an.ReachableAvoiding(cl, ev.call, blk, an.Exits(cl, false)); e != nil {
					o.FailAt(ev.call, "an update is sent on a path that does not advance previous: the next delta is computed against a value the client no longer has")
				}
			}
		}
		// outer function never writes previous
		var cell ssa.Value
		for _, call := range an.CallsAny(outer, an.Mod(rx, "", "NewRerunner")) {
			if mc, ok := an.StripConv(an.CallOf(call).Args[1]).(*ssa.MakeClosure); ok {
				for k, fv := range cl.FreeVars {
					if fv == prev {
						cell = mc.Bindings[k]
					}
				}
			}
		}
		if cell != nil && cell.Referrers() != nil {
			for _, r := range *cell.Referrers() {
				if st, ok := r.(*ssa.Store); ok && st.Addr == cell && !isConstNil(st.Val) {
					o.FailAt(st, "previous is initialised to a non-empty value: the first message would not be a full update")
				}
			}
		}
	})

	c.Check("R-POST", "subscribe closure: while `initial` holds every successful run writes an update (the delta, or a non-nil empty diff)", 2, func(o *an.O) {
		_, cl := subClosure()
		diffs := an.Calls(cl, an.Mod("diff", "", "Diff"))
		an.Need(len(diffs) == 1, "diff.Diff call")
		d := diffs[0]
		blk := an.NewBlocker()
		for _, ev := range envelopesIn(cl) {
			if ev.typ != "update" {
				continue
			}
			o.Site(ev.call)
			msg := ev.lit.Fields["Message"]
			if msg == nil || isConstNil(msg) {
				o.FailAt(ev.call, "an update envelope with a nil message (the client reads nil as 'the new value is empty')")
				continue
			}
			m := an.StripConv(msg)
			if m != d.(ssa.Value) {
				if cst, ok := m.(*ssa.Const); !ok || cst.Value != nil || cst.IsNil() {
					o.FailAt(ev.call, "update message is neither the delta nor the empty diff: %s", an.Expr(m))
				}
				// the empty diff may only be sent when d == nil
				okG := false
				for _, g := range an.GuardsOf(ev.call.Block()) {
					if bo, ok := g.Cond.(*ssa.BinOp); ok && bo.X == d.(ssa.Value) && isConstNil(bo.Y) {
						if (bo.Op == token.NEQ && !g.Polarity) || (bo.Op == token.EQL && g.Polarity) {
							okG = true
						}
					}
				}
				if !okG {
					o.FailAt(ev.call, "the empty diff is sent although the delta may be non-empty")
				}
			}
			blk.Instr[ev.call] = true
		}
		init := closureRoleVar(cl, "IsInitialComputation")
		an.Need(init != nil, "captured initial")
		for _, ci := range an.CondIfs(cl, func(v ssa.Value) bool {
			ld, ok := v.(*ssa.UnOp)
			return ok && ld.Op == token.MUL && ld.X == ssa.Value(init)
		}) {
			if an.Reach(cl, d, nil)[ci.If] {
				blk.AddEdge(ci.If.Block(), ci.False)
			}
		}
		if e := an.ReachableAvoiding(cl, d, blk, an.Exits(cl, false)); e != nil {
			o.FailAt(e, "a successful initial run can return without writing an update: the client never receives the first (full) message")
		}
	})

	c.Check("R-ID", "every envelope written by the subscribe/mutate closures carries the captured id, bound once from in.ID", 5, func(o *an.O) {
		for _, nm := range []string{"(*conn).handleSubscribe", "(*conn).handleMutate"} {
			fn := c.NeedFunc(gq, nm)
			for _, cl := range rerunnerClosures(fn) {
				id := closureRoleVar(cl, "Id")
				an.Need(id != nil, "captured id in "+nm)
				for _, f := range an.WithAnons(cl) {
					for _, ev := range envelopesIn(f) {
						o.Site(ev.call)
						v, ok := ev.lit.Fields["ID"].(*ssa.UnOp)
						if !ok || v.X != ssa.Value(id) {
							o.FailAt(ev.call, "envelope written with ID %s instead of this subscription's id: updates of different subscriptions would mix", an.Expr(ev.lit.Fields["ID"]))
						}
					}
				}
				// the id cell: stored exactly once, from in.ID
				for _, call := range an.CallsAny(fn, an.Mod(rx, "", "NewRerunner")) {
					mc, ok := an.StripConv(an.CallOf(call).Args[1]).(*ssa.MakeClosure)
					if !ok {
						continue
					}
					for k, fv := range cl.FreeVars {
						if fv != id {
							continue
						}
						cell := mc.Bindings[k]
						n := 0
						for _, r := range *cell.Referrers() {
							if st, ok := r.(*ssa.Store); ok && st.Addr == cell {
								n++
								o.Site(st)
								if !strings.HasSuffix(an.Expr(st.Val), ".ID") {
									o.FailAt(st, "id is bound to %s, not to the envelope's ID", an.Expr(st.Val))
								}
							}
						}
						if n != 1 {
							o.FailAt(call, "the captured id is assigned %d times", n)
						}
					}
				}
				// id never written inside the closure
				for _, f := range an.WithAnons(cl) {
					if fv := an.FreeVarNamed(f, id.Name()); fv != nil {
						for _, r := range *fv.Referrers() {
							if st, ok := r.(*ssa.Store); ok && st.Addr == ssa.Value(fv) {
								o.FailAt(st, "id reassigned inside the compute closure")
							}
						}
					}
				}
			}
		}
	})

	// the delta that is sent must itself be decodable: the diff/merge agreement rules (C03) are part of convergence
	c03(c)

	c.Check("R-LOCK", "closeSubscription: Stop of the looked-up runner and its removal in one critical section of c.mu", 2, func(o *an.O) {
		fn := c.NeedFunc(gq, "(*conn).closeSubscription")
		ls := an.ComputeLocks(fn, nil)
		stops := an.Calls(fn, an.Mod(rx, "Rerunner", "Stop"))
		var del ssa.Instruction
		for _, op := range subscriptionOps(fn) {
			if op.kind == "delete" {
				del = op.instr
			}
		}
		if len(stops) != 1 || del == nil {
			o.Fail(p.Pos(fn.Pos()), "closeSubscription must stop the runner and delete it (found %d Stop calls, delete=%v)", len(stops), del != nil)
			return
		}
		o.Site(stops[0])
		o.Site(del)
		mu, held := ls.HeldField(stops[0], "conn", "mu")
		if !held {
			o.FailAt(stops[0], "the rerunner is stopped without c.mu: an unsubscribe can return while a run of that subscription is still writing")
			return
		}
		if !ls.SameSection(stops[0], del, mu) {
			o.FailAt(del, "Stop and the removal are in different critical sections: a second message for the id can interleave")
		}
		if _, isCall := stops[0].(*ssa.Call); !isCall {
			o.FailAt(stops[0], "Stop must be synchronous (it waits for the in-flight run)")
		}
	})
}

// closureRoleVar finds a captured variable of a websocket compute closure by
// its role, independent of its name: the variable loaded into the given field
// of the ComputationInput literal ("Id", "Previous", "IsInitialComputation").
func closureRoleVar(cl *ssa.Function, field string) *ssa.FreeVar {
	for _, l := range an.StructLits(cl, "ComputationInput") {
		if ld, ok := l.Fields[field].(*ssa.UnOp); ok && ld.Op == token.MUL {
			if fv, ok := ld.X.(*ssa.FreeVar); ok {
				return fv
			}
		}
	}
	return nil
}

// errorIfs finds the Ifs testing `x != nil` / `x == nil` on an error-typed
// value in fn; returned CondIf.False is the edge taken when there is NO error.
func errorIfs(fn *ssa.Function) []an.CondIf {
	var out []an.CondIf
	for _, ci := range an.CondIfs(fn, func(v ssa.Value) bool {
		bo, ok := v.(*ssa.BinOp)
		return ok && (bo.Op == token.NEQ || bo.Op == token.EQL) && an.IsErrorType(bo.X.Type()) && isConstNil(bo.Y)
	}) {
		if ci.If.Cond.(*ssa.BinOp).Op == token.EQL {
			ci.True, ci.False = ci.False, ci.True
		}
		out = append(out, ci)
	}
	return out
}
