package props

import (
	"go/ast"
	"go/constant"
	"go/token"
	"go/types"
	"sort"
	"strings"

	"golang.org/x/tools/go/packages"
	"golang.org/x/tools/go/ssa"

	"thunderlint/internal/an"
)

func init() {
	register("C14", "Decides structural conditions of 'validated queries cannot go wrong and responses match the advertised schema': every type switch over graphql.Type in the module (validation, execution, introspection, federation) covers all output kinds or ends in an error/panic default; validation (prepareQuery) and execution (resolveBatch) partition the kinds the same way (leaf kinds reject selections, composite kinds require them, wrappers unwrap); in prepareQuery every selection is __typename, or found in the type's Fields and validated recursively against that field's type on every path, or rejected with a client error - for objects and unions alike; resolver adapters return an error for a nil pointer under a NonNull type (plain and batch), and enum values outside ReverseMap fail; getType returns NonNull exactly for the Go shapes that cannot be nil (enum, value scalar, value struct, slice) and the bare type for pointer shapes; the scalar output table and the scalar argument-parser table have the same key set; the leaf and list resolvers settle every destination (no null where a list or scalar is advertised); a nil pointer returned for a NonNull field is an error whatever the wrapped type. Not decided: conformance of actual responses for all Go type shapes and queries.", c14)
}

// typeSwitchesOverGraphqlType finds type switches whose operand has static type graphql.Type.
func typeSwitchesOverGraphqlType(p *an.Prog, pp *packages.Package) []struct {
	fn string
	sw an.SwitchInfo
} {
	var out []struct {
		fn string
		sw an.SwitchInfo
	}
	for _, f := range pp.Syntax {
		fname := p.Fset.Position(f.Pos()).Filename
		if strings.HasSuffix(fname, "_test.go") {
			continue
		}
		for _, d := range f.Decls {
			fd, ok := d.(*ast.FuncDecl)
			if !ok || fd.Body == nil {
				continue
			}
			for _, sw := range an.Switches(fd, pp) {
				if !sw.IsType {
					continue
				}
				ts := sw.Node.(*ast.TypeSwitchStmt)
				var x ast.Expr
				switch a := ts.Assign.(type) {
				case *ast.AssignStmt:
					x = a.Rhs[0].(*ast.TypeAssertExpr).X
				case *ast.ExprStmt:
					x = a.X.(*ast.TypeAssertExpr).X
				}
				tv, ok := pp.TypesInfo.Types[x]
				if !ok {
					continue
				}
				n, ok := tv.Type.(*types.Named)
				if !ok || n.Obj().Name() != "Type" || n.Obj().Pkg() == nil || n.Obj().Pkg().Path() != gqPath() {
					continue
				}
				name := fd.Name.Name
				if fd.Recv != nil && len(fd.Recv.List) == 1 {
					name = exprString(fd.Recv.List[0].Type) + "." + name
				}
				out = append(out, struct {
					fn string
					sw an.SwitchInfo
				}{name, sw})
			}
		}
	}
	return out
}

func c14(c *an.Ctx) {
	p := c.P
	c.Check("R-BOOL", "batch field adapter: a missing or nil batch result is an error exactly for non-nullable fields, a present one is delivered for its own source (decision tables shared with C01)", 6, func(o *an.O) {
		ruleBatchAdapterTables(c, o)
	})
	c.Check("R-PAIR", "object fields exactly as selected, for union values: a member is resolved with the union-level selections (__typename) and every applicable fragment (rule shared with C01 and C19)", 2, func(o *an.O) {
		ruleUnionMemberSelection(c, o)
	})

	c.Check("R-BOOL", "field-function adapter: a nil pointer returned for a NonNull field is an error whatever the wrapped type (evaluated under NonNull / pointer / nil / no error)", 1, func(o *an.O) {
		ruleNonNullResultTable(c, o)
	})

	c.Check("R-POST", "lists where lists are advertised: the leaf and list resolvers settle every destination, a skipped one would be serialised as null (rule shared with C01)", 3, func(o *an.O) {
		ruleDestinationsSettled(c, o)
	})

	c.Check("R-SIBLING", "a validated query cannot reach the same-alias merge with selections of different fields (rule shared with C15)", 8, func(o *an.O) {
		ruleSameAliasAgreement(c, o)
	})

	c.Check("R-POST", "prepareQuery validates every fragment below an object against that object: the executor inlines all of them (Flatten does not look at type conditions), so a fragment that validation skips is executed unvalidated", 1, func(o *an.O) {
		fn := c.NeedFunc(gq, "prepareQuery")
		n := 0
		for _, rc := range an.CallsToFunc(fn, fn) {
			call := an.CallOf(rc)
			// the recursion over fragment bodies with the object's own type: the selection-set argument
			// is a fragment's SelectionSet and the type argument does not come from a range over a map
			if !an.IsFieldAccess(call.Args[2], "Fragment", "SelectionSet") {
				continue
			}
			// ... with the function's own type (the *Object it was called with): union members are
			// looked up or ranged over in the union's type table and matched by type condition
			ownType := true
			for _, leaf := range phiLeaves(an.StripConv(call.Args[1])) {
				v := leaf
				if mi, ok := v.(*ssa.MakeInterface); ok {
					v = mi.X
				}
				if ex, ok := v.(*ssa.Extract); ok {
					if ta, ok := ex.Tuple.(*ssa.TypeAssert); ok && ta.X == ssa.Value(fn.Params[1]) {
						continue
					}
				}
				if ta, ok := v.(*ssa.TypeAssert); ok && ta.X == ssa.Value(fn.Params[1]) {
					continue
				}
				if v == ssa.Value(fn.Params[1]) {
					continue
				}
				ownType = false
			}
			if !ownType {
				continue
			}
			h := an.LoopHeaderOf(rc)
			if h == nil {
				continue
			}
			n++
			o.Site(rc)
			body := h.Succs[0]
			if len(body.Instrs) == 0 || body.Instrs[0] == rc {
				continue
			}
			if an.Reach(fn, body.Instrs[0], an.NewBlocker(rc))[h.Instrs[0]] {
				o.FailAt(rc, "prepareQuery can pass over a fragment below an object without validating its body: Flatten inlines every fragment whatever its type condition, so the skipped selections are executed without argument parsing or field checks (nil field / nil selection set panics on a scheduler goroutine)")
			}
		}
		if n == 0 {
			o.Fail(p.Pos(fn.Pos()), "prepareQuery does not validate the fragments below an object")
		}
	})

	c.Check("R-BOOL", "prepareQuery accepts __typename exactly when it has neither arguments nor sub-selections, without consulting the field table (objects and unions)", 2, func(o *an.O) {
		ruleTypenameSelection(c, o)
	})

	c.Check("R-KEY", "object fields exactly as selected: a memoised sub-result of an expensive field is keyed by field, source and the selection itself", 1, func(o *an.O) { ruleWorkCacheKey(c, o) })
	outputKinds := []string{"Enum", "List", "NonNull", "Object", "Scalar", "Union"}

	c.Check("R-EXH", "every type switch over graphql.Type covers all output kinds or ends in an error/panic default", 8, func(o *an.O) {
		partial := map[string]string{
			// function -> reason a partial switch without error default is fine
		}
		mustBeTotal := map[string]bool{
			"graphql.prepareQuery": true, "graphql.resolveBatch": true,
			"federation.*flattener.flatten": true, "federation.*Planner.plan": true,
		}
		foundTotal := map[string]bool{}
		n := 0
		for _, rel := range []string{gq, "graphql/introspection", "graphql/schemabuilder", fed} {
			pp := p.PkgSyntax(rel)
			if pp == nil {
				continue
			}
			for _, it := range typeSwitchesOverGraphqlType(p, pp) {
				n++
				foundTotal[rel+"."+it.fn] = true
				pos := p.Pos(it.sw.Node.Pos())
				o.SitePos(pos)
				covered := map[string]bool{}
				for _, t := range it.sw.AllCaseTypes() {
					covered[strings.TrimPrefix(strings.TrimPrefix(t, "*graphql."), "*")] = true
				}
				var missing []string
				for _, k := range outputKinds {
					if !covered[k] {
						missing = append(missing, k)
					}
				}
				if len(missing) == 0 {
					continue
				}
				d := it.sw.HasDefault()
				if d != nil && an.EndsInPanicOrError(d.Body) {
					continue
				}
				if _, ok := partial[rel+"."+it.fn]; ok {
					continue
				}
				mustErr := mustBeTotal[rel+"."+it.fn]
				// a default clause is a deliberate "everything else" - accepted except in the dispatchers
				// that validation/execution/planning rely on, which must reject what they do not know
				if d != nil && !mustErr {
					continue
				}
				if d == nil && onlyWrappersOrLeaves(covered) && !mustErr {
					continue
				}
				o.Fail(pos, "%s.%s switches over graphql.Type without cases for %v and without an error/panic default: a schema using such a type validates but is silently mishandled here", rel, it.fn, missing)
			}
		}
		if n < 8 {
			o.Undecided("found only %d type switches over graphql.Type (expected >= 8)", n)
		}
		for k := range mustBeTotal {
			if !foundTotal[k] {
				o.Undecided("dispatcher %s no longer type-switches over graphql.Type (anchor drifted)", k)
			}
		}
	})

	c.Check("R-TABLE", "validation and execution partition the kinds alike: leaves reject selections, composites require them, wrappers unwrap", 6, func(o *an.O) {
		fn := c.NeedFunc(gq, "prepareQuery")
		sel := fn.Params[2].Name()
		// classify error returns by guards
		rejectsSel := map[string]bool{}
		requiresSel := map[string]bool{}
		for _, e := range an.Exits(fn, false) {
			ret := e.(*ssa.Return)
			if isConstNil(ret.Results[0]) {
				continue
			}
			gs := an.GuardStrings(e.Block())
			kind := ""
			for _, g := range gs {
				for _, k := range outputKinds {
					if strings.Contains(g, ".(*graphql."+k+")#1") && !strings.HasPrefix(g, "!") {
						kind = k
					}
				}
			}
			for _, g := range gs {
				if g == "("+sel+" != nil)" {
					rejectsSel[kind] = true
					o.Site(e)
				}
				if g == "("+sel+" == nil)" {
					requiresSel[kind] = true
					o.Site(e)
				}
			}
		}
		for _, k := range []string{"Scalar", "Enum"} {
			if !rejectsSel[k] {
				o.Fail(p.Pos(fn.Pos()), "validation accepts a sub-selection on a %s (execution ignores it: the response would not contain what was selected)", k)
			}
		}
		for _, k := range []string{"Object", "Union"} {
			if !requiresSel[k] {
				o.Fail(p.Pos(fn.Pos()), "validation accepts a %s field without sub-selection (execution would dereference a nil selection set)", k)
			}
		}
		// wrappers recurse with the same selection set
		for _, call := range an.Calls(fn, an.Mod(gq, "", "prepareQuery")) {
			gs := strings.Join(an.GuardStrings(call.Block()), " ")
			for _, k := range []string{"List", "NonNull"} {
				if strings.Contains(gs, ".(*graphql."+k+")#1") && !strings.Contains(gs, "!"+fn.Params[1].Name()+".(*graphql."+k) {
					o.Site(call)
					cc := an.CallOf(call)
					if cc.Args[2] != ssa.Value(fn.Params[2]) || !strings.HasSuffix(an.Expr(cc.Args[1]), ".Type") {
						o.FailAt(call, "the %s wrapper is not validated by unwrapping to its element type with the same selection set", k)
					}
				}
			}
		}
		// execution side: resolveScalarBatch/resolveEnumBatch take no selection set; object/union/list do
		for _, nm := range []string{"resolveScalarBatch", "resolveEnumBatch"} {
			f := c.NeedFunc(gq, nm)
			for _, pa := range f.Params {
				if n := an.NamedOf(pa.Type()); n != nil && n.Obj().Name() == "SelectionSet" {
					o.Fail(p.Pos(f.Pos()), "%s takes a selection set although validation forbids one on leaves", nm)
				}
			}
			o.SitePos(p.Pos(f.Pos()))
		}
	})

	c.Check("R-GUARD", "prepareQuery: every selection is __typename, or a known field that is validated recursively on every path, or a client error (objects and unions)", 4, func(o *an.O) {
		ruleSelectionsValidated(c, o)
	})

	c.Check("R-GUARD", "non-null enforcement: resolver adapters fail on a nil pointer under NonNull; enum values outside ReverseMap fail", 3, func(o *an.O) {
		fn := c.NeedFunc(sbp, "(*funcContext).extractResultAndErr")
		okNil := false
		for _, e := range an.Exits(fn, false) {
			if isConstNil(e.(*ssa.Return).Results[1]) {
				continue
			}
			gs := strings.Join(an.GuardStrings(e.Block()), " ; ")
			if strings.Contains(gs, ".(*graphql.NonNull)#1") && strings.Contains(gs, ".IsNil()") {
				okNil = true
				o.Site(e)
			}
		}
		if !okNil {
			o.Fail(p.Pos(fn.Pos()), "a nil pointer returned for a NonNull field is no longer turned into an error: the response would contain null where the schema promises a value")
		}
		bf := c.NeedFunc(sbp, "(*batchFuncContext).extractResultsAndErr")
		okB := false
		for _, e := range an.Exits(bf, false) {
			if isConstNil(e.(*ssa.Return).Results[1]) {
				continue
			}
			gs := strings.Join(an.GuardStrings(e.Block()), " ; ")
			if strings.Contains(gs, ".enforceNoNilResps") {
				okB = true
				o.Site(e)
			}
		}
		if !okB {
			o.Fail(p.Pos(bf.Pos()), "batch results: a missing/nil entry for a non-nullable batch field no longer fails")
		}
		// per entry: an index may be left unfilled only when enforceNoNilResps is false
		var stores []ssa.Instruction
		var hdr *ssa.BasicBlock
		an.Instrs(bf, func(i ssa.Instruction) {
			st, ok := i.(*ssa.Store)
			if !ok {
				return
			}
			if ia, ok := st.Addr.(*ssa.IndexAddr); ok && an.IsRangeIndex(ia.Index) && strings.Contains(ia.X.Type().String(), "interface") {
				if S := loopSliceOf(ia.Index); S != nil && S == ssa.Value(bf.Params[2]) {
					stores = append(stores, i)
					hdr = an.LoopHeaderOf(i)
				}
			}
		})
		if hdr == nil {
			o.Fail(p.Pos(bf.Pos()), "batch results are not copied out per index")
		} else {
			blk := an.NewBlocker(stores...)
			for _, ci := range an.CondIfs(bf, func(v ssa.Value) bool { return strings.HasSuffix(an.Expr(v), ".enforceNoNilResps") }) {
				if an.LoopHeaderOf(ci.If) == hdr {
					blk.AddEdge(ci.If.Block(), ci.False)
				}
			}
			body := hdr.Succs[0]
			if an.Reach(bf, body.Instrs[0], blk)[hdr.Instrs[0]] {
				o.Fail(p.InstrPos(body.Instrs[0]), "a batch result entry can be skipped (left null) without enforceNoNilResps having been consulted for that entry: a NonNullable batch field returns null for a source whose entry is nil or missing although the map is large enough")
			}
		}
		en := c.NeedFunc(gq, "resolveEnumBatch")
		okE := false
		for _, e := range an.Exits(en, false) {
			if !isConstNil(e.(*ssa.Return).Results[0]) {
				gs := strings.Join(an.GuardStrings(e.Block()), " ; ")
				if strings.Contains(gs, ".ReverseMap[") && strings.Contains(gs, "!") {
					okE = true
					o.Site(e)
				}
			}
		}
		if !okE {
			o.Fail(p.Pos(en.Pos()), "an enum value that is not among the advertised values no longer fails")
		}
		// Fill with the mapped value happens only on the ok branch
		for _, call := range an.Calls(en, an.Mod(gq, "outputNode", "Fill")) {
			gs := strings.Join(an.GuardStrings(call.Block()), " ; ")
			if !strings.Contains(gs, ".ReverseMap[") || strings.Contains(gs, "!"+"typ.ReverseMap") {
				o.FailAt(call, "an enum destination is filled without the value having been found in ReverseMap")
			}
		}
	})

	c.Check("R-SHAPE", "getType: NonNull exactly for Go shapes that cannot be nil (enum, value scalar, value struct, slice); bare type for pointer shapes", 6, func(o *an.O) {
		fn := c.NeedFunc(sbp, "(*schemaBuilder).getType")
		nodeType := ssa.Value(fn.Params[1])
		rp := p.ExtPkg("reflect")
		an.Need(rp != nil, "package reflect")
		kind := func(name string) int64 {
			obj, ok := rp.Types.Scope().Lookup(name).(*types.Const)
			an.Need(ok, "reflect."+name)
			n, _ := constant.Int64Val(obj.Val())
			return n
		}
		// receiver of a reflect.Type method call: "v" for nodeType, "e" for nodeType.Elem()
		var which func(v ssa.Value) string
		which = func(v ssa.Value) string {
			if v == nodeType {
				return "v"
			}
			if call, ok := v.(*ssa.Call); ok && call.Call.IsInvoke() && call.Call.Method.Name() == "Elem" && call.Call.Value == nodeType {
				return "e"
			}
			return ""
		}
		type shape struct {
			name         string
			enum, sv, sp bool
			kindV, kindE int64
			wantNonNull  bool
		}
		shapes := []shape{
			{"enum", true, false, false, kind("Int32"), 0, true},
			{"value-scalar", false, true, false, kind("Int64"), 0, true},
			{"pointer-scalar", false, false, true, kind("Ptr"), kind("Int64"), false},
			{"value-struct", false, false, false, kind("Struct"), 0, true},
			{"pointer-struct", false, false, false, kind("Ptr"), kind("Struct"), false},
			{"slice", false, false, false, kind("Slice"), kind("Int64"), true},
		}
		for _, sh := range shapes {
			sh := sh
			sim := &an.BoolSim{Fn: fn, Atom: func(v ssa.Value) (bool, bool) {
				switch x := v.(type) {
				case *ssa.Extract:
					call, ok := x.Tuple.(*ssa.Call)
					if !ok {
						return false, false
					}
					f := an.CalleeFunc(call.Common())
					if f == nil {
						return false, false
					}
					last := call.Call.Signature().Results().Len() - 1
					if x.Index != last {
						return false, false
					}
					args := call.Call.Args
					switch f.Name() {
					case "getEnum":
						if which(args[len(args)-1]) == "v" {
							return sh.enum, true
						}
					case "getScalar":
						switch which(args[len(args)-1]) {
						case "v":
							return sh.sv, true
						case "e":
							return sh.sp, true
						}
					}
				case *ssa.Call:
					if x.Call.IsInvoke() && x.Call.Method.Name() == "Implements" && x.Call.Value == nodeType {
						return false, true // text marshalers are a separate obligation
					}
				case *ssa.BinOp:
					if x.Op != token.EQL && x.Op != token.NEQ {
						return false, false
					}
					for _, pr := range [][2]ssa.Value{{x.X, x.Y}, {x.Y, x.X}} {
						k, ok := an.ConstInt(pr[1])
						call, isCall := pr[0].(*ssa.Call)
						if !ok || !isCall || !call.Call.IsInvoke() || call.Call.Method.Name() != "Kind" {
							continue
						}
						switch which(call.Call.Value) {
						case "v":
							return (sh.kindV == k) == (x.Op == token.EQL), true
						case "e":
							return (sh.kindE == k) == (x.Op == token.EQL), true
						}
					}
				}
				return false, false
			}}
			reached := sim.Run()
			n := 0
			for _, e := range an.Exits(fn, false) {
				ret, ok := e.(*ssa.Return)
				if !ok || !reached[e.Block()] {
					continue
				}
				for _, errv := range sim.ValuesAt(an.ResultAt(ret, 1), e.Block()) {
					if !isConstNil(errv) {
						continue
					}
					for _, rv := range sim.ValuesAt(an.ResultAt(ret, 0), e.Block()) {
						v := an.StripConv(rv)
						if strings.Contains(an.Expr(v), "getTextMarshalerType") {
							continue
						}
						n++
						o.Site(e)
						isNonNull := false
						if al, ok := v.(*ssa.Alloc); ok {
							if nn := an.NamedOf(al.Type()); nn != nil && nn.Obj().Name() == "NonNull" {
								isNonNull = true
							}
						}
						if isNonNull != sh.wantNonNull {
							if sh.wantNonNull {
								o.FailAt(e, "getType advertises a nullable type for a %s, which Go can never return as nil (harmless for clients but it disagrees with the mapping the rest relies on)", sh.name)
							} else {
								o.FailAt(e, "getType advertises NonNull for a %s although the resolver can return nil: the response would contain null where the schema promises a value (or every nil fails the query)", sh.name)
							}
						}
					}
				}
			}
			if n == 0 {
				o.Fail(p.Pos(fn.Pos()), "getType: cannot find the return for the %s shape", sh.name)
			}
		}
	})

	c.Check("R-TABLE", "scalar output table and scalar argument-parser table have the same key set", 2, func(o *an.O) {
		pp := p.PkgSyntax(sbp)
		keys := func(varName string) []string {
			var out []string
			for _, f := range pp.Syntax {
				for _, d := range f.Decls {
					gd, ok := d.(*ast.GenDecl)
					if !ok {
						continue
					}
					for _, sp := range gd.Specs {
						vs, ok := sp.(*ast.ValueSpec)
						if !ok || len(vs.Names) != 1 || vs.Names[0].Name != varName || len(vs.Values) != 1 {
							continue
						}
						cl, ok := vs.Values[0].(*ast.CompositeLit)
						if !ok {
							continue
						}
						o.SitePos(p.Pos(cl.Pos()))
						for _, el := range cl.Elts {
							if kv, ok := el.(*ast.KeyValueExpr); ok {
								// reflect.TypeOf(x): render the static type of x
								if ce, ok := kv.Key.(*ast.CallExpr); ok && len(ce.Args) == 1 {
									if tv, ok := pp.TypesInfo.Types[ce.Args[0]]; ok {
										out = append(out, tv.Type.String())
										continue
									}
								}
								out = append(out, exprString(kv.Key))
							}
						}
					}
				}
			}
			sort.Strings(out)
			return out
		}
		a, b := keys("scalars"), keys("scalarArgParsers")
		if len(a) < 10 || len(b) < 10 {
			o.Undecided("cannot read the scalar tables (%d/%d keys)", len(a), len(b))
			return
		}
		onlyA, onlyB := an.SetDiff(a, b)
		if len(onlyA) > 0 {
			o.Fail("graphql/schemabuilder/build.go", "scalar kinds that can be returned but not taken as arguments (getScalarArgParser panics at schema build for them): %v", onlyA)
		}
		if len(onlyB) > 0 {
			o.Fail("graphql/schemabuilder/input.go", "scalar kinds accepted as arguments but not advertised as output scalars: %v", onlyB)
		}
	})
}

func onlyWrappersOrLeaves(covered map[string]bool) bool {
	// switches that only peel wrappers (NonNull/List) or only look at one kind are helper-style
	for k := range covered {
		if k != "NonNull" && k != "List" && k != "InputObject" {
			return len(covered) <= 2
		}
	}
	return true
}

// returnsErrorDirectly: block b ends in a return whose last result is non-nil.
func returnsErrorDirectly(b *ssa.BasicBlock) bool {
	if len(b.Instrs) == 0 {
		return false
	}
	ret, ok := b.Instrs[len(b.Instrs)-1].(*ssa.Return)
	if !ok || len(ret.Results) == 0 {
		return false
	}
	return !isConstNil(ret.Results[len(ret.Results)-1])
}

// ruleSelectionsValidated is shared by C14 and C15.
func ruleSelectionsValidated(c *an.Ctx, o *an.O) {
	p := c.P
	{
		fn := c.NeedFunc(gq, "prepareQuery")
		nObj, nUnion := 0, 0
		for _, e := range rangeElems(fn, "Selections") {
			if !overParameter(e) {
				continue
			}
			gs := strings.Join(an.GuardStrings(e.Block()), " ")
			isObj := strings.Contains(gs, ".(*graphql.Object)#1")
			isUnion := strings.Contains(gs, ".(*graphql.Union)#1")
			h := an.LoopHeaderOf(e)
			an.Need(h != nil, "loop over selections")
			o.Site(e)
			// edges taken for __typename
			blk := an.NewBlocker()
			for _, t := range an.EqTests(fn, func(x, y ssa.Value) bool {
				cs, ok := an.ConstString(y)
				return ok && cs == "__typename" && an.Expr(x) == an.Expr(e)+".Name"
			}) {
				if an.LoopHeaderOf(t.If) == h {
					blk.AddEdge(t.If.Block(), t.Eq)
				}
			}
			if isObj {
				nObj++
				// the field lookup
				var okv ssa.Value
				var lkInstr ssa.Instruction
				an.Instrs(fn, func(i ssa.Instruction) {
					lk, ok := i.(*ssa.Lookup)
					if !ok || !lk.CommaOk || !strings.HasSuffix(an.Expr(lk.X), ".Fields") || an.Expr(lk.Index) != an.Expr(e)+".Name" || an.LoopHeaderOf(i) != h {
						return
					}
					okv = extractOf(lk, 1)
					lkInstr = i
				})
				if okv == nil {
					o.FailAt(e, "object selections are not looked up in the type's Fields")
					continue
				}
				o.Site(lkInstr)
				// unknown field -> error
				for _, ci := range an.CondIfs(fn, func(v ssa.Value) bool { return v == okv }) {
					if !returnsErrorDirectly(ci.False) {
						o.FailAt(ci.If, "a selection that is not a field of the object type is not rejected")
					}
				}
				// recursion on every continuing path
				field := extractOf(lkInstr.(ssa.Value), 0)
				var rec []ssa.Instruction
				for _, call := range an.Calls(fn, an.Mod(gq, "", "prepareQuery")) {
					cc := an.CallOf(call)
					if an.LoopHeaderOf(call) != h {
						continue
					}
					okType := false
					if ld, ok := cc.Args[1].(*ssa.UnOp); ok {
						if fa, ok := ld.X.(*ssa.FieldAddr); ok && fa.X == field && an.FieldName(fa.X.Type(), fa.Field) == "Type" {
							okType = true
						}
					}
					if okType && an.Expr(cc.Args[2]) == an.Expr(e)+".SelectionSet" {
						rec = append(rec, call)
						o.Site(call)
					}
				}
				if len(rec) == 0 {
					o.FailAt(e, "a selected field's sub-selection is not validated against the field's own type")
					continue
				}
				for _, r := range rec {
					blk.Instr[r] = true
				}
				if an.Reach(fn, e, blk)[h.Instrs[0]] {
					o.FailAt(rec[0], "prepareQuery can move on to the next selection without validating this selection's sub-selection against its field type (e.g. because the selection was already visited under another parent type): execution then meets a field the type does not have and dereferences a nil *Field")
				}
			}
			if isUnion {
				nUnion++
				// anything but __typename is an error: with the __typename edges blocked the header is unreachable
				if an.Reach(fn, e, blk)[h.Instrs[0]] {
					o.FailAt(e, "a union-level selection other than __typename is accepted")
				}
			}
		}
		if nObj == 0 || nUnion == 0 {
			o.Fail(p.Pos(fn.Pos()), "prepareQuery must walk the selections of objects and of unions (found %d/%d loops)", nObj, nUnion)
		}
		// union fragments are validated against the member type
		okFrag := false
		for _, call := range an.Calls(fn, an.Mod(gq, "", "prepareQuery")) {
			if strings.Contains(an.Expr(an.CallOf(call).Args[2]), "Fragments[#i].SelectionSet") {
				okFrag = true
			}
		}
		if !okFrag {
			o.Fail(p.Pos(fn.Pos()), "fragment bodies are no longer validated")
		}
	}
}
