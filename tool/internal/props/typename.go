package props

import (
	"go/token"

	"golang.org/x/tools/go/ssa"

	"thunderlint/internal/an"
)

// ruleTypenameSelection (C14, C01): how validation treats `__typename`, which is not in
// Object.Fields and is filled in by the executor itself. Evaluated per loop over the
// selections (object and union case) under every assignment of
// (selection is __typename, it has no arguments, it has sub-selections):
//
//	__typename, no args, no sub-selections -> accepted: the loop goes on, and the field table is not consulted
//	__typename with args                   -> client error
//	__typename with sub-selections         -> client error
func ruleTypenameSelection(c *an.Ctx, o *an.O) {
	p := c.P
	fn := c.NeedFunc(gq, "prepareQuery")
	isTypenameTest := func(v ssa.Value) (*ssa.BinOp, bool) {
		bo, ok := v.(*ssa.BinOp)
		if !ok || (bo.Op != token.EQL && bo.Op != token.NEQ) {
			return nil, false
		}
		for _, pr := range [][2]ssa.Value{{bo.X, bo.Y}, {bo.Y, bo.X}} {
			if s, ok := an.ConstString(pr[1]); ok && s == "__typename" && an.IsFieldAccess(pr[0], "Selection", "Name") {
				return bo, true
			}
		}
		return nil, false
	}
	type site struct {
		iff    *ssa.If
		region *ssa.BasicBlock
		h      *ssa.BasicBlock
	}
	var sites []site
	for _, ci := range an.CondIfs(fn, func(v ssa.Value) bool { _, ok := isTypenameTest(v); return ok }) {
		bo, _ := isTypenameTest(ci.If.Cond)
		region := ci.True
		if bo.Op == token.NEQ {
			region = ci.False
		}
		h := an.LoopHeaderOf(ci.If)
		if h == nil || len(region.Preds) != 1 {
			continue
		}
		sites = append(sites, site{ci.If, region, h})
		o.Site(ci.If)
	}
	if len(sites) < 2 {
		o.Fail(p.Pos(fn.Pos()), "prepareQuery must special-case __typename for objects and for unions (found %d tests): it is not in Object.Fields, so it would be rejected as an unknown field", len(sites))
		return
	}
	counts := map[string]int{}
	run := func(argsNil, hasSet bool) *an.BoolSim {
		sim := &an.BoolSim{Fn: fn, Atom: func(v ssa.Value) (bool, bool) {
			if bo, ok := isTypenameTest(v); ok {
				return bo.Op == token.EQL, true // every selection is __typename
			}
			switch x := v.(type) {
			case *ssa.Call:
				if f := x.Call.StaticCallee(); f != nil && f.Name() == "isNilArgs" {
					counts["args"]++
					return argsNil, true
				}
			case *ssa.BinOp:
				if (x.Op == token.EQL || x.Op == token.NEQ) && isConstNil(x.Y) && an.IsFieldAccess(x.X, "Selection", "SelectionSet") {
					counts["set"]++
					return hasSet == (x.Op == token.NEQ), true
				}
			}
			return false, false
		}}
		sim.Run()
		return sim
	}
	goesOn := func(sim *an.BoolSim, s site) bool {
		for k, pred := range s.h.Preds {
			if sim.In[s.h][k] && (pred == s.region || s.region.Dominates(pred)) {
				return true
			}
		}
		return false
	}
	var fieldLookups []ssa.Instruction
	an.Instrs(fn, func(i ssa.Instruction) {
		if lk, ok := i.(*ssa.Lookup); ok && an.IsFieldAccess(lk.X, "Object", "Fields") {
			fieldLookups = append(fieldLookups, i)
		}
	})
	ok := run(true, false)
	for _, s := range sites {
		if !goesOn(ok, s) {
			o.FailAt(s.iff, "a plain __typename selection (no arguments, no sub-selections) is not accepted: every query that asks for __typename is rejected")
		}
	}
	reached := map[*ssa.BasicBlock]bool{}
	for b := range ok.In {
		reached[b] = true
	}
	for _, lk := range fieldLookups {
		if reached[lk.Block()] {
			o.FailAt(lk, "__typename is looked up in Object.Fields, where it never is: it would be rejected as an unknown field")
		}
	}
	for _, sc := range []struct {
		argsNil, hasSet bool
		what            string
	}{{false, false, "with arguments"}, {true, true, "with sub-selections"}} {
		sim := run(sc.argsNil, sc.hasSet)
		for _, s := range sites {
			if goesOn(sim, s) {
				o.FailAt(s.iff, "__typename %s passes validation: the executor fills __typename itself and would ignore them (the response no longer has the shape the query asked for)", sc.what)
			}
		}
	}
	if counts["args"] == 0 || counts["set"] == 0 {
		o.Undecided("prepareQuery: the tests of __typename's arguments / sub-selections were not found")
	}
}
