package props

import (
	"go/constant"
	"go/token"
	"go/types"

	"golang.org/x/tools/go/ssa"

	"thunderlint/internal/an"
)

// ruleExtractKeysTable (C06): the walk along a plan's path, evaluated under every
// assignment of its predicates. For an object node and a non-empty path:
//
//	field step, key missing                 -> error, no descent
//	field step, key present                 -> descend into that value with the rest of the path
//	type step, no string __typename         -> error, no descent
//	type step, __typename != step name      -> nothing to do (nil), no descent
//	type step, __typename == step name      -> descend into the same object with the rest of the path
//	any other step kind                     -> error
//	a failing descent fails the walk; a successful one does not
func ruleExtractKeysTable(c *an.Ctx, o *an.O) {
	p := c.P
	fn := c.NeedFunc(fed, "(*pathSubqueryMetadata).extractKeys")
	fedPkg := p.Pkg(fed)
	an.Need(fedPkg != nil, "package federation")
	kindOf := func(name string) int64 {
		obj, ok := fedPkg.Pkg.Scope().Lookup(name).(*types.Const)
		an.Need(ok, "federation."+name)
		n, _ := constant.Int64Val(obj.Val())
		return n
	}
	kField, kType := kindOf("KindField"), kindOf("KindType")
	node, path := ssa.Value(fn.Params[1]), ssa.Value(fn.Params[2])

	var rec []*ssa.Call
	for _, i := range an.CallsToFunc(fn, fn) {
		if call, ok := i.(*ssa.Call); ok {
			rec = append(rec, call)
		}
	}
	isRestOfPath := func(v ssa.Value) bool {
		sl, ok := v.(*ssa.Slice)
		if !ok || sl.X != path || sl.High != nil || sl.Max != nil || sl.Low == nil {
			return false
		}
		n, ok := an.ConstInt(sl.Low)
		return ok && n == 1
	}
	var descents []*ssa.Call // recursive calls that consume a step
	for _, call := range rec {
		if call.Call.Args[2] == path {
			continue // the per-element call of the list case
		}
		descents = append(descents, call)
		o.Site(call)
		if !isRestOfPath(call.Call.Args[2]) {
			o.FailAt(call, "extractKeys descends with %s instead of the rest of the path (path[1:]): a step is skipped or repeated, so keys are taken from the wrong level (or the walk never ends)", an.Expr(call.Call.Args[2]))
		}
	}
	if len(descents) < 2 {
		o.Fail(p.Pos(fn.Pos()), "extractKeys must descend for field steps and for matching type steps (found %d descents)", len(descents))
		return
	}
	isRecResult := func(v ssa.Value) bool {
		for _, call := range rec {
			if v == ssa.Value(call) {
				return true
			}
		}
		return false
	}

	type scen struct {
		kind                                  int64
		present, match, recErr, isObj, isList bool
	}
	counts := map[string]int{}
	run := func(sc scen) (*an.BoolSim, map[*ssa.BasicBlock]bool) {
		sim := &an.BoolSim{Fn: fn, Atom: func(v ssa.Value) (bool, bool) {
			switch x := v.(type) {
			case *ssa.Extract:
				if x.Index != 1 {
					return false, false
				}
				switch t := x.Tuple.(type) {
				case *ssa.TypeAssert:
					if t.X == node {
						if _, isSlice := t.AssertedType.Underlying().(*types.Slice); isSlice {
							counts["isList"]++
							return sc.isList, true
						}
						counts["isObj"]++
						return sc.isObj, true
					}
					if b, ok := t.AssertedType.Underlying().(*types.Basic); ok && b.Kind() == types.String {
						counts["typename"]++
						return sc.present, true
					}
				case *ssa.Lookup:
					counts["key"]++
					return sc.present, true
				}
			case *ssa.BinOp:
				if x.Op != token.EQL && x.Op != token.NEQ {
					return false, false
				}
				eq := x.Op == token.EQL
				for _, pr := range [][2]ssa.Value{{x.X, x.Y}, {x.Y, x.X}} {
					a, b := pr[0], pr[1]
					if call, ok := a.(*ssa.Call); ok {
						if bi, ok := call.Call.Value.(*ssa.Builtin); ok && bi.Name() == "len" && call.Call.Args[0] == path {
							if n, ok := an.ConstInt(b); ok && n == 0 {
								counts["pathEmpty"]++
								return !eq, true // the path is not empty
							}
						}
						if isRecResult(a) && isConstNil(b) {
							counts["recErr"]++
							return sc.recErr != eq, true
						}
					}
					if an.IsFieldAccess(a, "PathStep", "Kind") {
						if n, ok := an.ConstInt(b); ok {
							counts["kind"]++
							return (sc.kind == n) == eq, true
						}
					}
					if an.IsFieldAccess(a, "PathStep", "Name") {
						if ex, ok := b.(*ssa.Extract); ok {
							if _, isTA := ex.Tuple.(*ssa.TypeAssert); isTA && ex.Index == 0 {
								counts["match"]++
								return sc.match == eq, true
							}
						}
					}
				}
			}
			return false, false
		}}
		return sim, sim.Run()
	}
	classify := func(sim *an.BoolSim, recErr bool) (nils, errs, unknown int) {
		for _, r := range sim.Returns {
			v := r.Ret.Results[0]
			switch {
			case isConstNil(v):
				nils++
			case an.DefinitelyNonNil(v, 0):
				errs++
			case isRecResult(v) && recErr:
				errs++
			case isRecResult(v) && !recErr:
				nils++
			default:
				unknown++
			}
		}
		return
	}
	descended := func(r map[*ssa.BasicBlock]bool) []*ssa.Call {
		var out []*ssa.Call
		for _, d := range descents {
			if r[d.Block()] {
				out = append(out, d)
			}
		}
		return out
	}
	kindName := map[int64]string{kField: "field", kType: "type"}
	for _, kind := range []int64{kField, kType} {
		// the step's key / __typename is missing
		sim, r := run(scen{kind: kind, present: false, isObj: true})
		nils, errs, _ := classify(sim, false)
		if len(descended(r)) > 0 || nils > 0 || errs == 0 {
			o.FailAt(descents[0], "a %s step whose %s is missing must fail the walk without descending (descents: %d, nil returns: %d, error returns: %d)", kindName[kind], map[int64]string{kField: "key", kType: "string __typename"}[kind], len(descended(r)), nils, errs)
		}
		for _, match := range []bool{true, false} {
			if kind == kField && !match {
				continue
			}
			for _, recErr := range []bool{false, true} {
				sim, r := run(scen{kind: kind, present: true, match: match, recErr: recErr, isObj: true})
				ds := descended(r)
				nils, errs, unknown := classify(sim, recErr)
				if kind == kType && !match {
					if len(ds) > 0 {
						o.FailAt(ds[0], "a type step that does not match the object's __typename descends anyway: keys are extracted from union members of the wrong type")
					}
					if errs > 0 || nils == 0 {
						o.FailAt(descents[0], "a type step that does not match the object's __typename must be skipped without an error")
					}
					continue
				}
				if len(ds) != 1 {
					o.FailAt(descents[0], "a %s step that applies must descend exactly once (found %d descents reachable): the objects behind it never get their remote fields", kindName[kind], len(ds))
					continue
				}
				d := ds[0]
				if kind == kType {
					if ex, ok := d.Call.Args[1].(*ssa.MakeInterface); !ok || !isNodeObject(ex.X, node) {
						if !isNodeObject(d.Call.Args[1], node) {
							o.FailAt(d, "a matching type step must continue with the same object, not %s", an.Expr(d.Call.Args[1]))
						}
					}
				} else {
					if ex, ok := d.Call.Args[1].(*ssa.Extract); !ok || ex.Index != 0 {
						o.FailAt(d, "a field step must continue with the value found under the step's name, not %s", an.Expr(d.Call.Args[1]))
					} else if lk, ok := ex.Tuple.(*ssa.Lookup); !ok || !an.IsFieldAccess(lk.Index, "PathStep", "Name") {
						o.FailAt(d, "a field step must continue with the value found under the step's name, not %s", an.Expr(d.Call.Args[1]))
					}
				}
				if recErr && (nils > 0 || errs == 0) {
					o.FailAt(d, "a failing descent (%s step) does not fail the walk: the error is swallowed and the hop silently fetches nothing", kindName[kind])
				}
				if !recErr && (errs > 0 || nils == 0) {
					o.FailAt(d, "a successful descent (%s step) is reported as an error: every multi-hop plan through such a step fails", kindName[kind])
				}
				_ = unknown
			}
		}
	}
	// a list: every element is walked with the same path; a failing element fails the walk
	for _, recErr := range []bool{false, true} {
		sim, r := run(scen{isList: true, recErr: recErr})
		elemCall := false
		for _, call := range rec {
			if call.Call.Args[2] == path && r[call.Block()] {
				elemCall = true
			}
		}
		_, errs, _ := classify(sim, recErr)
		if !elemCall {
			o.FailAt(descents[0], "the elements of a list are not walked with the list's own path")
		} else if recErr && errs == 0 {
			o.FailAt(descents[0], "a failing list element does not fail the walk")
		} else if !recErr && errs > 0 {
			o.FailAt(descents[0], "a list whose elements were walked successfully is reported as an error")
		}
	}
	// any other kind is an error
	sim, r := run(scen{kind: kField + kType + 7, present: true, match: true, isObj: true})
	nils, errs, _ := classify(sim, false)
	if len(descended(r)) > 0 || nils > 0 || errs == 0 {
		o.FailAt(descents[0], "a step of an unknown kind is not rejected")
	}
	for _, k := range []string{"isObj", "typename", "key", "pathEmpty", "recErr", "kind", "match"} {
		if counts[k] == 0 {
			o.Undecided("extractKeys: no test of %q found (the table could not be evaluated)", k)
		}
	}
}

// isNodeObject: v is the map obtained from node.(map[string]interface{}).
func isNodeObject(v, node ssa.Value) bool {
	if mi, ok := v.(*ssa.MakeInterface); ok {
		v = mi.X
	}
	ex, ok := v.(*ssa.Extract)
	if !ok || ex.Index != 0 {
		return false
	}
	ta, ok := ex.Tuple.(*ssa.TypeAssert)
	return ok && ta.X == node
}
