package props

import (
	"sort"
	"strings"

	"golang.org/x/tools/go/ssa"

	"thunderlint/internal/an"
)

// GenericRules runs after a property's own rules: the value-validity rules of
// an/lints.go over every function those rules were anchored in (including
// their closures and the helpers inlined into them).
// validityExceptions: one finding per entry, with the reason it cannot happen.
var validityExceptions = map[string]struct{ contains, reason string }{
	"federation.(*Executor).execute":  {"a goroutine appends to", "the optional response metadata of the sub-plans is collected under resMu in completion order; it is an unordered side channel for the caller's hook (the response JSON, which C06 is about, is stitched by position)"},
	"federation.mergeSameAlias":       {"a re-sliced view without a capacity limit", "selections[:0] compacts the caller's slice in place; documented at the site: element k is written only after element k was read, and the only caller (flatten) replaces its slice with the result"},
	"graphql.nestPathError":           {"result is kept somewhere else", "the key is appended to the inner error's path: the only *pathError values that reach this function were built by its own literal []string{key} (len == cap, so the append reallocates) or by one earlier nesting of the same error value on its way up; await, the only multi-level nester that could hand one error to several parents, has no caller"},
	"graphql.nestPathErrorMulti":      {"result is kept somewhere else", "as nestPathError: the *pathError values Fail sees come from resolveObjectBatch's nestPathError(alias, err) literal (len == cap == 1), so appending the destination path always reallocates, also when one error is failed into several destinations"},
	"federation.(*Planner).planUnion": {"failed map lookup", "typ.Name in the error message of the 'fragment on a non-member type' check dereferences the failed lookup; the check is defensive: planUnion only ever sees the flattener's output, which generates exactly one fragment per member of typ.Types"},
}

func GenericRules(c *an.Ctx) {
	var fns []*ssa.Function
	for f := range c.P.Anchors {
		fns = append(fns, f)
	}
	sort.Slice(fns, func(i, j int) bool { return fns[i].String() < fns[j].String() })
	if len(fns) == 0 {
		return
	}
	c.Check("R-VALID", "in the functions this property is anchored in: results of a failed call, values of a failed lookup / type assertion and values just tested nil are not used as if they were valid; locks are balanced; append never writes into storage the function does not own; goroutines do not append to a shared slice", 1, func(o *an.O) {
		for _, fn := range fns {
			for _, g := range an.WithAnons(fn) {
				if len(g.Blocks) == 0 {
					continue
				}
				o.SitePos(c.P.Pos(g.Pos()))
				fs := append(append(an.ValidityLints(g), an.LockBalanceLints(g)...), an.AliasLints(g)...)
				fs = append(fs, an.OrderLints(g)...)
				for _, f := range fs {
					outer := g
					for outer.Parent() != nil {
						outer = outer.Parent()
					}
					if ex, ok := validityExceptions[an.RelPkg(outer)+"."+an.QualName(outer)]; ok && strings.Contains(f.Msg, ex.contains) {
						o.Note("exception in %s: %s", an.QualName(g), ex.reason)
						continue
					}
					o.FailAt(f.Instr, "%s: %s", an.QualName(g), f.Msg)
				}
			}
		}
	})
}
