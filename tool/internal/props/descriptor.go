package props

import (
	"go/constant"
	"go/token"
	"go/types"
	"strings"

	"golang.org/x/tools/go/ssa"

	"thunderlint/internal/an"
)

// ruleBuildDescriptorTable (C13): Schema.buildDescriptor decides, per struct
// field, whether it becomes a column and how; every later encode / decode uses
// the table it builds (Columns in field order, ColumnsByName, Index, Order,
// Descriptor). The decision is evaluated under every assignment of its
// predicates:
//
//	not a struct                                    -> error
//	unexported field | tag name "-"                 -> skipped (no column)
//	embedded field | duplicate name | bad SQL type  -> error (no column)
//	otherwise                                       -> exactly one column: appended to the list and entered in the name map
//	option "primary"                                -> Primary set (a table needs one to be registered at all)
//	"implicitnull" on a pointer field, unknown tag  -> error
func ruleBuildDescriptorTable(c *an.Ctx, o *an.O) {
	p := c.P
	fn := c.NeedFunc(sg, "(*Schema).buildDescriptor")
	var typParam ssa.Value
	for _, prm := range fn.Params {
		if strings.HasSuffix(prm.Type().String(), "reflect.Type") {
			typParam = prm
		}
	}
	an.Need(typParam != nil, "reflect.Type parameter of buildDescriptor")
	reflectPkg := p.ExtPkg("reflect")
	kindConst := func(name string) int64 {
		if reflectPkg != nil {
			if obj, ok := reflectPkg.Types.Scope().Lookup(name).(*types.Const); ok {
				n, _ := constant.Int64Val(obj.Val())
				return n
			}
		}
		an.Need(false, "reflect."+name)
		return 0
	}
	kStruct, kPtr := kindConst("Struct"), kindConst("Ptr")

	// --- constructs -------------------------------------------------------
	var split ssa.Value // strings.Split(field.Tag.Get("sql"), ",")
	var appendCol *ssa.Call
	var mapIns *ssa.MapUpdate
	var dupLookup *ssa.Lookup
	var validate ssa.Value
	an.Instrs(fn, func(i ssa.Instruction) {
		switch x := i.(type) {
		case *ssa.Call:
			if f := an.CalleeFunc(&x.Call); f != nil {
				if f.Pkg() != nil && f.Pkg().Path() == "strings" && f.Name() == "Split" {
					split = x
				}
				if f.Name() == "ValidateSQLType" {
					validate = x
				}
			}
			if b, ok := x.Call.Value.(*ssa.Builtin); ok && b.Name() == "append" {
				if st, ok := x.Type().Underlying().(*types.Slice); ok && strings.HasSuffix(st.Elem().String(), "sqlgen.Column") {
					appendCol = x
				}
			}
		case *ssa.MapUpdate:
			if mt, ok := x.Map.Type().Underlying().(*types.Map); ok && strings.HasSuffix(mt.Elem().String(), "sqlgen.Column") {
				mapIns = x
			}
		case *ssa.Lookup:
			if mt, ok := x.X.Type().Underlying().(*types.Map); ok && x.CommaOk && strings.HasSuffix(mt.Elem().String(), "sqlgen.Column") {
				dupLookup = x
			}
		}
	})
	if split == nil {
		o.Fail(p.Pos(fn.Pos()), "buildDescriptor no longer splits the `sql` tag into name and options")
		return
	}
	if appendCol == nil {
		o.Fail(p.Pos(fn.Pos()), "buildDescriptor never appends a column to the table's column list: no struct can be registered (or none of its fields is stored)")
		return
	}
	if mapIns == nil {
		o.Fail(p.Pos(fn.Pos()), "buildDescriptor never enters a column in ColumnsByName: filters, testers and the protobuf codec cannot find any column")
		return
	}
	o.Site(appendCol)
	o.Site(mapIns)
	var lits []an.Lit
	for _, l := range an.StructLits(fn, "Column") {
		lits = append(lits, l)
	}
	if len(lits) != 1 {
		o.Fail(p.Pos(fn.Pos()), "expected one Column literal in buildDescriptor, found %d", len(lits))
		return
	}
	lit := lits[0]
	o.Site(lit.Alloc)

	// --- the loop over the struct's fields ----------------------------------
	var fieldCall *ssa.Call
	an.Instrs(fn, func(i ssa.Instruction) {
		if call, ok := i.(*ssa.Call); ok && call.Call.IsInvoke() && call.Call.Method.Name() == "Field" && call.Call.Value == typParam {
			fieldCall = call
		}
	})
	if fieldCall == nil {
		o.Fail(p.Pos(fn.Pos()), "buildDescriptor no longer walks typ.Field(i)")
		return
	}
	idx := fieldCall.Call.Args[0]
	okLoop := false
	if an.IsRangeIndex(idx) {
		if b, ok := an.LoopBoundOf(idx).(*ssa.Call); ok && b.Call.IsInvoke() && b.Call.Method.Name() == "NumField" && b.Call.Value == typParam {
			okLoop = true
		}
	}
	if !okLoop {
		o.FailAt(fieldCall, "the struct's fields are not visited as typ.Field(i) for i = 0 .. typ.NumField()-1 (index is %s): a field would be skipped - its value is silently dropped by every insert and never scanned back - or the index runs out of range", an.Expr(idx))
	}

	// --- value checks on the column -----------------------------------------
	isSplitElem := func(v ssa.Value, want int64) bool { // strings.Split(...)[want]
		ld, ok := v.(*ssa.UnOp)
		if !ok || ld.Op != token.MUL {
			return false
		}
		ia, ok := ld.X.(*ssa.IndexAddr)
		if !ok || ia.X != split {
			return false
		}
		n, ok := an.ConstInt(ia.Index)
		return ok && n == want
	}
	isOptionsSlice := func(v ssa.Value) bool { // strings.Split(...)[1:]
		sl, ok := v.(*ssa.Slice)
		if !ok || sl.X != split || sl.High != nil || sl.Max != nil || sl.Low == nil {
			return false
		}
		n, ok := an.ConstInt(sl.Low)
		return ok && n == 1
	}
	fieldLoad := func(v ssa.Value, name string) bool { // field.<name> of the reflect.StructField
		ld, ok := v.(*ssa.UnOp)
		if !ok || ld.Op != token.MUL {
			return false
		}
		return an.IsFieldAccess(ld.X, "StructField", name)
	}
	var nameFromTag, nameFromField bool
	for _, leaf := range phiLeaves(lit.Fields["Name"]) {
		switch {
		case isSplitElem(leaf, 0):
			nameFromTag = true
		case isEmptyStringConst(leaf):
		default:
			if call, ok := leaf.(*ssa.Call); ok && len(call.Call.Args) == 1 && fieldLoad(call.Call.Args[0], "Name") {
				nameFromField = true
			} else {
				o.FailAt(lit.Alloc, "the column name is %s: neither the first element of the `sql` tag nor derived from the field's name", an.Expr(leaf))
			}
		}
	}
	if !nameFromTag || !nameFromField {
		o.FailAt(lit.Alloc, "the column name must be the tag's first element when it is given and the snake-cased field name otherwise (from tag: %v, from field name: %v): a column stored under another name is never found by filters or by the scanner's column list", nameFromTag, nameFromField)
	}
	if d, ok := lit.Fields["Descriptor"].(*ssa.Call); !ok || len(d.Call.Args) != 2 || !fieldLoad(d.Call.Args[0], "Type") || !isOptionsSlice(d.Call.Args[1]) {
		o.FailAt(lit.Alloc, "the column's descriptor is not built from the field's type and the tag's options (everything after the name): %s - the encoding tags (binary, json, string, implicitnull) the codec applies would differ from the ones declared", an.Expr(lit.Fields["Descriptor"]))
	}
	if !fieldLoad(lit.Fields["Index"], "Index") {
		o.FailAt(lit.Alloc, "Column.Index is %s, not the field's index: values would be read from / written to another struct field", an.Expr(lit.Fields["Index"]))
	}
	okOrder := false
	if call, ok := lit.Fields["Order"].(*ssa.Call); ok {
		if b, ok := call.Call.Value.(*ssa.Builtin); ok && b.Name() == "len" && an.Expr(call.Call.Args[0]) == an.Expr(appendCol.Call.Args[0]) {
			okOrder = true
		}
	}
	if !okOrder {
		o.FailAt(lit.Alloc, "Column.Order is %s, not the column's position in the list", an.Expr(lit.Fields["Order"]))
	}
	// the appended element and the map entry are this column, under its name
	appended := false
	if sl, ok := appendCol.Call.Args[1].(*ssa.Slice); ok {
		if al, ok := sl.X.(*ssa.Alloc); ok && al.Referrers() != nil {
			for _, r := range *al.Referrers() {
				if ia, ok := r.(*ssa.IndexAddr); ok && ia.Referrers() != nil {
					for _, r2 := range *ia.Referrers() {
						if st, ok := r2.(*ssa.Store); ok && st.Val == ssa.Value(lit.Alloc) {
							appended = true
						}
					}
				}
			}
		}
	}
	if !appended {
		o.FailAt(appendCol, "what is appended to the column list is not the column just described")
	}
	if mapIns.Value != ssa.Value(lit.Alloc) || mapIns.Key != lit.Fields["Name"] {
		o.FailAt(mapIns, "ColumnsByName is not filled with the column just described under its own name (key %s)", an.Expr(mapIns.Key))
	}

	// --- the decision table ----------------------------------------------------
	type scen struct {
		isStruct, unexported, anonymous, dup, invalid, isPtr, anyPrimary bool
		tagName                                                          string // "", "-", "x"
		nTags                                                            int64
		option                                                           string
	}
	counts := map[string]int{}
	var optionTests int
	var trackSet map[*ssa.Phi]bool
	mk := func(sc scen, stop []ssa.Instruction, watch map[ssa.Instruction][]ssa.Value) (*an.BoolSim, map[*ssa.BasicBlock]bool) {
		sim := &an.BoolSim{Fn: fn, Watch: watch, Track: trackSet, Atom: func(v ssa.Value) (bool, bool) {
			switch x := v.(type) {
			case *ssa.Extract:
				if dupLookup != nil && x.Tuple == ssa.Value(dupLookup) && x.Index == 1 {
					counts["dup"]++
					return sc.dup, true
				}
			case *ssa.UnOp:
				if x.Op == token.MUL && an.IsFieldAccess(x.X, "StructField", "Anonymous") {
					counts["anonymous"]++
					return sc.anonymous, true
				}
				if x.Op == token.MUL && an.IsFieldAccess(x.X, "Column", "Primary") {
					counts["anyPrimary"]++
					return sc.anyPrimary, true
				}
			case *ssa.BinOp:
				cmp := func(a, b int64) (bool, bool) {
					switch x.Op {
					case token.EQL:
						return a == b, true
					case token.NEQ:
						return a != b, true
					case token.LSS:
						return a < b, true
					case token.LEQ:
						return a <= b, true
					case token.GTR:
						return a > b, true
					case token.GEQ:
						return a >= b, true
					}
					return false, false
				}
				for k, pr := range [][2]ssa.Value{{x.X, x.Y}, {x.Y, x.X}} {
					a, b := pr[0], pr[1]
					ord := func(l, r int64) (bool, bool) {
						if k == 1 {
							l, r = r, l
						}
						return cmp(l, r)
					}
					if call, ok := a.(*ssa.Call); ok {
						// typ.Kind() OP const / field.Type.Kind() OP const
						if call.Call.IsInvoke() && call.Call.Method.Name() == "Kind" {
							if cv, ok := an.ConstInt(b); ok {
								if call.Call.Value == typParam {
									counts["isStruct"]++
									cur := kStruct
									if !sc.isStruct {
										cur = kStruct + 1
									}
									return ord(cur, cv)
								}
								counts["isPtr"]++
								cur := kPtr
								if !sc.isPtr {
									cur = kPtr + 1
								}
								return ord(cur, cv)
							}
						}
						// len(tags) OP const
						if bi, ok := call.Call.Value.(*ssa.Builtin); ok && bi.Name() == "len" && call.Call.Args[0] == split {
							if cv, ok := an.ConstInt(b); ok {
								counts["nTags"]++
								return ord(sc.nTags, cv)
							}
						}
						// ValidateSQLType() != nil
						if validate != nil && a == validate && isConstNil(b) && (x.Op == token.EQL || x.Op == token.NEQ) {
							counts["invalid"]++
							return sc.invalid == (x.Op == token.NEQ), true
						}
					}
					if x.Op != token.EQL && x.Op != token.NEQ {
						continue
					}
					eq := x.Op == token.EQL
					cs, isStr := an.ConstString(b)
					if !isStr {
						continue
					}
					// field.PkgPath ==/!= ""
					if fieldLoad(a, "PkgPath") && cs == "" {
						counts["unexported"]++
						return sc.unexported != eq, true
					}
					// the column name against "" and "-"
					fromTag := false
					for _, leaf := range phiLeaves(a) {
						if isSplitElem(leaf, 0) {
							fromTag = true
						}
					}
					if fromTag && (cs == "" || cs == "-") {
						counts["tagName"]++
						return (sc.tagName == cs) == eq, true
					}
					// an option against a tag word
					if ld, ok := a.(*ssa.UnOp); ok && ld.Op == token.MUL {
						if ia, ok := ld.X.(*ssa.IndexAddr); ok && isOptionsSlice(ia.X) {
							optionTests++
							return (sc.option == cs) == eq, true
						}
					}
				}
			}
			return false, false
		}}
		if len(stop) > 0 {
			sim.Stop = map[ssa.Instruction]bool{}
			for _, s := range stop {
				sim.Stop[s] = true
			}
		}
		return sim, sim.Run()
	}
	base := scen{isStruct: true, tagName: "x", nTags: 1, anyPrimary: true}
	successReached := func(sim *an.BoolSim) bool {
		for _, r := range sim.Returns {
			if isConstNil(r.Ret.Results[len(r.Ret.Results)-1]) {
				return true
			}
		}
		return false
	}
	errorRets := func(sim *an.BoolSim) map[*ssa.Return]bool {
		out := map[*ssa.Return]bool{}
		for _, r := range sim.Returns {
			if !isConstNil(r.Ret.Results[len(r.Ret.Results)-1]) {
				out[r.Ret] = true
			}
		}
		return out
	}
	h := an.LoopHeaderOf(fieldCall)
	an.Need(h != nil, "loop over the struct fields")

	// 1. a plain exported field becomes exactly one column
	sim, r := mk(base, nil, nil)
	if !r[appendCol.Block()] || !r[mapIns.Block()] {
		o.FailAt(appendCol, "an exported, non-embedded field with a valid type does not become a column (list: %v, name map: %v): its value is silently dropped on insert and never scanned back, or no struct can be registered", r[appendCol.Block()], r[mapIns.Block()])
	}
	if !successReached(sim) {
		o.FailAt(appendCol, "a struct with a primary column is rejected: no table can be registered")
	}
	for _, must := range []ssa.Instruction{appendCol, mapIns} {
		sim2, _ := mk(base, []ssa.Instruction{must}, nil)
		for k, pred := range h.Preds {
			if sim2.In[h][k] && h.Dominates(pred) {
				o.FailAt(must, "an accepted field can go on to the next field without being %s", map[bool]string{true: "appended to the column list", false: "entered in ColumnsByName"}[must == ssa.Instruction(appendCol)])
				break
			}
		}
	}
	// 2. skipped / rejected fields never become a column
	for _, v := range []struct {
		why string
		sc  scen
	}{
		{"a non-struct type", func() scen { s := base; s.isStruct = false; return s }()},
		{"an unexported field", func() scen { s := base; s.unexported = true; return s }()},
		{"an embedded field", func() scen { s := base; s.anonymous = true; return s }()},
		{"a field tagged `sql:\"-\"`", func() scen { s := base; s.tagName = "-"; return s }()},
		{"a field whose column name is already taken", func() scen { s := base; s.dup = true; return s }()},
		{"a field whose type is not an SQL type", func() scen { s := base; s.invalid = true; return s }()},
	} {
		sim, r := mk(v.sc, nil, nil)
		if r[appendCol.Block()] || r[mapIns.Block()] {
			o.FailAt(appendCol, "%s becomes a column", v.why)
		}
		if v.why == "a non-struct type" && successReached(sim) {
			o.FailAt(appendCol, "a non-struct type is accepted as a table")
		}
	}
	// an explicit name and a derived name are both accepted
	for _, tn := range []string{"", "x"} {
		s := base
		s.tagName = tn
		if _, r := mk(s, nil, nil); !r[appendCol.Block()] {
			o.FailAt(appendCol, "a field %s does not become a column", map[string]string{"": "without an explicit column name", "x": "with an explicit column name"}[tn])
		}
	}
	// 3. rejected kinds produce an error the accepted field does not
	baseErrs := errorRets(sim)
	for _, v := range []struct {
		why string
		sc  scen
	}{
		{"an embedded field", func() scen { s := base; s.anonymous = true; return s }()},
		{"a duplicate column name", func() scen { s := base; s.dup = true; return s }()},
		{"a field whose type is not an SQL type", func() scen { s := base; s.invalid = true; return s }()},
		{"`implicitnull` on a pointer field", func() scen { s := base; s.nTags = 2; s.option = "implicitnull"; s.isPtr = true; return s }()},
		{"an unknown tag option", func() scen { s := base; s.nTags = 2; s.option = "no-such-option"; return s }()},
	} {
		ref := baseErrs
		if v.sc.nTags == 2 {
			s := base
			s.nTags = 2
			s.option = "binary"
			simRef, _ := mk(s, nil, nil)
			ref = errorRets(simRef)
		}
		simV, _ := mk(v.sc, nil, nil)
		extra := false
		for ret := range errorRets(simV) {
			if !ref[ret] {
				extra = true
			}
		}
		if !extra {
			o.FailAt(appendCol, "%s is not rejected with an error of its own", v.why)
		}
	}
	// 3b. which name the column gets
	if namePhi, ok := lit.Fields["Name"].(*ssa.Phi); ok {
		track := map[*ssa.Phi]bool{}
		var collect func(v ssa.Value)
		collect = func(v ssa.Value) {
			if ph, ok := v.(*ssa.Phi); ok && !track[ph] {
				track[ph] = true
				for _, e := range ph.Edges {
					collect(e)
				}
			}
		}
		collect(namePhi)
		var nameStore ssa.Instruction
		an.Instrs(fn, func(i ssa.Instruction) {
			if st, ok := i.(*ssa.Store); ok && st.Val == ssa.Value(namePhi) {
				if fa, ok := st.Addr.(*ssa.FieldAddr); ok && fa.X == ssa.Value(lit.Alloc) {
					nameStore = i
				}
			}
		})
		if nameStore != nil {
			for _, nt := range []int64{1, 2} {
				for _, tn := range []string{"x", ""} {
					s := base
					s.tagName, s.nTags = tn, nt
					trackSet = track
					simN, _ := mk(s, nil, map[ssa.Instruction][]ssa.Value{nameStore: {namePhi}})
					trackSet = nil
					var seenVals map[ssa.Value]bool
					if ov := simN.ObservedVals[nameStore]; len(ov) == 1 {
						seenVals = ov[0]
					}
					for v := range seenVals {
						fromTag := isSplitElem(v, 0)
						if tn == "x" && !fromTag {
							o.FailAt(nameStore, "a field whose tag names its column (tag with %d parts) gets the name %s instead: the column the struct declares is never read or written", nt, an.Expr(v))
						}
						if tn == "" && (fromTag || isEmptyStringConst(v)) {
							o.FailAt(nameStore, "a field without an explicit column name (tag with %d parts) gets the name %s instead of the snake-cased field name", nt, an.Expr(v))
						}
					}
				}
			}
		}
	}
	// 4. primary
	primaryVal := lit.Fields["Primary"]
	if primaryVal == nil {
		o.FailAt(lit.Alloc, "Column.Primary is never set")
	} else {
		var primaryStore ssa.Instruction
		an.Instrs(fn, func(i ssa.Instruction) {
			if st, ok := i.(*ssa.Store); ok && st.Val == primaryVal {
				if fa, ok := st.Addr.(*ssa.FieldAddr); ok && fa.X == ssa.Value(lit.Alloc) {
					primaryStore = i
				}
			}
		})
		if primaryStore != nil {
			for _, nt := range []int64{2, 3} {
				for _, opt := range []string{"primary", "binary", "json", "string", "implicitnull"} {
					s := base
					s.nTags, s.option = nt, opt
					simP, _ := mk(s, nil, map[ssa.Instruction][]ssa.Value{primaryStore: {primaryVal}})
					obs := map[string]bool{}
					if o := simP.Observed[primaryStore]; len(o) == 1 {
						obs = o[0]
					}
					if opt == "primary" && !obs["true"] {
						o.FailAt(primaryStore, "a field tagged `primary` (tag with %d parts) is not marked Primary: the table has no primary key, or updates / deletes address the wrong rows", nt)
					}
				}
			}
		}
	}
	// (Which columns are primary, and that one is required, matters to the statement generators, not to
	// the row codec this property is about: only "a `primary` option is honoured, so that a table can
	// be registered at all" is checked - see rule 1 and 4.)
	for _, k := range []string{"isStruct", "unexported", "anonymous", "tagName", "dup", "invalid", "nTags"} {
		if counts[k] == 0 {
			o.Undecided("buildDescriptor: no test of %q found (the table could not be evaluated)", k)
		}
	}
	if optionTests == 0 {
		o.Undecided("buildDescriptor: no test of the tag options found")
	}
}

func isEmptyStringConst(v ssa.Value) bool {
	s, ok := an.ConstString(v)
	return ok && s == ""
}
