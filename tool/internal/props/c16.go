package props

import (
	"go/token"
	"go/types"
	"strings"

	"golang.org/x/tools/go/ssa"

	"thunderlint/internal/an"
)

func c16(c *an.Ctx) {
	p := c.P

	c.Check("R-LOCK", "an initially failing subscription is closed: the rerunner is started and stored in c.subscriptions within one critical section of c.mu, so the close fired by the failing first run finds it (rule shared with C17)", 2, func(o *an.O) {
		ruleRunnerRegisteredBeforeItCanClose(c, o)
	})

	c.Check("R-DOM", "Executor.Execute: no data with an error; recorded error read after scheduler.Run and before serialising", 4, func(o *an.O) {
		fn := c.NeedFunc(gq, "(*Executor).Execute")
		for _, e := range an.Exits(fn, false) {
			ret := e.(*ssa.Return)
			o.Site(e)
			errv := an.ResultAt(ret, 1)
			data := an.ResultAt(ret, 0)
			if !isConstNil(errv) && !isConstNil(data) {
				o.FailAt(e, "Execute returns data (%s) together with a possibly non-nil error", an.Expr(data))
			}
		}
		var run ssa.Instruction
		an.Instrs(fn, func(i ssa.Instruction) {
			if cc := an.CallOf(i); cc != nil && cc.IsInvoke() && cc.Method.Name() == "Run" {
				if _, isCall := i.(*ssa.Call); isCall {
					run = i
				}
			}
		})
		if run == nil {
			o.Fail(p.Pos(fn.Pos()), "Execute does not run the scheduler synchronously")
			return
		}
		o.Site(run)
		var errLoads []ssa.Instruction
		for _, r := range an.FieldRefs(fn, gqPath(), "errorRecorder", "err") {
			if r.Kind == "load" {
				errLoads = append(errLoads, r.Instr)
				o.Site(r.Instr)
				if an.Reach(fn, nil, an.NewBlocker(run))[r.Instr] {
					o.FailAt(r.Instr, "the recorded error is read before scheduler.Run returned: failures of still-running work units are missed")
				}
			}
		}
		if len(errLoads) == 0 {
			o.Fail(p.Pos(fn.Pos()), "Execute never reads the recorded error")
			return
		}
		ser := an.Calls(fn, an.Mod(gq, "", "outputNodeToJSON"))
		blk := an.NewBlocker()
		for _, ci := range an.CondIfs(fn, func(v ssa.Value) bool {
			bo, ok := v.(*ssa.BinOp)
			return ok && bo.Op == token.NEQ && an.IsFieldAccess(bo.X, "errorRecorder", "err") && isConstNil(bo.Y)
		}) {
			blk.AddEdge(ci.If.Block(), ci.False)
		}
		for _, s := range ser {
			o.Site(s)
			if len(blk.Edge) == 0 || an.Reach(fn, nil, blk)[s] {
				o.FailAt(s, "the response is serialised on a path that did not find the recorded error to be nil: partial data could be returned")
			}
			if an.Reach(fn, nil, an.NewBlocker(run))[s] {
				o.FailAt(s, "the response is serialised before scheduler.Run returned")
			}
		}
	})

	c.Check("R-POST", "outputNode.Fail records nestPathErrorMulti(path, err) once; errorRecorder keeps the first error (sync.Once) and is the only writer of err", 3, func(o *an.O) {
		fn := c.NeedFunc(gq, "(*outputNode).Fail")
		recs := an.Calls(fn, an.Mod(gq, "errorRecorder", "record"))
		if why := an.ExactlyOnce(fn, recs); why != "" {
			o.Fail(p.Pos(fn.Pos()), "Fail: errRecorder.record: %s (a resolver error would be dropped)", why)
			return
		}
		for _, r := range recs {
			o.Site(r)
			arg := an.CallOf(r).Args[1]
			call, ok := arg.(*ssa.Call)
			if !ok || !an.Mod(gq, "", "nestPathErrorMulti").Matches(call.Common()) {
				o.FailAt(r, "the recorded error is %s, not nestPathErrorMulti(path, err): the response path would be missing", an.Expr(arg))
				continue
			}
			o.Site(call)
			if call.Call.Args[1] != fn.Params[1] {
				o.FailAt(call, "nestPathErrorMulti is not given Fail's err")
			}
			if !strings.Contains(an.Expr(call.Call.Args[0]), "getPath()") {
				o.FailAt(call, "the path handed to nestPathErrorMulti is %s, not the node's path", an.Expr(call.Call.Args[0]))
			}
			if an.PathOf(an.CallOf(r).Args[0]) != fn.Params[0].Name()+".errRecorder" {
				o.FailAt(r, "recorded on %s, not on the node's shared recorder", an.Expr(an.CallOf(r).Args[0]))
			}
		}
		rec := c.NeedFunc(gq, "(*errorRecorder).record")
		// only store of errorRecorder.err in the module: inside record's Do closure
		nst := 0
		for _, f := range p.ModuleFuncs(nil) {
			for _, r := range an.FieldRefs(f, gqPath(), "errorRecorder", "err") {
				if r.Kind != "store" {
					continue
				}
				nst++
				o.Site(r.Instr)
				if f.Parent() != rec {
					o.FailAt(r.Instr, "%s.%s writes errorRecorder.err directly (bypassing first-error-wins)", an.RelPkg(f), an.QualName(f))
					continue
				}
				// rec must hand this closure to Once.Do
				okDo := false
				for _, call := range an.Calls(rec, an.CalleeSpec{Pkg: "sync", Recv: "Once", Name: "Do"}) {
					if an.ClosureArg(an.CallOf(call).Args[1]) == f {
						okDo = true
					}
				}
				if !okDo {
					o.FailAt(r.Instr, "errorRecorder.err is not written through sync.Once.Do: a later failure could overwrite the first")
				}
				if fv, ok := an.Unload(r.Val).(*ssa.FreeVar); !ok || fv.Name() != rec.Params[1].Name() {
					o.FailAt(r.Instr, "record stores %s, not its argument", an.Expr(r.Val))
				}
			}
		}
		if nst == 0 {
			o.Fail(p.Pos(rec.Pos()), "errorRecorder.err is never written: every failure would be silently dropped")
		}
		// a nil error is not recorded
		okNil := false
		for _, call := range an.Calls(rec, an.CalleeSpec{Pkg: "sync", Recv: "Once", Name: "Do"}) {
			if an.HasGuard(call.Block(), "("+rec.Params[1].Name()+" != nil)") {
				okNil = true
			}
		}
		if !okNil {
			o.Fail(p.Pos(rec.Pos()), "record consumes the Once for a nil error: a later real error would be lost")
		}
	})

	c.Check("R-SHAPE", "nestPathError / nestPathErrorMulti return SanitizedError values unchanged and wrap everything else in *pathError", 4, func(o *an.O) {
		for _, nm := range []string{"nestPathError", "nestPathErrorMulti"} {
			fn := c.NeedFunc(gq, nm)
			errParam := fn.Params[1]
			nSan, nWrap := 0, 0
			for _, e := range an.Exits(fn, false) {
				ret := e.(*ssa.Return)
				v := an.StripConv(ret.Results[0])
				o.Site(e)
				// one of the two may simply hand its error to the other, whose returns are checked here too
				if call, ok := v.(*ssa.Call); ok {
					if g := call.Call.StaticCallee(); g != nil && g != fn && an.RelPkg(g) == gq && (g.Name() == "nestPathError" || g.Name() == "nestPathErrorMulti") && len(call.Call.Args) == 2 && call.Call.Args[1] == ssa.Value(errParam) {
						nSan++
						nWrap += 2
						continue
					}
				}
				if ex, ok := v.(*ssa.Extract); ok {
					ta, ok := ex.Tuple.(*ssa.TypeAssert)
					if ok && ta.X == errParam && ex.Index == 0 && types.TypeString(ta.AssertedType, nil) == gqPath()+".SanitizedError" {
						if !an.HasGuard(e.Block(), an.Expr(ta)+"#1") {
							o.FailAt(e, "%s returns the asserted SanitizedError without the assertion having succeeded", nm)
						}
						nSan++
						continue
					}
				}
				if v == ssa.Value(errParam) {
					okS := false
					for _, g := range an.GuardStrings(e.Block()) {
						if strings.Contains(g, ".(graphql.SanitizedError)#1") && !strings.HasPrefix(g, "!") {
							okS = true
						}
					}
					if okS {
						nSan++
						continue
					}
					o.FailAt(e, "%s returns the error unchanged although it is not known to be a SanitizedError: the response path is lost", nm)
					continue
				}
				if al, ok := v.(*ssa.Alloc); ok {
					if n := an.NamedOf(al.Type()); n != nil && n.Obj().Name() == "pathError" {
						// must not wrap on the sanitized branch
						for _, g := range an.GuardStrings(e.Block()) {
							if strings.Contains(g, ".(graphql.SanitizedError)#1") && !strings.HasPrefix(g, "!") {
								o.FailAt(e, "%s wraps a SanitizedError in a pathError: SanitizeError would no longer recognise it and the client would get the generic message", nm)
							}
						}
						nWrap++
						continue
					}
				}
				o.FailAt(e, "%s returns %s, neither the sanitized error nor a *pathError", nm, an.Expr(v))
			}
			if nSan == 0 {
				o.Fail(p.Pos(fn.Pos()), "%s no longer passes SanitizedError values through unchanged", nm)
			}
			if nWrap < 2 {
				o.Fail(p.Pos(fn.Pos()), "%s must extend an existing *pathError or create one (found %d wrapping returns)", nm, nWrap)
			}
		}
	})

	c.Check("R-SHAPE", "ErrorCause removes only the executor's own path wrapper: an error is treated as a cancellation (and withheld from the client) only when the resolver's error itself is context.Canceled", 2, func(o *an.O) {
		fn := c.NeedFunc(gq, "ErrorCause")
		param := ssa.Value(fn.Params[0])
		var allowed func(v ssa.Value, seen map[ssa.Value]bool) bool
		allowed = func(v ssa.Value, seen map[ssa.Value]bool) bool {
			v = an.StripConv(v)
			if v == param {
				return true
			}
			if seen[v] {
				return true
			}
			seen[v] = true
			switch x := v.(type) {
			case *ssa.Phi:
				for _, e := range x.Edges {
					if !allowed(e, seen) {
						return false
					}
				}
				return true
			case *ssa.UnOp:
				fa, ok := x.X.(*ssa.FieldAddr)
				if !ok || an.FieldName(fa.X.Type(), fa.Field) != "inner" {
					return false
				}
				nn := an.NamedOf(fa.X.Type())
				if nn == nil || nn.Obj().Name() != "pathError" {
					return false
				}
				var src ssa.Value
				switch y := fa.X.(type) {
				case *ssa.Extract:
					if ta, ok := y.Tuple.(*ssa.TypeAssert); ok {
						src = ta.X
					}
				case *ssa.TypeAssert:
					src = y.X
				}
				return src != nil && allowed(src, seen)
			}
			return false
		}
		for _, e := range an.Exits(fn, false) {
			ret, ok := e.(*ssa.Return)
			if !ok {
				continue
			}
			o.Site(e)
			if !allowed(ret.Results[0], map[ssa.Value]bool{}) {
				o.FailAt(e, "ErrorCause returns %s: it unwraps more than the executor's own *pathError, so a resolver error that merely wraps context.Canceled (or any error when unwrapped to its root) is taken for a cancelled request by handleSubscribe / handleMutate / the HTTP handler and never reported to the client", an.Short(an.Expr(ret.Results[0]), 60))
			}
		}
		an.Instrs(fn, func(i ssa.Instruction) {
			cc := an.CallOf(i)
			if cc == nil {
				return
			}
			name := ""
			if cc.IsInvoke() {
				name = cc.Method.Name()
			} else if f := an.CalleeFunc(cc); f != nil {
				name = f.Name()
			}
			switch name {
			case "Unwrap", "Is", "As", "Cause":
				o.FailAt(i, "ErrorCause follows the generic error chain (%s): errors that only wrap context.Canceled would be withheld from the client", name)
			}
		})
		// the callers withhold an error only on equality with context.Canceled
		n := 0
		for _, nm := range []string{"(*conn).handleSubscribe", "(*conn).handleMutate", "HTTPHandler"} {
			f := p.Func(gq, nm)
			if f == nil {
				continue
			}
			for _, g := range an.WithAnons(f) {
				for _, call := range an.CallsToFunc(g, fn) {
					n++
					o.Site(call)
					okCmp := false
					for _, r := range *call.(ssa.Value).Referrers() {
						if bo, ok := r.(*ssa.BinOp); ok && (bo.Op == token.EQL || bo.Op == token.NEQ) {
							other := bo.Y
							if other == call.(ssa.Value) {
								other = bo.X
							}
							if strings.HasSuffix(an.Expr(other), "context.Canceled") || strings.HasSuffix(an.Expr(other), "Canceled") {
								okCmp = true
							}
						}
					}
					if !okCmp {
						o.FailAt(call, "the cause of a failed execution is not compared with context.Canceled")
					}
				}
			}
		}
		if n < 2 {
			o.Fail(p.Pos(fn.Pos()), "expected the subscription, mutation and HTTP paths to classify cancellations with ErrorCause (found %d call sites)", n)
		}
	})

	c.Check("R-POST", "a failed execution never counts as a successful run: once the execution error is known to be non-nil, the subscription / mutation / HTTP compute function returns an error (so the rerunner retries with a cleared cache instead of keeping results computed next to the failure)", 3, func(o *an.O) {
		var cls []*ssa.Function
		for _, nm := range []string{"(*conn).handleSubscribe", "(*conn).handleMutate"} {
			cls = append(cls, rerunnerClosures(c.NeedFunc(gq, nm))...)
		}
		if h := p.Func(gq, "(*httpHandler).ServeHTTP"); h != nil {
			cls = append(cls, rerunnerClosures(h)...)
		}
		n := 0
		for _, cl := range cls {
			for _, nt := range an.NilTestsWhere(cl, func(v ssa.Value) bool {
				ld, ok := v.(*ssa.UnOp)
				if !ok || ld.Op != token.MUL {
					return false
				}
				fa, ok := ld.X.(*ssa.FieldAddr)
				if !ok || an.FieldName(fa.X.Type(), fa.Field) != "Error" {
					return false
				}
				nn := an.NamedOf(fa.X.Type())
				return nn != nil && nn.Obj().Name() == "ComputationOutput"
			}) {
				n++
				o.Site(nt.If)
				r := an.Reach(cl, nt.NonNil.Instrs[0], an.NewBlocker())
				for _, e := range an.Exits(cl, false) {
					ret, ok := e.(*ssa.Return)
					if !ok || len(ret.Results) != 2 || !(r[e] || e.Block() == nt.NonNil) {
						continue
					}
					if isConstNil(an.ResultAt(ret, 1)) {
						o.FailAt(e, "%s: after the execution failed the compute function can return without an error: the rerunner records a successful run, keeps cache entries computed during the failed execution (a failed expensive field is cached as nil) and later updates carry partial data with no error", an.QualName(cl))
					}
				}
			}
		}
		if n < 3 {
			o.Fail(p.Pos(c.NeedFunc(gq, "(*conn).handleSubscribe").Pos()), "expected the subscription, mutation and HTTP compute functions to test the execution error (found %d tests)", n)
		}
	})

	c.Check("R-BOOL", "what a subscription / mutation sends: an error message exactly for a failed first run (subscription) or any failed mutation, data only for a successful run, nothing for a cancelled one; a failed rerun is retried (error returned, nothing sent)", 4, func(o *an.O) {
		ruleHandlerTables(c, o)
	})

	c.Check("R-ERR", "errors produced while executing work units are never dropped (each reaches outputNode.Fail, a return, or a wrapper whose result does)", 12, func(o *an.O) {
		files := map[string]bool{"batch_executor.go": true}
		for _, fn := range p.ModuleFuncs(func(rel string) bool { return rel == gq }) {
			pos := p.Fset.Position(fn.Pos())
			if !files[baseName(pos.Filename)] {
				continue
			}
			an.Instrs(fn, func(i ssa.Instruction) {
				v, ok := i.(*ssa.Call)
				if !ok {
					return
				}
				for _, e := range an.ErrResult(v) {
					o.Site(i)
					if !errorUsed(e) {
						o.FailAt(i, "%s: the error of %s is tested at most, never returned, recorded (Fail) or passed on: the query would succeed with missing data", an.QualName(fn), an.Short(an.Expr(v), 60))
					}
				}
				// error results discarded entirely (tuple with no extract of the error)
				if tup, ok := v.Type().(*types.Tuple); ok {
					for k := 0; k < tup.Len(); k++ {
						if an.IsErrorType(tup.At(k).Type()) && extractOf(v, k) == nil {
							o.Site(i)
							o.FailAt(i, "%s: the error result of %s is discarded", an.QualName(fn), an.Short(an.Expr(v), 60))
						}
					}
				}
			})
		}
		// the failing unit's destinations: in executeWorkUnit-family every Fail receiver is an element of unit.destinations
		for _, nm := range []string{"executeNonExpensiveWorkUnit", "executeBatchWorkUnit", "executeNonBatchWorkUnit", "executeNonBatchWorkUnitWithCaching"} {
			fn := p.Func(gq, nm)
			if fn == nil {
				continue
			}
			for _, f := range an.WithAnons(fn) {
				for _, call := range an.Calls(f, an.Mod(gq, "outputNode", "Fail")) {
					o.Site(call)
					if !strings.Contains(an.Expr(an.CallOf(call).Args[0]), "destinations[") && !strings.Contains(an.Expr(an.CallOf(call).Args[0]), "dest") {
						o.FailAt(call, "%s fails %s, which is not a destination of the unit being executed", nm, an.Expr(an.CallOf(call).Args[0]))
					}
				}
			}
		}
	})

	c.Check("R-PAIR", "error paths: child output nodes are parented on the destination of the same source (alignment of sources/destinations in the executor)", 25, func(o *an.O) {
		ruleExecutorAlignment(c, o)
	})

	c.Check("R-TAINT", "socket envelopes: Message is SanitizeError(_), a diff.Diff result, an empty struct or nil; error envelopes always SanitizeError; WriteJSON only via writeOrClose", 8, func(o *an.O) {
		for _, fn := range p.ModuleFuncs(func(rel string) bool { return rel == gq }) {
			for _, l := range an.StructLits(fn, "outEnvelope") {
				o.SitePos(p.InstrPos(l.Alloc))
				msg := l.Fields["Message"]
				typ, _ := an.ConstString(l.Fields["Type"])
				kind := messageKind(msg)
				if kind == "other" {
					o.FailAt(l.Alloc, "%s: envelope Message is %s - only SanitizeError(err), diff.Diff(..), struct{}{} or nil may be sent to clients", an.QualName(fn), an.Short(an.Expr(msg), 80))
				}
				if typ == "error" && kind != "sanitized" {
					o.FailAt(l.Alloc, "%s: an error envelope whose Message is not SanitizeError(err)", an.QualName(fn))
				}
				if kind == "sanitized" && typ != "error" {
					o.FailAt(l.Alloc, "%s: a sanitised error text sent as %q", an.QualName(fn), typ)
				}
				for f, v := range l.Fields {
					if f == "Message" || f == "ID" || f == "Type" {
						continue
					}
					if an.IsErrorType(an.StripConv(v).Type()) || strings.Contains(an.Expr(v), ".Error()") {
						o.FailAt(l.Alloc, "%s: envelope field %s carries error text", an.QualName(fn), f)
					}
					if f == "Metadata" && !isConstNil(v) && !an.IsFieldAccess(v, "ComputationOutput", "Metadata") {
						o.FailAt(l.Alloc, "%s: envelope Metadata is %s; only nil or the middlewares' output.Metadata is sent (anything built here could carry error text)", an.QualName(fn), an.Short(an.Expr(v), 60))
					}
				}
			}
			an.Instrs(fn, func(i ssa.Instruction) {
				cc := an.CallOf(i)
				if cc == nil || !cc.IsInvoke() || cc.Method.Name() != "WriteJSON" {
					return
				}
				o.Site(i)
				if an.QualName(fn) != "(*conn).writeOrClose" {
					o.FailAt(i, "%s writes to the socket directly, bypassing writeOrClose and the envelope rule", an.QualName(fn))
					return
				}
				if an.StripConv(cc.Args[0]) != ssa.Value(fn.Params[1]) && an.PathOf(an.StripConv(cc.Args[0])) != fn.Params[1].Name() {
					o.FailAt(i, "writeOrClose writes %s instead of the envelope it was given", an.Expr(cc.Args[0]))
				}
			})
		}
		// writeOrClose callers pass literals only (so the literal rule covers everything written)
		for _, fn := range p.ModuleFuncs(func(rel string) bool { return rel == gq }) {
			for _, ev := range envelopesIn(fn) {
				if ev.lit.Alloc == nil {
					o.FailAt(ev.call, "%s passes a non-literal envelope to writeOrClose; its Message cannot be classified", an.QualName(fn))
				}
			}
		}
	})

	c.Check("R-SHAPE", "SanitizeError returns the error's own SanitizedError() text only when the top-level error implements it, else a constant", 2, func(o *an.O) {
		fn := c.NeedFunc(gq, "SanitizeError")
		nConst, nSan := 0, 0
		for _, e := range an.Exits(fn, false) {
			ret := e.(*ssa.Return)
			o.Site(e)
			v := ret.Results[0]
			if _, ok := an.ConstString(v); ok {
				nConst++
				continue
			}
			if call, ok := v.(*ssa.Call); ok && call.Call.IsInvoke() && call.Call.Method.Name() == "SanitizedError" {
				if ex, ok := call.Call.Value.(*ssa.Extract); ok {
					if ta, ok := ex.Tuple.(*ssa.TypeAssert); ok && ta.X == fn.Params[0] && an.HasGuard(e.Block(), an.Expr(ta)+"#1") {
						nSan++
						continue
					}
				}
			}
			o.FailAt(e, "SanitizeError returns %s: text that is neither the fixed message nor the error's SanitizedError()", an.Short(an.Expr(v), 80))
		}
		if nConst == 0 || nSan == 0 {
			o.Fail(p.Pos(fn.Pos()), "SanitizeError must have both the pass-through and the generic branch (found %d/%d)", nSan, nConst)
		}
	})

	c.Check("R-POST", "subscribe closure: initial failure writes exactly one error envelope, closes the subscription and returns a non-retry error; later failures return RetrySentinelError without writing", 3, func(o *an.O) {
		fn := c.NeedFunc(gq, "(*conn).handleSubscribe")
		cls := rerunnerClosures(fn)
		an.Need(len(cls) == 1, "subscribe closure")
		cl := cls[0]
		init := closureRoleVar(cl, "IsInitialComputation")
		an.Need(init != nil, "captured initial")
		var errW []ssa.Instruction
		for _, ev := range envelopesIn(cl) {
			if ev.typ == "error" {
				errW = append(errW, ev.call)
				o.Site(ev.call)
			}
		}
		if len(errW) == 0 {
			o.Fail(p.Pos(cl.Pos()), "the subscribe closure never reports an error to the client")
			return
		}
		eifs := errorIfs(cl)
		an.Need(len(eifs) > 0, "error test in subscribe closure")
		// region: error edge taken, initial true, not cancelled
		mk := func(extra ...ssa.Instruction) *an.Blocker {
			blk := an.NewBlocker(extra...)
			for _, ci := range eifs {
				blk.AddEdge(ci.If.Block(), ci.False)
			}
			for _, ci := range an.CondIfs(cl, func(v ssa.Value) bool {
				ld, ok := v.(*ssa.UnOp)
				return ok && ld.Op == token.MUL && ld.X == ssa.Value(init)
			}) {
				// `if !initial` renders as If(initial) with swapped successors; False = initial is false
				blk.AddEdge(ci.If.Block(), ci.False)
			}
			for _, ci := range an.CondIfs(cl, func(v ssa.Value) bool { return strings.Contains(an.Expr(v), "== Canceled)") }) {
				blk.AddEdge(ci.If.Block(), ci.True)
			}
			return blk
		}
		if e := an.ReachableAvoiding(cl, nil, mk(errW...), an.Exits(cl, false)); e != nil {
			o.FailAt(e, "an initially failing subscription can return without an error envelope being written")
		}
		gos := goCallsTo(cl, an.Mod(gq, "conn", "closeSubscription"))
		if e := an.ReachableAvoiding(cl, nil, mk(gos...), an.Exits(cl, false)); e != nil {
			o.FailAt(e, "an initially failing subscription is not closed")
		}
		for _, w := range errW {
			after := an.Reach(cl, w, nil)
			for _, w2 := range errW {
				if after[w2] {
					o.FailAt(w, "the error can be reported twice")
				}
			}
			if !an.HasGuard(w.Block(), init.Name()) {
				o.FailAt(w, "an error envelope is written on a re-computation (guards %v): transient failures must be retried silently", an.GuardStrings(w.Block()))
			}
		}
		// returns on the initial error path: error result is the execution error (non-nil), not the retry sentinel
		reach := an.Reach(cl, nil, mk())
		for _, e := range an.Exits(cl, false) {
			if !reach[e] {
				continue
			}
			o.Site(e)
			ev := an.ResultAt(e.(*ssa.Return), 1)
			if isConstNil(ev) || strings.Contains(an.Expr(ev), "RetrySentinelError") {
				o.FailAt(e, "the initial failure returns %s: the rerunner would keep (re)running a subscription that was reported as failed", an.Expr(ev))
			}
		}
		// retry path
		nRetry := 0
		for _, e := range an.Exits(cl, false) {
			ev := an.ResultAt(e.(*ssa.Return), 1)
			if strings.Contains(an.Expr(ev), "RetrySentinelError") {
				nRetry++
				o.Site(e)
				if !an.HasGuard(e.Block(), "!"+init.Name()) {
					o.FailAt(e, "RetrySentinelError returned while initial may hold")
				}
			}
		}
		if nRetry == 0 {
			o.Fail(p.Pos(cl.Pos()), "re-computation failures no longer return RetrySentinelError (the subscription would die silently on a transient error)")
		}
	})
}

func baseName(path string) string {
	if i := strings.LastIndex(path, "/"); i >= 0 {
		return path[i+1:]
	}
	return path
}

// messageKind classifies the value stored in outEnvelope.Message.
func messageKind(v ssa.Value) string {
	if v == nil || isConstNil(v) {
		return "nil"
	}
	m := an.StripConv(v)
	switch x := m.(type) {
	case *ssa.Const:
		if x.Value == nil {
			return "empty" // struct{}{} / nil
		}
		return "other"
	case *ssa.Call:
		if an.Mod(gq, "", "SanitizeError").Matches(x.Common()) {
			return "sanitized"
		}
		if an.Mod("diff", "", "Diff").Matches(x.Common()) {
			return "diff"
		}
	}
	return "other"
}

// errorUsed reports whether an error value has a use other than comparisons
// with nil (a return, a call argument, a store, a phi that is itself used).
func errorUsed(e ssa.Value) bool {
	seen := map[ssa.Value]bool{}
	var used func(v ssa.Value) bool
	used = func(v ssa.Value) bool {
		if seen[v] {
			return false
		}
		seen[v] = true
		refs := v.Referrers()
		if refs == nil {
			return false
		}
		for _, r := range *refs {
			switch r := r.(type) {
			case *ssa.DebugRef:
			case *ssa.BinOp:
				// comparison: not a use
			case *ssa.Phi:
				if used(r) {
					return true
				}
			case *ssa.ChangeInterface:
				if used(r) {
					return true
				}
			case *ssa.MakeInterface:
				if used(r) {
					return true
				}
			case *ssa.Store:
				if r.Val == v {
					if a, ok := r.Addr.(*ssa.Alloc); ok {
						for _, ar := range *a.Referrers() {
							if u, ok := ar.(*ssa.UnOp); ok && used(u) {
								return true
							}
						}
						continue
					}
					return true
				}
			default:
				return true
			}
		}
		return false
	}
	return used(e)
}
