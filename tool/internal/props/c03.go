package props

import (
	"go/ast"
	"go/constant"
	"go/token"
	"go/types"
	"sort"
	"strings"

	"golang.org/x/tools/go/ssa"

	"thunderlint/internal/an"
)

func init() {
	register("C03", "Decides the structural agreement between the delta encoder (package diff) and decoder (package merge): every value stored into a delta map is an encoded value (markRemoved(), markReplaced(_), a non-nil Diff(_,_) result, or compressReorderIndices(_) under the reorder key only) - never a raw input value; the scalar pass-through type lists of diff.markReplaced and merge.mergeReplaced are equal; markRemoved returns an empty []interface{} and merge.isRemoved tests exactly that; the reorder key written by diffArray equals merge.indicesReorderedKey; the kinds of the run tuple agree (encoder [first, count] vs how the decoder's loop uses the two components); index provenance in diffArray/computeReorderIndices/mergeArray (old[j] with j from indices computed over (old,new), tested != -1); Diff never stores through its arguments (every written map/slice is allocated in the same function); complex replaced values are wrapped after StripKey; each old-kind for which Diff emits a map delta has a decoding branch in Merge. diffArray diffs every new element against its old counterpart (no element matched by reorder key is assumed unchanged). Not decided: round-trip equality for all JSON pairs, Diff(x,x)=nil, JSON-serialisability, the TypeScript client (no TypeScript front end is installed; a text match would be a frozen fragment).", c03)
}

func c03(c *an.Ctx) {
	p := c.P
	const dp, mp = "diff", "merge"

	c.Check("R-CLOSED", "diffMap/diffArray store only encoded values into a delta", 4, func(o *an.O) {
		for _, nm := range []string{"diffMap", "diffArray"} {
			fn := c.NeedFunc(dp, nm)
			n := 0
			an.Instrs(fn, func(i ssa.Instruction) {
				mu, ok := i.(*ssa.MapUpdate)
				if !ok {
					return
				}
				if _, ok := mu.Map.(*ssa.MakeMap); !ok {
					return // not the delta (checked by R-FRESH)
				}
				n++
				o.Site(i)
				v := an.StripConv(mu.Value)
				call, ok := v.(*ssa.Call)
				if !ok && emptyIfaceSliceValue(p, dp, v) {
					return // the removal marker itself (markRemoved() written out)
				}
				if !ok {
					o.FailAt(i, "%s stores %s raw into the delta: an array value is read back as 'removed' or 'replaced by its first element', and __key fields are not stripped", nm, an.Short(an.Expr(v), 50))
					return
				}
				key, isConstKey := an.ConstString(mu.Key)
				switch {
				case an.Mod(dp, "", "markRemoved").Matches(call.Common()), an.Mod(dp, "", "markReplaced").Matches(call.Common()):
				case an.Mod(dp, "", "Diff").Matches(call.Common()):
					okG := false
					for _, g := range an.GuardsOf(i.Block()) {
						if bo, ok := g.Cond.(*ssa.BinOp); ok && bo.X == ssa.Value(call) && isConstNil(bo.Y) && ((bo.Op == token.NEQ && g.Polarity) || (bo.Op == token.EQL && !g.Polarity)) {
							okG = true
						}
					}
					if !okG {
						o.FailAt(i, "%s stores a Diff result without testing it for nil (a nil entry is not an empty delta)", nm)
					}
				case an.Mod(dp, "", "compressReorderIndices").Matches(call.Common()):
					if !isConstKey || key != reorderKeyOf(p) {
						o.FailAt(i, "reorder indices stored under a key other than the decoder's reorder key")
					}
				default:
					o.FailAt(i, "%s stores the result of %s into the delta", nm, an.Short(an.Expr(call), 50))
				}
				if isConstKey && key == reorderKeyOf(p) && !an.Mod(dp, "", "compressReorderIndices").Matches(call.Common()) {
					o.FailAt(i, "something other than compressReorderIndices(..) stored under the reorder key")
				}
			})
			if n == 0 {
				o.Fail(p.Pos(fn.Pos()), "%s builds no delta map", nm)
			}
		}
	})

	c.Check("R-POST", "diffMap: a key present on only one side always gets a delta entry (merge only creates/removes keys the delta mentions)", 2, func(o *an.O) {
		fn := c.NeedFunc(dp, "diffMap")
		oldP := fn.Params[0]
		// the typed new map: extract #0 of the comma-ok assertion of the second parameter
		var newM ssa.Value
		an.Instrs(fn, func(i ssa.Instruction) {
			if ta, ok := i.(*ssa.TypeAssert); ok && ta.X == ssa.Value(fn.Params[1]) && ta.CommaOk {
				newM = extractOf(ta, 0)
			}
		})
		an.Need(newM != nil, "typed new map in diffMap")
		var delta ssa.Value
		an.Instrs(fn, func(i ssa.Instruction) {
			if mm, ok := i.(*ssa.MakeMap); ok {
				delta = mm
			}
		})
		an.Need(delta != nil, "delta map in diffMap")
		sides := []struct {
			ranged, probed ssa.Value
			what           string
		}{
			{oldP, newM, "a field that disappears (present in old, absent in new)"},
			{newM, oldP, "a field that appears (absent in old, present in new)"},
		}
		for _, side := range sides {
			// the loop over `ranged`
			var rng *ssa.Range
			an.Instrs(fn, func(i ssa.Instruction) {
				if r, ok := i.(*ssa.Range); ok && r.X == side.ranged {
					rng = r
				}
			})
			if rng == nil {
				o.Fail(p.Pos(fn.Pos()), "diffMap does not iterate over the keys of %s", an.Expr(side.ranged))
				continue
			}
			var hdr *ssa.BasicBlock
			var keyv ssa.Value
			for _, r := range *rng.Referrers() {
				if nx, ok := r.(*ssa.Next); ok {
					hdr = nx.Block()
					keyv = extractOf(nx, 1)
				}
			}
			an.Need(hdr != nil && keyv != nil, "range loop over map")
			// membership test of the same key in the other map
			found := false
			an.Instrs(fn, func(i ssa.Instruction) {
				lk, ok := i.(*ssa.Lookup)
				if !ok || lk.X != side.probed || lk.Index != keyv || !lk.CommaOk {
					return
				}
				okv := extractOf(lk, 1)
				for _, ci := range an.CondIfs(fn, func(v ssa.Value) bool { return okv != nil && v == okv }) {
					found = true
					o.Site(ci.If)
					// from the not-present edge, the loop header must not be reachable without a store into the delta under that key
					var stores []ssa.Instruction
					an.Instrs(fn, func(j ssa.Instruction) {
						if mu, ok := j.(*ssa.MapUpdate); ok && mu.Map == delta && mu.Key == keyv {
							stores = append(stores, j)
						}
					})
					blk := an.NewBlocker(stores...)
					first := ci.False.Instrs[0]
					r := an.Reach(fn, first, blk)
					if blk.Instr[first] {
						continue
					}
					if r[hdr.Instrs[0]] || r[first] && false {
						o.FailAt(ci.If, "diffMap can finish handling %s without putting an entry for it into the delta: the merged value keeps/lacks that key", side.what)
					}
					for _, e := range an.Exits(fn, false) {
						if r[e] {
							o.FailAt(e, "diffMap can return while handling %s without a delta entry for it", side.what)
						}
					}
				}
			})
			if !found {
				o.Fail(p.Pos(fn.Pos()), "diffMap does not test whether a key of %s is present in %s: %s would be diffed like a changed field (Diff(nil, nil) = nil drops a field that appears as null)", an.Expr(side.ranged), an.Expr(side.probed), side.what)
			}
		}
	})

	c.Check("R-GUARD", "diffArray omits the reorder entry only for the identity mapping (same length and indices[i] == i for every i)", 2, func(o *an.O) {
		fn := c.NeedFunc(dp, "diffArray")
		var store *ssa.MapUpdate
		an.Instrs(fn, func(i ssa.Instruction) {
			if mu, ok := i.(*ssa.MapUpdate); ok {
				if call, ok := an.StripConv(mu.Value).(*ssa.Call); ok && an.Mod(dp, "", "compressReorderIndices").Matches(call.Common()) {
					store = mu
				}
			}
		})
		if store == nil {
			o.Fail(p.Pos(fn.Pos()), "diffArray never emits reorder indices")
			return
		}
		o.Site(store)
		gs := an.GuardsOf(store.Block())
		var flag *ssa.Phi
		for _, g := range gs {
			if ph, ok := g.Cond.(*ssa.Phi); ok && g.Polarity {
				flag = ph
			}
		}
		if flag == nil {
			// no flag variable: the decision is made by control flow (early exits of a
			// scan, possibly in an inlined helper) or the entry is always written
			idxCalls := an.Calls(fn, an.Mod(dp, "", "computeReorderIndices"))
			an.Need(len(idxCalls) == 1 && len(store.Block().Succs) == 1, "computeReorderIndices call / join after the reorder entry")
			idxCall := idxCalls[0]
			indices := idxCall.(ssa.Value)
			after := store.Block().Succs[0].Instrs[0]
			if !an.Reach(fn, idxCall, an.NewBlocker(store))[after] {
				return // always emitted
			}
			isLenOf := func(v, of ssa.Value) bool {
				call, ok := v.(*ssa.Call)
				if !ok {
					return false
				}
				b, ok := call.Call.Value.(*ssa.Builtin)
				return ok && b.Name() == "len" && call.Call.Args[0] == of
			}
			eqEdge := func(iff *ssa.If, bo *ssa.BinOp) (eq, ne *ssa.BasicBlock) {
				if bo.Op == token.EQL {
					return iff.Block().Succs[0], iff.Block().Succs[1]
				}
				return iff.Block().Succs[1], iff.Block().Succs[0]
			}
			lenBlk := an.NewBlocker(store)
			nLen := 0
			var elem []*ssa.If
			for _, b := range fn.Blocks {
				iff, ok := b.Instrs[len(b.Instrs)-1].(*ssa.If)
				if !ok {
					continue
				}
				bo, ok := iff.Cond.(*ssa.BinOp)
				if !ok || (bo.Op != token.EQL && bo.Op != token.NEQ) {
					continue
				}
				if (isLenOf(bo.X, fn.Params[0]) && isLenOf(bo.Y, indices)) || (isLenOf(bo.Y, fn.Params[0]) && isLenOf(bo.X, indices)) {
					eq, _ := eqEdge(iff, bo)
					lenBlk.AddEdge(b, eq)
					nLen++
					o.Site(iff)
					continue
				}
				for _, pr := range [][2]ssa.Value{{bo.X, bo.Y}, {bo.Y, bo.X}} {
					ld, ok := pr[0].(*ssa.UnOp)
					if !ok {
						continue
					}
					ia, ok := ld.X.(*ssa.IndexAddr)
					if ok && ia.X == indices && an.IsRangeIndex(ia.Index) && pr[1] == ia.Index && an.LoopSliceOf(ia.Index) == indices {
						elem = append(elem, iff)
					}
				}
			}
			if nLen == 0 {
				o.FailAt(store, "the reorder entry can be omitted without len(old) having been compared with len(indices): a shrunk or grown array would keep its old length on the client")
			} else if an.Reach(fn, idxCall, lenBlk)[after] {
				o.FailAt(store, "the reorder entry can be omitted although len(old) != len(indices)")
			}
			if len(elem) != 1 {
				o.FailAt(store, "expected one comparison of indices[i] with i deciding the omission, found %d", len(elem))
				return
			}
			T := elem[0]
			o.Site(T)
			eq, ne := eqEdge(T, T.Cond.(*ssa.BinOp))
			h := an.LoopHeaderOf(T)
			if h == nil {
				o.FailAt(T, "indices[i] is compared with i outside a loop")
				return
			}
			if an.Reach(fn, ne.Instrs[0], an.NewBlocker(store))[after] {
				o.FailAt(T, "an element with indices[i] != i does not force the reorder entry: the client would keep the old element at that position")
			}
			if eq != h && an.Reach(fn, eq.Instrs[0], an.NewBlocker(store, h.Instrs[0]))[after] {
				o.FailAt(T, "the scan stops at the first position with indices[i] == i; later positions are not compared")
			}
			if !everyIteration(fn, h.Succs[0], T.Block(), h) {
				o.FailAt(T, "some iterations skip the comparison of indices[i] with i")
			}
			if an.Reach(fn, idxCall, an.NewBlocker(store, h.Instrs[0]))[after] {
				o.FailAt(store, "the reorder entry can be omitted without scanning indices")
			}
			return
		}
		o.Site(flag)
		nTrue, nInit := 0, 0
		for k, e := range flag.Edges {
			pred := flag.Block().Preds[k]
			if e == ssa.Value(flag) {
				continue
			}
			if cst, ok := e.(*ssa.Const); ok && cst.Value != nil {
				if cst.Value.ExactString() != "true" {
					o.FailAt(flag, "the order-changed flag can be reset to false")
					continue
				}
				nTrue++
				// guards of pred beyond those of the loop header: exactly indices[i] != i
				base := map[string]bool{}
				for _, g := range an.GuardStrings(flag.Block()) {
					base[g] = true
				}
				var extra []an.Guard
				for _, g := range an.GuardsOf(pred) {
					s := an.Expr(g.Cond)
					if !g.Polarity {
						s = "!" + s
					}
					if base[s] || base[strings.TrimPrefix(s, "!")] {
						continue
					}
					if bo, ok := g.Cond.(*ssa.BinOp); ok && bo.Op == token.LSS && an.IsRangeIndex(bo.X) {
						continue // the loop condition
					}
					extra = append(extra, g)
				}
				okShape := len(extra) == 1
				if okShape {
					bo, ok := extra[0].Cond.(*ssa.BinOp)
					okShape = ok && ((bo.Op == token.NEQ && extra[0].Polarity) || (bo.Op == token.EQL && !extra[0].Polarity))
					if okShape {
						ld, isLd := bo.X.(*ssa.UnOp)
						okShape = false
						if isLd {
							if ia, ok := ld.X.(*ssa.IndexAddr); ok && an.IsRangeIndex(ia.Index) && bo.Y == ia.Index {
								if call, ok := ia.X.(*ssa.Call); ok && an.Mod(dp, "", "computeReorderIndices").Matches(call.Common()) {
									okShape = true
								}
							}
						}
					}
				}
				if !okShape {
					var gsx []string
					for _, g := range extra {
						gsx = append(gsx, an.Expr(g.Cond))
					}
					o.FailAt(flag, "the reorder entry is requested under %v, not exactly under indices[i] != i: for some non-identity mapping (e.g. an element that is new at its position, index -1) the client is not told to drop/move the old element", gsx)
				}
				continue
			}
			nInit++
			s := an.Expr(e)
			if !(strings.HasPrefix(s, "(len(") && strings.Contains(s, " != len(")) {
				o.FailAt(flag, "the order-changed flag starts as %s, not as len(old) != len(indices)", s)
			}
		}
		if nTrue == 0 || nInit == 0 {
			o.FailAt(flag, "the order-changed flag needs both the length test and the per-index test (found %d/%d)", nInit, nTrue)
		}
	})

	c.Check("R-BOOL", "diffMap: objects whose __key values differ - including a key present on one side only - are replaced as a whole, never diffed field by field (the client strips __key, so a field-wise delta would mention it)", 1, func(o *an.O) {
		fn := c.NeedFunc(dp, "diffMap")
		isKeyLookup := func(v ssa.Value) (*ssa.Lookup, bool) {
			if ex, ok := v.(*ssa.Extract); ok && ex.Index == 0 {
				v = ex.Tuple
			}
			lk, ok := v.(*ssa.Lookup)
			if !ok {
				return nil, false
			}
			k, isConst := an.ConstString(lk.Index)
			return lk, isConst && k == "__key"
		}
		var cmp *ssa.BinOp
		an.Instrs(fn, func(i ssa.Instruction) {
			bo, ok := i.(*ssa.BinOp)
			if !ok || (bo.Op != token.EQL && bo.Op != token.NEQ) {
				return
			}
			_, okx := isKeyLookup(bo.X)
			_, oky := isKeyLookup(bo.Y)
			if okx && oky {
				cmp = bo
			}
		})
		if cmp == nil {
			o.Fail(p.Pos(fn.Pos()), "diffMap no longer compares the __key of the two objects")
			return
		}
		o.Site(cmp)
		var replaced []ssa.Instruction
		for _, i := range an.Calls(fn, an.Mod(dp, "", "markReplaced")) {
			replaced = append(replaced, i)
		}
		var fieldwise []ssa.Instruction
		an.Instrs(fn, func(i ssa.Instruction) {
			if _, ok := i.(*ssa.Range); ok {
				fieldwise = append(fieldwise, i)
			}
		})
		an.Need(len(fieldwise) > 0, "field-by-field loops of diffMap")
		// presence of __key on either side, where the code asks for it
		for m := 0; m < 4; m++ {
			oldHas, newHas := m&1 != 0, m&2 != 0
			if !oldHas && !newHas {
				continue // both absent: the keys are equal
			}
			sim := &an.BoolSim{Fn: fn, Atom: func(v ssa.Value) (bool, bool) {
				if v == ssa.Value(cmp) {
					return cmp.Op == token.NEQ, true // the keys differ
				}
				if ex, ok := v.(*ssa.Extract); ok && ex.Index == 1 {
					if lk, ok := isKeyLookup(ex.Tuple); ok {
						if lk.X == ssa.Value(fn.Params[0]) {
							return oldHas, true
						}
						return newHas, true
					}
				}
				return false, false
			}}
			r := sim.Run()
			for _, fw := range fieldwise {
				if r[fw.Block()] {
					o.FailAt(cmp, "two objects with different __key (old has one: %v, new has one: %v) are diffed field by field: the delta then mentions __key itself (a removal marker or the raw key), which the client - holding the stripped value - cannot apply, or applies into a result that is not the stripped new value", oldHas, newHas)
					break
				}
			}
		}
	})

	c.Check("R-POST", "diffArray compares every new element with its old counterpart (matched by reorder key, which identifies objects by __key only) - no element is assumed unchanged without Diff", 1, func(o *an.O) {
		fn := c.NeedFunc(dp, "diffArray")
		var calls []ssa.Instruction
		for _, i := range an.Calls(fn, an.Mod(dp, "", "Diff")) {
			if an.LoopHeaderOf(i) != nil {
				calls = append(calls, i)
			}
		}
		if len(calls) == 0 {
			o.Fail(p.Pos(fn.Pos()), "diffArray does not diff the elements of the new array against their old counterparts")
			return
		}
		for _, call := range calls {
			o.Site(call)
			h := an.LoopHeaderOf(call)
			body := h.Succs[0]
			if len(body.Instrs) == 0 {
				continue
			}
			first := body.Instrs[0]
			if first == call {
				continue
			}
			if an.Reach(fn, first, an.NewBlocker(calls...))[h.Instrs[0]] {
				o.FailAt(call, "an iteration of diffArray's element loop can end without Diff(old counterpart, new element): an element matched by its reorder key is assumed unchanged, but the key of an object is only its __key (a scalar equal to an object's __key, or two objects with one __key and different fields, would produce no delta and the client keeps the old value)")
			}
		}
	})

	c.Check("R-TABLE", "scalar pass-through type lists of diff.markReplaced and merge.mergeReplaced are equal", 2, func(o *an.O) {
		// Decided on the SSA form (helpers inlined), not on the shape of a type switch: for every
		// type T either function tests its argument against, the control flow is explored with
		// "the argument is a T" fixed; T is passed through when a return of the argument itself is
		// reached. With no test succeeding (any other type) nothing may be passed through.
		f1 := c.NeedFunc(dp, "markReplaced")
		f2 := c.NeedFunc(mp, "mergeReplaced")
		a, otherA := passThroughTypes(f1)
		b, otherB := passThroughTypes(f2)
		o.SitePos(p.Pos(f1.Pos()))
		o.SitePos(p.Pos(f2.Pos()))
		if len(a) == 0 || len(b) == 0 {
			o.Fail(p.Pos(f1.Pos()), "markReplaced / mergeReplaced pass no scalar type through (encoder: %d, decoder: %d types)", len(a), len(b))
			return
		}
		onlyA, onlyB := an.SetDiff(a, b)
		if len(onlyA) > 0 {
			o.Fail(p.Pos(f1.Pos()), "types passed through raw by the encoder but unwrapped as 1-element arrays by the decoder: %v", onlyA)
		}
		if len(onlyB) > 0 {
			o.Fail(p.Pos(f2.Pos()), "types the decoder passes through but the encoder wraps: %v", onlyB)
		}
		for _, t := range a {
			if strings.HasPrefix(t, "[]") || strings.HasPrefix(t, "map[") {
				o.Fail(p.Pos(f1.Pos()), "markReplaced passes %s through raw: deltas of that shape collide with the removed/replaced/recursive encodings", t)
			}
		}
		if otherA || otherB {
			o.Fail(p.Pos(f1.Pos()), "markReplaced / mergeReplaced pass values of unlisted types through raw (encoder: %v, decoder: %v): everything that is not a listed scalar must be wrapped / unwrapped", otherA, otherB)
		}
	})

	c.Check("R-CONST", "removal marker and reorder key agree between diff and merge", 4, func(o *an.O) {
		// markRemoved returns emptyArray, which is an empty []interface{} literal
		if fn := p.Func(dp, "markRemoved"); fn != nil {
			for _, e := range an.Exits(fn, false) {
				o.Site(e)
				v := an.StripConv(e.(*ssa.Return).Results[0])
				if !emptyIfaceSliceValue(p, dp, v) {
					o.FailAt(e, "markRemoved returns %s, not an empty []interface{}", an.Expr(v))
				}
			}
		} else {
			// no helper: diffMap must write the empty-array marker itself for removed keys
			dm := c.NeedFunc(dp, "diffMap")
			found := false
			an.Instrs(dm, func(i ssa.Instruction) {
				if mu, ok := i.(*ssa.MapUpdate); ok && emptyIfaceSliceValue(p, dp, an.StripConv(mu.Value)) {
					found = true
					o.Site(i)
				}
			})
			if !found {
				o.Fail(p.Pos(dm.Pos()), "diffMap never writes the removal marker (an empty []interface{}) - removed fields would stay on the client")
			}
		}
		// only markRemoved's global is never appended to / written
		for _, f := range p.ModuleFuncs(func(rel string) bool { return rel == dp }) {
			an.Instrs(f, func(i ssa.Instruction) {
				if st, ok := i.(*ssa.Store); ok {
					if g, ok := st.Addr.(*ssa.Global); ok && g.Name() == "emptyArray" && f.Name() != "init" {
						o.FailAt(i, "emptyArray reassigned in %s", f.Name())
					}
				}
			})
		}
		ir := c.NeedFunc(mp, "isRemoved")
		okTest := false
		for _, e := range an.Exits(ir, false) {
			o.Site(e)
			s := an.Expr(e.(*ssa.Return).Results[0])
			ta := ir.Params[0].Name() + ".([]interface{})"
			lenZero := "(len(" + ta + "#0) == 0)"
			switch {
			case s == "("+ta+"#1 && "+lenZero+")":
				okTest = true
			case s == "false":
			case s == lenZero && an.HasGuard(e.Block(), ta+"#1"):
				okTest = true
			case s == "true" && an.HasGuard(e.Block(), ta+"#1") && an.HasGuard(e.Block(), lenZero):
				okTest = true
			default:
				o.FailAt(e, "merge.isRemoved is %s, not `delta is a []interface{} of length 0` - the exact shape diff.markRemoved produces", s)
			}
		}
		if !okTest {
			o.Fail(p.Pos(ir.Pos()), "merge.isRemoved is not `[]interface{} of length 0`")
		}
		// reorder key
		key := reorderKeyOf(p)
		if key == "" {
			o.Fail("merge/merge.go", "merge.indicesReorderedKey not found")
			return
		}
		da := c.NeedFunc(dp, "diffArray")
		found := false
		an.Instrs(da, func(i ssa.Instruction) {
			if mu, ok := i.(*ssa.MapUpdate); ok {
				if call, ok := an.StripConv(mu.Value).(*ssa.Call); ok && an.Mod(dp, "", "compressReorderIndices").Matches(call.Common()) {
					o.Site(i)
					k, _ := an.ConstString(mu.Key)
					if k == key {
						found = true
					} else {
						o.FailAt(i, "diffArray writes the reordering under %q but merge reads %q", k, key)
					}
				}
			}
		})
		if !found {
			o.Fail(p.Pos(da.Pos()), "diffArray never writes the reordering under merge's key %q", key)
		}
		ma := c.NeedFunc(mp, "mergeArray")
		okRead := false
		an.Instrs(ma, func(i ssa.Instruction) {
			if lk, ok := i.(*ssa.Lookup); ok {
				if k, ok := an.ConstString(lk.Index); ok && k == key {
					okRead = true
					o.Site(i)
				}
			}
		})
		if !okRead {
			o.Fail(p.Pos(ma.Pos()), "mergeArray does not read the reordering under indicesReorderedKey")
		}
	})

	c.Check("R-PROV", "run tuple kinds agree: encoder [first, count] vs the decoder's use of the two components", 2, func(o *an.O) {
		enc := c.NeedFunc(dp, "compressReorderIndices")
		encKind := ""
		for _, l := range an.StructLits(enc, "?") {
			_ = l
		}
		an.Instrs(enc, func(i ssa.Instruction) {
			al, ok := i.(*ssa.Alloc)
			if !ok {
				return
			}
			at, ok := al.Type().(*types.Pointer).Elem().(*types.Array)
			if !ok || at.Len() != 2 {
				return
			}
			o.Site(i)
			comp := map[int64]ssa.Value{}
			for _, r := range *al.Referrers() {
				if ia, ok := r.(*ssa.IndexAddr); ok {
					k, _ := an.ConstInt(ia.Index)
					for _, u := range *ia.Referrers() {
						if st, ok := u.(*ssa.Store); ok {
							comp[k] = st.Val
						}
					}
				}
			}
			if comp[0] == nil || comp[1] == nil {
				o.FailAt(i, "cannot find both components of the run tuple")
				return
			}
			// component 0: an element of indices (the first old index of the run)
			if ld, ok := comp[0].(*ssa.UnOp); !ok || !isIndexOf(ld.X, enc.Params[0]) {
				o.FailAt(i, "run tuple component 0 is %s, not an element of indices", an.Expr(comp[0]))
			}
			encKind = lengthKind(comp[1], enc.Params[0])
			if encKind == "" {
				o.FailAt(i, "cannot classify run tuple component 1 (%s)", an.Expr(comp[1]))
			}
		})
		dec := c.NeedFunc(mp, "uncompressIndices")
		decKind := ""
		var decSite ssa.Instruction
		for _, ci := range an.CondIfs(dec, func(v ssa.Value) bool {
			bo, ok := v.(*ssa.BinOp)
			return ok && (bo.Op == token.LSS || bo.Op == token.LEQ)
		}) {
			bo := ci.If.Cond.(*ssa.BinOp)
			phi, ok := bo.X.(*ssa.Phi)
			if !ok || tupleComponent(bo.Y) != 1 {
				continue
			}
			decSite = ci.If
			o.Site(ci.If)
			var init ssa.Value
			for k, e := range phi.Edges {
				if !phi.Block().Preds[k].Dominates(phi.Block()) || phi.Block().Preds[k] == phi.Block() {
					continue
				}
				if b2, ok := e.(*ssa.BinOp); ok && b2.X == ssa.Value(phi) {
					continue
				}
				init = e
			}
			switch {
			case init == nil:
			case isConstIntVal(init, 0) && bo.Op == token.LSS:
				decKind = "count"
				// appended value = start + i
				okApp := false
				an.Instrs(dec, func(i ssa.Instruction) {
					if b3, ok := i.(*ssa.BinOp); ok && b3.Op == token.ADD {
						if (tupleComponent(b3.X) == 0 && b3.Y == ssa.Value(phi)) || (tupleComponent(b3.Y) == 0 && b3.X == ssa.Value(phi)) {
							okApp = true
						}
					}
				})
				if !okApp {
					o.FailAt(ci.If, "the decoder counts 0..count but does not append first+i")
				}
			case tupleComponent(init) == 0 && bo.Op == token.LEQ:
				decKind = "last"
			case tupleComponent(init) == 0 && bo.Op == token.LSS:
				decKind = "end"
			case isConstIntVal(init, 0) && bo.Op == token.LEQ:
				decKind = "count+1"
			}
		}
		if decSite == nil {
			o.Fail(p.Pos(dec.Pos()), "cannot find the loop that expands a run in uncompressIndices")
			return
		}
		if encKind != "" && decKind != encKind {
			o.FailAt(decSite, "the encoder writes a run as [first, %s] but the decoder reads it as [first, %s]: Merge(old, Diff(old,new)) reproduces the wrong array whenever a run does not start at 0", encKind, decKindName(decKind))
		}
		o.Note("encoder kind=%s decoder kind=%s", encKind, decKind)
	})

	c.Check("R-SHAPE", "compressReorderIndices always returns a non-nil list (a nil slice is serialised as JSON null, which both decoders read as 'no reordering')", 1, func(o *an.O) {
		fn := c.NeedFunc(dp, "compressReorderIndices")
		for _, e := range an.Exits(fn, false) {
			o.Site(e)
			v := e.(*ssa.Return).Results[0]
			seen := map[ssa.Value]bool{}
			var nilable func(x ssa.Value) bool
			nilable = func(x ssa.Value) bool {
				if seen[x] {
					return false
				}
				seen[x] = true
				switch y := x.(type) {
				case *ssa.Const:
					return y.IsNil()
				case *ssa.Phi:
					for _, ed := range y.Edges {
						if nilable(ed) {
							return true
						}
					}
				case *ssa.Call:
					if b, ok := y.Call.Value.(*ssa.Builtin); ok && b.Name() == "append" {
						return false // append of at least one element is non-nil
					}
					return true
				case *ssa.Slice, *ssa.MakeSlice:
					return false
				default:
					return true
				}
				return false
			}
			if nilable(v) {
				o.FailAt(e, "compressReorderIndices can return a nil slice (when nothing is appended, e.g. a non-empty array becomes empty): the delta then carries \"$\": null, Go's merge rejects it and the JS client keeps every old element")
			}
		}
	})

	c.Check("R-PROV", "index provenance: old[j] with j from computeReorderIndices(old,new) tested != -1; mergeArray reads prev[index] under index != -1", 4, func(o *an.O) {
		da := c.NeedFunc(dp, "diffArray")
		oldP := da.Params[0]
		n := 0
		an.Instrs(da, func(i ssa.Instruction) {
			ia, ok := i.(*ssa.IndexAddr)
			if !ok || ia.X != ssa.Value(oldP) {
				return
			}
			n++
			o.Site(i)
			// index = indices[i], indices = computeReorderIndices(old, new)
			ld, ok := ia.Index.(*ssa.UnOp)
			okIdx := false
			if ok {
				if src, ok := ld.X.(*ssa.IndexAddr); ok {
					if call, ok := src.X.(*ssa.Call); ok && an.Mod(dp, "", "computeReorderIndices").Matches(call.Common()) {
						if call.Call.Args[0] == ssa.Value(oldP) {
							okIdx = true
						} else {
							o.FailAt(call, "computeReorderIndices is called with (%s, %s); the first argument must be the old array that is indexed", an.Expr(call.Call.Args[0]), an.Expr(call.Call.Args[1]))
						}
						if !an.IsRangeIndex(src.Index) {
							o.FailAt(i, "the reorder index used for element i is not indices[i] of the loop over new")
						}
					}
				}
			}
			if !okIdx {
				o.FailAt(i, "old is indexed by %s, which is not an entry of computeReorderIndices(old, new)", an.Expr(ia.Index))
			}
			okG := false
			for _, g := range an.GuardStrings(i.Block()) {
				if strings.HasSuffix(g, " != -1)") {
					okG = true
				}
			}
			if !okG {
				o.FailAt(i, "old[j] is read without testing j != -1")
			}
		})
		if n == 0 {
			o.Fail(p.Pos(da.Pos()), "diffArray never reads old[j]")
		}
		// computeReorderIndices: oldIndices filled from the first parameter, indices sized by the second
		cr := c.NeedFunc(dp, "computeReorderIndices")
		okFill, okSize := false, false
		an.Instrs(cr, func(i ssa.Instruction) {
			switch x := i.(type) {
			case *ssa.MakeSlice:
				if call, ok := x.Len.(*ssa.Call); ok && len(call.Call.Args) == 1 && call.Call.Args[0] == ssa.Value(cr.Params[1]) {
					okSize = true
					o.Site(i)
				}
			case *ssa.MapUpdate:
				// oldIndices[key] = append(oldIndices[key], i) inside range over old
				if h := an.LoopHeaderOf(i); h != nil && strings.Contains(an.Expr(h.Instrs[len(h.Instrs)-1].(*ssa.If).Cond), "len("+cr.Params[0].Name()+")") {
					okFill = true
					o.Site(i)
				}
			}
		})
		if !okFill || !okSize {
			o.Fail(p.Pos(cr.Pos()), "computeReorderIndices must index positions of its first argument and produce one entry per element of its second (fill:%v size:%v)", okFill, okSize)
		}
		ma := c.NeedFunc(mp, "mergeArray")
		okPrev := false
		an.Instrs(ma, func(i ssa.Instruction) {
			ia, ok := i.(*ssa.IndexAddr)
			if !ok || ia.X != ssa.Value(ma.Params[0]) || an.IsRangeIndex(ia.Index) {
				return
			}
			o.Site(i)
			for _, g := range an.GuardStrings(i.Block()) {
				if strings.HasSuffix(g, " != -1)") {
					okPrev = true
				}
			}
			if !okPrev {
				o.FailAt(i, "mergeArray reads prev[index] without testing index != -1")
			}
		})
		if !okPrev {
			o.Fail(p.Pos(ma.Pos()), "mergeArray does not place prev[index] for reordered elements")
		}
	})

	c.Check("R-FRESH", "package diff never writes through its arguments: every map/slice written was allocated in the same function", 6, func(o *an.O) {
		for _, fn := range p.ModuleFuncs(func(rel string) bool { return rel == dp }) {
			an.Instrs(fn, func(i ssa.Instruction) {
				switch x := i.(type) {
				case *ssa.MapUpdate:
					o.Site(i)
					if !freshValue(x.Map) {
						o.FailAt(i, "%s writes into map %s, which is not allocated in this function: Diff would modify its arguments", fn.Name(), an.Expr(x.Map))
					}
				case *ssa.Store:
					if ia, ok := x.Addr.(*ssa.IndexAddr); ok {
						o.Site(i)
						if !freshValue(ia.X) {
							o.FailAt(i, "%s writes element %s of a slice it did not allocate: Diff would modify its arguments", fn.Name(), an.Expr(ia))
						}
					}
				case *ssa.Call:
					if b, ok := x.Call.Value.(*ssa.Builtin); ok && (b.Name() == "delete" || b.Name() == "copy" || b.Name() == "clear") {
						o.Site(i)
						if !freshValue(x.Call.Args[0]) {
							o.FailAt(i, "%s applies %s to %s, which it did not allocate", fn.Name(), b.Name(), an.Expr(x.Call.Args[0]))
						}
					}
				}
			})
		}
	})

	c.Check("R-GUARD", "markReplaced wraps StripKey(value) in a 1-element array; diffMap/diffArray fall back to markReplaced on a kind change", 3, func(o *an.O) {
		fn := c.NeedFunc(dp, "markReplaced")
		wrapped := false
		an.Instrs(fn, func(i ssa.Instruction) {
			al, ok := i.(*ssa.Alloc)
			if !ok {
				return
			}
			at, ok := al.Type().(*types.Pointer).Elem().(*types.Array)
			if !ok || at.Len() != 1 {
				return
			}
			o.Site(i)
			for _, r := range *al.Referrers() {
				if ia, ok := r.(*ssa.IndexAddr); ok {
					for _, u := range *ia.Referrers() {
						if st, ok := u.(*ssa.Store); ok {
							if call, ok := an.StripConv(st.Val).(*ssa.Call); ok && an.Mod(dp, "", "StripKey").Matches(call.Common()) && call.Call.Args[0] == ssa.Value(fn.Params[0]) {
								wrapped = true
							} else {
								o.FailAt(st, "the wrapped value is %s, not StripKey(i): internal __key fields would reach the client", an.Expr(st.Val))
							}
						}
					}
				}
			}
		})
		if !wrapped {
			o.Fail(p.Pos(fn.Pos()), "markReplaced does not wrap complex values in a 1-element array")
		}
		for _, nm := range []string{"diffMap", "diffArray"} {
			f := c.NeedFunc(dp, nm)
			ok := false
			for _, e := range an.Exits(f, false) {
				if call, isCall := an.StripConv(e.(*ssa.Return).Results[0]).(*ssa.Call); isCall && an.Mod(dp, "", "markReplaced").Matches(call.Common()) && call.Call.Args[0] == ssa.Value(f.Params[1]) {
					for _, g := range an.GuardStrings(e.Block()) {
						if strings.HasPrefix(g, "!") && strings.HasSuffix(g, "#1") {
							ok = true
							o.Site(e)
						}
					}
				}
			}
			if !ok {
				o.Fail(p.Pos(f.Pos()), "%s does not replace the whole value when the new value has a different kind", nm)
			}
		}
	})

	c.Check("R-TABLE", "dispatch symmetry: every old-kind for which Diff emits a map delta has a decoding branch in Merge", 2, func(o *an.O) {
		fd, pp := p.FuncDecl(dp, "Diff")
		md, mpp := p.FuncDecl(mp, "Merge")
		an.Need(fd != nil && md != nil, "Diff / Merge")
		ds, ms := an.Switches(fd, pp), an.Switches(md, mpp)
		an.Need(len(ds) >= 1 && len(ms) >= 1, "type switches in Diff / Merge")
		o.SitePos(p.Pos(ds[0].Node.Pos()))
		o.SitePos(p.Pos(ms[0].Node.Pos()))
		var enc []string
		for _, cl := range ds[0].Clauses {
			for _, callee := range an.CallsInStmts(cl.Body, pp) {
				if callee == "diffMap" || callee == "diffArray" {
					enc = append(enc, cl.Types...)
				}
			}
		}
		dec := ms[0].AllCaseTypes()
		onlyEnc, onlyDec := an.SetDiff(enc, dec)
		if len(onlyEnc) > 0 {
			o.Fail(p.Pos(ms[0].Node.Pos()), "Diff emits recursive (map) deltas for old values of kind %v, which Merge has no branch for", onlyEnc)
		}
		if len(onlyDec) > 0 {
			o.Fail(p.Pos(ds[0].Node.Pos()), "Merge decodes map deltas against %v, which Diff never encodes recursively", onlyDec)
		}
		// Merge sends non-map deltas to mergeReplaced
		mf := c.NeedFunc(mp, "Merge")
		okRep := false
		for _, call := range an.Calls(mf, an.Mod(mp, "", "mergeReplaced")) {
			for _, g := range an.GuardStrings(call.Block()) {
				if strings.HasPrefix(g, "!") && strings.Contains(g, ".(map[string]interface{})#1") {
					okRep = true
				}
			}
		}
		if !okRep {
			o.Fail(p.Pos(mf.Pos()), "Merge does not treat a non-map delta as a replacement")
		}
	})
	_ = ast.IsExported
}

func decKindName(k string) string {
	switch k {
	case "last":
		return "last (inclusive)"
	case "end":
		return "end (exclusive)"
	case "":
		return "?"
	}
	return k
}

func isConstIntVal(v ssa.Value, n int64) bool {
	k, ok := an.ConstInt(v)
	return ok && k == n
}

// reorderKeyOf returns the value of merge.indicesReorderedKey.
func reorderKeyOf(p *an.Prog) string {
	sp := p.Pkg("merge")
	if sp == nil {
		return ""
	}
	c, ok := sp.Pkg.Scope().Lookup("indicesReorderedKey").(*types.Const)
	if !ok || c.Val().Kind() != constant.String {
		return ""
	}
	return constant.StringVal(c.Val())
}

// globalIsEmptyIfaceSlice checks that a package-level variable is initialised
// with an empty []interface{} composite literal.
func globalIsEmptyIfaceSlice(p *an.Prog, rel, name string) bool {
	pp := p.PkgSyntax(rel)
	if pp == nil {
		return false
	}
	for _, f := range pp.Syntax {
		for _, d := range f.Decls {
			gd, ok := d.(*ast.GenDecl)
			if !ok || gd.Tok != token.VAR {
				continue
			}
			for _, sp := range gd.Specs {
				vs := sp.(*ast.ValueSpec)
				for k, id := range vs.Names {
					if id.Name != name || k >= len(vs.Values) {
						continue
					}
					cl, ok := vs.Values[k].(*ast.CompositeLit)
					if !ok || len(cl.Elts) != 0 {
						return false
					}
					tv := pp.TypesInfo.Types[cl]
					return tv.Type != nil && tv.Type.String() == "[]interface{}"
				}
			}
		}
	}
	return false
}

// isIndexOf: addr is &base[...]
func isIndexOf(addr ssa.Value, base ssa.Value) bool {
	ia, ok := addr.(*ssa.IndexAddr)
	return ok && ia.X == base
}

// positionLike: v is used as an index into base or compared with len(base).
func positionLike(v ssa.Value, base ssa.Value) bool {
	refs := v.Referrers()
	if refs == nil {
		return false
	}
	for _, r := range *refs {
		switch x := r.(type) {
		case *ssa.IndexAddr:
			if x.X == base && x.Index == v {
				return true
			}
		case *ssa.BinOp:
			other := x.Y
			if other == v {
				other = x.X
			}
			if call, ok := other.(*ssa.Call); ok {
				if b, ok := call.Call.Value.(*ssa.Builtin); ok && b.Name() == "len" && call.Call.Args[0] == base {
					return true
				}
			}
		}
	}
	return false
}

// lengthKind classifies the second component of the run tuple written by the encoder.
func lengthKind(v ssa.Value, base ssa.Value) string {
	bo, ok := v.(*ssa.BinOp)
	if !ok {
		if positionLike(v, base) {
			return "end"
		}
		return ""
	}
	if bo.Op == token.SUB && positionLike(bo.X, base) && positionLike(bo.Y, base) {
		return "count"
	}
	if bo.Op == token.SUB && positionLike(bo.X, base) && isConstIntVal(bo.Y, 1) {
		return "last"
	}
	if bo.Op == token.ADD && isConstIntVal(bo.Y, 1) {
		if inner, ok := bo.X.(*ssa.BinOp); ok && inner.Op == token.SUB && positionLike(inner.X, base) && positionLike(inner.Y, base) {
			return "count+1"
		}
	}
	return ""
}

// tupleComponent: v derives (through conversions, type assertions, loads) from
// element k (constant index) of a slice; returns k or -1.
func tupleComponent(v ssa.Value) int {
	for d := 0; d < 8 && v != nil; d++ {
		switch x := v.(type) {
		case *ssa.Convert:
			v = x.X
		case *ssa.Extract:
			v = x.Tuple
		case *ssa.TypeAssert:
			v = x.X
		case *ssa.ChangeType:
			v = x.X
		case *ssa.UnOp:
			if ia, ok := x.X.(*ssa.IndexAddr); ok {
				if k, ok := an.ConstInt(ia.Index); ok {
					return int(k)
				}
				return -1
			}
			v = x.X
		case *ssa.Phi:
			// typeswitch / comma-ok merges: all edges must agree
			k := -2
			for _, e := range x.Edges {
				if _, isConst := e.(*ssa.Const); isConst {
					continue // the zero value an inlined helper returns next to an error
				}
				if e == ssa.Value(x) || onlyConstants(e, 0) {
					continue
				}
				kk := tupleComponent(e)
				if k == -2 {
					k = kk
				} else if k != kk {
					return -1
				}
			}
			if k == -2 {
				return -1
			}
			return k
		default:
			return -1
		}
	}
	return -1
}

// onlyConstants: v is a constant or a phi of such values.
func onlyConstants(v ssa.Value, d int) bool {
	if d > 4 {
		return false
	}
	switch x := v.(type) {
	case *ssa.Const:
		return true
	case *ssa.Phi:
		for _, e := range x.Edges {
			if e != ssa.Value(x) && !onlyConstants(e, d+1) {
				return false
			}
		}
		return true
	}
	return false
}

// freshValue: the map/slice was allocated in the current function.
func freshValue(v ssa.Value) bool {
	seen := map[ssa.Value]bool{}
	var walk func(ssa.Value) bool
	walk = func(x ssa.Value) bool {
		if seen[x] {
			return true
		}
		seen[x] = true
		switch y := x.(type) {
		case *ssa.MakeMap, *ssa.MakeSlice, *ssa.Alloc:
			return true
		case *ssa.Slice:
			return walk(y.X)
		case *ssa.Phi:
			for _, e := range y.Edges {
				if !walk(e) {
					return false
				}
			}
			return true
		case *ssa.Call:
			if b, ok := y.Call.Value.(*ssa.Builtin); ok && b.Name() == "append" {
				return walk(y.Call.Args[0])
			}
			return false
		case *ssa.Const:
			return y.IsNil()
		case *ssa.UnOp:
			// load of a local variable holding a fresh value
			if al, ok := y.X.(*ssa.Alloc); ok {
				for _, r := range *al.Referrers() {
					if st, ok := r.(*ssa.Store); ok && st.Addr == ssa.Value(al) && !walk(st.Val) {
						return false
					}
				}
				return true
			}
			return false
		}
		return false
	}
	return walk(v)
}

// emptyIfaceSliceValue: v is an empty, non-nil []interface{}: the package-level
// marker (a global initialised with an empty literal) or an empty literal.
func emptyIfaceSliceValue(p *an.Prog, pkg string, v ssa.Value) bool {
	if ld, ok := v.(*ssa.UnOp); ok {
		if g, ok := ld.X.(*ssa.Global); ok {
			return globalIsEmptyIfaceSlice(p, pkg, g.Name())
		}
	}
	if sl, ok := v.(*ssa.Slice); ok {
		if al, ok := sl.X.(*ssa.Alloc); ok {
			if at, ok := al.Type().(*types.Pointer).Elem().(*types.Array); ok && at.Len() == 0 {
				return true
			}
		}
	}
	return false
}

// passThroughTypes: the types T for which fn, given an argument of dynamic type T,
// can return that argument itself; other reports whether it can do so when none of
// its type tests succeeds.
func passThroughTypes(fn *ssa.Function) (types []string, other bool) {
	param := ssa.Value(fn.Params[0])
	var asserts []*ssa.TypeAssert
	an.Instrs(fn, func(i ssa.Instruction) {
		if ta, ok := i.(*ssa.TypeAssert); ok && ta.X == param && ta.CommaOk {
			asserts = append(asserts, ta)
		}
	})
	isArg := func(v ssa.Value) bool {
		for depth := 0; depth < 4; depth++ {
			switch x := v.(type) {
			case *ssa.ChangeInterface:
				v = x.X
				continue
			case *ssa.MakeInterface:
				if ex, ok := x.X.(*ssa.Extract); ok && ex.Index == 0 {
					if ta, ok := ex.Tuple.(*ssa.TypeAssert); ok && ta.X == param {
						// the typed value of a single-type case, boxed again - but not a slice taken apart
						return true
					}
				}
				return false
			}
			break
		}
		return v == param
	}
	run := func(t string) bool {
		sim := &an.BoolSim{Fn: fn, Atom: func(v ssa.Value) (bool, bool) {
			if ex, ok := v.(*ssa.Extract); ok && ex.Index == 1 {
				if ta, ok := ex.Tuple.(*ssa.TypeAssert); ok && ta.X == param {
					return ta.AssertedType.String() == t, true
				}
			}
			return false, false
		}}
		sim.Run()
		for _, r := range sim.Returns {
			if len(r.Ret.Results) > 0 && isArg(an.ResultAt(r.Ret, 0)) {
				return true
			}
		}
		return false
	}
	seen := map[string]bool{}
	for _, ta := range asserts {
		t := ta.AssertedType.String()
		if seen[t] {
			continue
		}
		seen[t] = true
		if run(t) {
			types = append(types, t)
		}
	}
	sort.Strings(types)
	return types, run("\x00no such type")
}
