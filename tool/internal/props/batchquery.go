package props

import (
	"go/constant"
	"go/token"
	"go/types"
	"sort"
	"strings"

	"golang.org/x/tools/go/ssa"

	"thunderlint/internal/an"
)

// ruleBatchClauseTable (C10): the WHERE-clause renderer of makeBatchQuery is a
// small decision procedure over (is this value nil, how many non-nil values
// were written so far, was a nil value seen). It is evaluated for every
// assignment of those conditions (BoolSim) and the set of clause fragments /
// SQL arguments each assignment emits is compared with the table below; the
// source shape (flags, early continues, nested ifs, helper functions) is free.
//
//	one-column group, per tuple:   nil           -> nothing written, "nil seen" set, counter kept
//	                               non-nil, n==0 -> column, "IN (", "?", tuple args; counter+1
//	                               non-nil, n>0  -> ",", "?", tuple args; counter+1
//	one-column group, after loop:  n==0, no nil  -> nothing
//	                               n>0,  no nil  -> ")"
//	                               n==0, nil     -> column, "IS ?" + nil arg  (or "IS NULL")
//	                               n>0,  nil     -> ")", "OR", column, "IS ?" + nil arg (or "IS NULL")
//	multi-column group, per column: nil -> column, "IS ?" ; non-nil -> column, "=?"   ("AND" free)
func ruleBatchClauseTable(c *an.Ctx, o *an.O) {
	p := c.P
	fn := c.NeedFunc(sg, "makeBatchQuery")
	// --- roles -----------------------------------------------------------
	// argument list: what flows into the second result
	argFlow := map[ssa.Value]bool{}
	var back func(v ssa.Value)
	back = func(v ssa.Value) {
		if v == nil || argFlow[v] {
			return
		}
		argFlow[v] = true
		switch x := v.(type) {
		case *ssa.Phi:
			for _, e := range x.Edges {
				back(e)
			}
		case *ssa.Call:
			if b, ok := x.Call.Value.(*ssa.Builtin); ok && b.Name() == "append" {
				back(x.Call.Args[0])
			}
		}
	}
	for _, e := range an.Exits(fn, false) {
		if ret, ok := e.(*ssa.Return); ok && len(ret.Results) == 2 {
			back(ret.Results[1])
		}
	}
	// the loop that keeps a "nil seen" flag and a counter of written values
	var hdr *ssa.BasicBlock
	var seenNil, count *ssa.Phi
	for _, b := range fn.Blocks {
		var flag, cnt *ssa.Phi
		for _, in := range b.Instrs {
			ph, ok := in.(*ssa.Phi)
			if !ok {
				break
			}
			if bt, ok := ph.Type().Underlying().(*types.Basic); ok && bt.Kind() == types.Bool {
				hasF, hasT := false, false
				for _, e := range ph.Edges {
					if k, ok := e.(*ssa.Const); ok && k.Value != nil && k.Value.Kind() == constant.Bool {
						if constant.BoolVal(k.Value) {
							hasT = true
						} else {
							hasF = true
						}
					}
				}
				if hasF && hasT {
					flag = ph
				}
			} else if ok && bt.Info()&types.IsInteger != 0 {
				zero, inc := false, false
				for _, e := range ph.Edges {
					if n, ok := an.ConstInt(e); ok && n == 0 {
						zero = true
					}
					if bo, ok := e.(*ssa.BinOp); ok && bo.Op == token.ADD && bo.X == ssa.Value(ph) {
						inc = true
					}
				}
				if zero && inc {
					cnt = ph
				}
			}
		}
		if flag != nil && cnt != nil {
			hdr, seenNil, count = b, flag, cnt
		}
	}
	if hdr == nil {
		o.Fail(p.Pos(fn.Pos()), "makeBatchQuery: cannot find the one-column loop that keeps a nil-seen flag and a counter of written values (a nil filter value must be rendered as `col IS ?`, never inside IN (...))")
		return
	}
	o.Site(seenNil)
	inLoop := func(b *ssa.BasicBlock, h *ssa.BasicBlock) bool {
		if b == h {
			return true
		}
		if !h.Dominates(b) {
			return false
		}
		// b is in h's natural loop iff b reaches h
		seen := map[*ssa.BasicBlock]bool{}
		work := []*ssa.BasicBlock{b}
		for len(work) > 0 {
			x := work[len(work)-1]
			work = work[:len(work)-1]
			if seen[x] {
				continue
			}
			seen[x] = true
			for _, s := range x.Succs {
				if s == h {
					return true
				}
				if h.Dominates(s) {
					work = append(work, s)
				}
			}
		}
		return false
	}
	// outer loop (over groups) = the loop enclosing hdr
	outer := an.LoopHeaderOf(hdr.Preds[0].Instrs[len(hdr.Preds[0].Instrs)-1])
	isPost := func(b *ssa.BasicBlock) bool { // after the one-column loop, same group
		if !hdr.Dominates(b) || inLoop(b, hdr) {
			return false
		}
		return outer == nil || b != outer
	}
	nilCmp := func(v ssa.Value) (ssa.Value, bool, bool) {
		bo, ok := v.(*ssa.BinOp)
		if !ok || (bo.Op != token.EQL && bo.Op != token.NEQ) {
			return nil, false, false
		}
		if isConstNil(bo.Y) {
			return bo.X, bo.Op == token.EQL, true
		}
		if isConstNil(bo.X) {
			return bo.Y, bo.Op == token.EQL, true
		}
		return nil, false, false
	}
	isIface := func(v ssa.Value) bool { _, ok := v.Type().Underlying().(*types.Interface); return ok }
	cmpCount := func(v ssa.Value, n int64) (bool, bool) {
		bo, ok := v.(*ssa.BinOp)
		if !ok {
			return false, false
		}
		var k int64
		var flip bool
		if bo.X == ssa.Value(count) {
			kk, ok := an.ConstInt(bo.Y)
			if !ok {
				return false, false
			}
			k = kk
		} else if bo.Y == ssa.Value(count) {
			kk, ok := an.ConstInt(bo.X)
			if !ok {
				return false, false
			}
			k, flip = kk, true
		} else {
			return false, false
		}
		a, b := n, k
		if flip {
			a, b = k, n
		}
		switch bo.Op {
		case token.GTR:
			return a > b, true
		case token.GEQ:
			return a >= b, true
		case token.LSS:
			return a < b, true
		case token.LEQ:
			return a <= b, true
		case token.EQL:
			return a == b, true
		case token.NEQ:
			return a != b, true
		}
		return false, false
	}
	// emission events of a block
	events := func(b *ssa.BasicBlock, unknown *[]ssa.Instruction) []string {
		var out []string
		for _, in := range b.Instrs {
			call, ok := in.(*ssa.Call)
			if !ok {
				continue
			}
			if bi, ok := call.Call.Value.(*ssa.Builtin); ok && bi.Name() == "append" && argFlow[call] {
				if isSingleElementSlice(call.Call.Args[1]) {
					if el := singleElem(call.Call.Args[1]); el != nil && isConstNil(an.StripConv(el)) {
						out = append(out, "arg:nil")
						continue
					}
					out = append(out, "arg:one")
					continue
				}
				out = append(out, "arg:tuple")
				continue
			}
			f := an.CalleeFunc(&call.Call)
			if f == nil {
				continue
			}
			recvBuf := false
			if sig, ok := f.Type().(*types.Signature); ok && sig.Recv() != nil {
				if n := an.NamedOf(sig.Recv().Type()); n != nil && (n.Obj().Name() == "Buffer" || n.Obj().Name() == "Builder") {
					recvBuf = true
				}
			}
			if !recvBuf {
				if f.Pkg() != nil && f.Pkg().Path() == "fmt" && strings.HasPrefix(f.Name(), "Fprint") {
					*unknown = append(*unknown, in)
				}
				continue
			}
			switch f.Name() {
			case "WriteString":
				if lit, ok := an.ConstString(call.Call.Args[1]); ok {
					out = append(out, strings.ToUpper(strings.Join(strings.Fields(lit), " ")))
				} else {
					out = append(out, "<col>")
				}
			case "WriteByte", "WriteRune":
				if n, ok := an.ConstInt(call.Call.Args[1]); ok {
					out = append(out, strings.TrimSpace(string(rune(n))))
				} else {
					*unknown = append(*unknown, in)
				}
			case "String", "Len", "Grow", "Reset", "Bytes":
			default:
				*unknown = append(*unknown, in)
			}
		}
		return out
	}
	setOf := func(reached map[*ssa.BasicBlock]bool, want func(b *ssa.BasicBlock) bool) (string, []ssa.Instruction) {
		set := map[string]bool{}
		var unk []ssa.Instruction
		for b := range reached {
			if !want(b) {
				continue
			}
			for _, e := range events(b, &unk) {
				if e != "" {
					set[e] = true
				}
			}
		}
		var ks []string
		for k := range set {
			ks = append(ks, k)
		}
		sort.Strings(ks)
		return strings.Join(ks, " | "), unk
	}
	norm := func(ss ...string) string { sort.Strings(ss); return strings.Join(ss, " | ") }
	nAtoms := 0
	// --- after the loop ----------------------------------------------------
	for _, n := range []int64{0, 1, 2} {
		for _, sawNil := range []bool{false, true} {
			sim := &an.BoolSim{Fn: fn, Atom: func(v ssa.Value) (bool, bool) {
				if v == ssa.Value(seenNil) {
					nAtoms++
					return sawNil, true
				}
				if in, ok := v.(ssa.Instruction); ok && isPost(in.Block()) {
					if val, ok := cmpCount(v, n); ok {
						nAtoms++
						return val, true
					}
				}
				return false, false
			}}
			got, unk := setOf(sim.Run(), isPost)
			if len(unk) > 0 {
				o.FailAt(unk[0], "makeBatchQuery writes to the clause in a way the renderer table does not model (%s)", an.Expr(unk[0].(ssa.Value)))
				return
			}
			var want []string
			if n > 0 {
				want = append(want, ")")
			}
			alt := ""
			if sawNil {
				if n > 0 {
					want = append(want, "OR")
				}
				alt = norm(append(append([]string{}, want...), "<col>", "IS NULL")...)
				want = append(want, "<col>", "IS ?", "arg:nil")
			}
			if w := norm(want...); got != w && (alt == "" || got != alt) {
				o.FailAt(seenNil, "makeBatchQuery, one-column group after its tuples with %d non-nil value(s) written and nil value seen=%v: emits {%s}, expected {%s} - the batched statement is malformed or a filter on NULL loses / gains rows compared with the unbatched query", n, sawNil, got, w)
			}
		}
	}
	// --- per tuple of the one-column loop -----------------------------------
	inOne := func(b *ssa.BasicBlock) bool { return b != hdr && inLoop(b, hdr) }
	for _, isNil := range []bool{true, false} {
		for _, n := range []int64{0, 1, 2} {
			sim := &an.BoolSim{Fn: fn, Atom: func(v ssa.Value) (bool, bool) {
				in, ok := v.(ssa.Instruction)
				if !ok || !inOne(in.Block()) {
					return false, false
				}
				if x, eq, ok := nilCmp(v); ok && isIface(x) {
					nAtoms++
					return isNil == eq, true
				}
				if val, ok := cmpCount(v, n); ok {
					nAtoms++
					return val, true
				}
				return false, false
			}}
			reached := sim.Run()
			got, unk := setOf(reached, inOne)
			if len(unk) > 0 {
				o.FailAt(unk[0], "makeBatchQuery writes to the clause in a way the renderer table does not model (%s)", an.Expr(unk[0].(ssa.Value)))
				return
			}
			var want string
			switch {
			case isNil:
				want = ""
			case n == 0:
				want = norm("<col>", "IN (", "?", "arg:tuple")
			default:
				want = norm(",", "?", "arg:tuple")
			}
			if got != want {
				o.FailAt(seenNil, "makeBatchQuery, one-column group, tuple with nil value=%v after %d written value(s): emits {%s}, expected {%s}", isNil, n, got, want)
			}
			// the loop-carried flag and counter on the back edges taken
			for k, pred := range hdr.Preds {
				if !inLoop(pred, hdr) || !sim.In[hdr][k] || !reached[pred] {
					continue
				}
				fe, ce := seenNil.Edges[k], count.Edges[k]
				if isNil {
					if kk, ok := fe.(*ssa.Const); !ok || kk.Value == nil || kk.Value.Kind() != constant.Bool || !constant.BoolVal(kk.Value) {
						o.FailAt(seenNil, "makeBatchQuery: after a nil value the nil-seen flag is %s, not true: the `col IS ?` term is never emitted and the filter on NULL gets no rows", an.Expr(fe))
					}
					if ce != ssa.Value(count) {
						o.FailAt(count, "makeBatchQuery: a nil value changes the count of written IN values (%s)", an.Expr(ce))
					}
				} else {
					if fe != ssa.Value(seenNil) {
						o.FailAt(seenNil, "makeBatchQuery: a non-nil value sets the nil-seen flag to %s (it must keep it)", an.Expr(fe))
					}
					bo, ok := ce.(*ssa.BinOp)
					one := int64(0)
					if ok {
						one, _ = an.ConstInt(bo.Y)
					}
					if !ok || bo.Op != token.ADD || bo.X != ssa.Value(count) || one != 1 {
						o.FailAt(count, "makeBatchQuery: a written IN value does not advance the counter by one (%s): separators and the closing parenthesis go wrong", an.Expr(ce))
					}
				}
			}
		}
	}
	// --- multi-column groups -------------------------------------------------
	var multi []*ssa.BinOp
	an.Instrs(fn, func(i ssa.Instruction) {
		if bo, ok := i.(*ssa.BinOp); ok && !inLoop(bo.Block(), hdr) {
			if x, _, ok := nilCmp(bo); ok && isIface(x) && an.LoopHeaderOf(bo) != nil {
				multi = append(multi, bo)
			}
		}
	})
	if len(multi) == 0 {
		o.Fail(p.Pos(fn.Pos()), "makeBatchQuery: the multi-column renderer no longer distinguishes nil values (`col IS ?`) from others (`col=?`)")
		return
	}
	for _, bo := range multi {
		o.Site(bo)
		h := an.LoopHeaderOf(bo)
		body := func(b *ssa.BasicBlock) bool { return b != h && inLoop(b, h) }
		for _, isNil := range []bool{true, false} {
			sim := &an.BoolSim{Fn: fn, Atom: func(v ssa.Value) (bool, bool) {
				if v == ssa.Value(bo) {
					nAtoms++
					_, eq, _ := nilCmp(v)
					return isNil == eq, true
				}
				return false, false
			}}
			got, unk := setOf(sim.Run(), body)
			if len(unk) > 0 {
				o.FailAt(unk[0], "makeBatchQuery writes to the clause in a way the renderer table does not model (%s)", an.Expr(unk[0].(ssa.Value)))
				return
			}
			got = strings.TrimPrefix(strings.ReplaceAll(" | "+got, " | AND", ""), " | ")
			want := norm("<col>", "=?")
			if isNil {
				want = norm("<col>", "IS ?")
			}
			if got != want && strings.ReplaceAll(got, "= ?", "=?") != want {
				o.FailAt(bo, "makeBatchQuery, multi-column group, column whose value is nil=%v: emits {%s}, expected {%s}", isNil, got, want)
			}
		}
	}
	if nAtoms == 0 {
		o.Undecided("makeBatchQuery: no condition of the renderer was recognised")
	}
}
