package props

import (
	"go/token"
	"go/types"
	"strings"

	"golang.org/x/tools/go/ssa"

	"thunderlint/internal/an"
)

func init() {
	register("C04", "Decides the structural basis of 'no lost invalidation' in package reactive on every path of the anchored functions: node locks are released on all exits and only addOut holds two node locks (dependency first); in addOut the read of n.invalidated and the insert into n.out, and in invalidate the flag write and the snapshot of out, are each in one critical section; a late registration is invalidated under the predicate n.invalidated && !to.invalidated evaluated under both locks; invalidate calls afterInvalidate and every snapshot member after setting the flag; handleInvalidate fires immediately when already invalidated and stores the handler otherwise, under n.mu; Rerunner.run reaches the compute call only with r.mu held and after the r.stop test, re-arms (handleInvalidate / go r.run on retry) on every non-failing path; Stop cancels, then sets stop under r.mu; r.f/r.stop/r.computation are touched only by run/Stop/NewRerunner under r.mu; AddDependency always registers the edge; the per-key locker is released only on the success edge of its Lock. Not decided: liveness ('eventually re-run') under real timers and scheduling, minRerunInterval/WriteThenReadDelay timing.", c04)
	register("C08", "Decides the structural basis of cache freshness and release in package reactive: cleanInvalidated runs before the compute call of every run and deletes exactly the invalidated entries under the cache lock; Cache links child -> parent (addOut) before every return of a child's value, on hit and miss, takes the per-key lock first and inserts before linking on the miss path; a failed run releases its fresh node; the superseded computation is released when replaced and on Stop; node.release invalidates first, flips `released` once under the lock, runs afterRelease only on the flipping path, removes each in-edge under the dependency's lock and recurses exactly when the out set became empty in that same critical section; addOut does not add an edge to a released node and releases n when its out set stays empty; handleRelease fires immediately when already released; InvalidateAfter registers the timer's Stop as cleanup and always adds the dependency. Not decided: the dynamic claim that a final output never contains a superseded value, and exactly-once cleanup over all interleavings (reference-count races are schedule dependent; these rules are their structural basis).", c08)
}

const rx = "reactive"

func rxPath() string { return an.ModulePath + "/" + rx }

// nodeMuHeld returns the node-mutex paths held at i ("n.mu", "to.mu", "from.mu").
func nodeLocksHeld(ls *an.LockSets, i ssa.Instruction) []string {
	var out []string
	for p := range ls.HeldAt(i) {
		if strings.HasSuffix(p, ".mu") {
			out = append(out, p)
		}
	}
	return out
}

func isNodeMu(c *ssa.CallCommon) bool {
	if len(c.Args) == 0 {
		return false
	}
	return an.IsFieldAccess(c.Args[0], "node", "mu")
}

func c04(c *an.Ctx) {
	p := c.P

	c.Check("R-DOM", "node.release invalidates before releasing (a released cached child must not be reused as valid)", 2, func(o *an.O) { ruleReleaseInvalidates(c, o) })

	c.Check("R-LOCK", "reactive: every mutex acquired is released on all paths; only addOut holds two node locks, receiver first", 15, func(o *an.O) {
		for _, fn := range p.ModuleFuncs(func(rel string) bool { return rel == rx }) {
			ops, instrs := an.LockCalls(fn)
			if len(ops) == 0 {
				continue
			}
			ls := an.ComputeLocks(fn, nil)
			for k, op := range ops {
				i := instrs[k]
				if _, isCall := i.(*ssa.Call); !isCall || !op.Acquire {
					continue
				}
				o.Site(i)
				if op.Path == "" || op.Path == "^R" {
					o.FailAt(i, "lock with no resolvable access path in %s", an.QualName(fn))
					continue
				}
				if e := an.UnreleasedExit(fn, i); e != nil {
					o.FailAt(i, "%s: %s acquired here is still held at the return at %s", an.QualName(fn), op.Path, p.InstrPos(e))
				}
				if !isNodeMu(an.CallOf(i)) {
					continue
				}
				var heldNode []string
				for h := range ls.HeldAt(i) {
					// is h a node mutex? find its acquiring call
					for k2, op2 := range ops {
						if op2.Path == h && op2.Acquire && isNodeMu(an.CallOf(instrs[k2])) {
							heldNode = append(heldNode, h)
							break
						}
					}
				}
				if len(heldNode) == 0 {
					continue
				}
				if an.QualName(fn) != "(*node).addOut" {
					o.FailAt(i, "%s acquires node lock %s while holding node lock %v; only addOut may hold two node locks", an.QualName(fn), op.Path, heldNode)
					continue
				}
				recv := fn.Params[0].Name() + ".mu"
				if len(heldNode) != 1 || heldNode[0] != recv {
					o.FailAt(i, "addOut must lock the dependency (receiver) first; here %s is acquired while holding %v", op.Path, heldNode)
				}
			}
		}
	})

	c.Check("R-LOCK", "node.addOut: flag read, edge insert and release decision in one critical section of both locks", 4, func(o *an.O) {
		fn := c.NeedFunc(rx, "(*node).addOut")
		ls := an.ComputeLocks(fn, nil)
		n, to := fn.Params[0].Name(), fn.Params[1].Name()
		both := func(i ssa.Instruction, what string) {
			o.Site(i)
			h := ls.HeldAt(i)
			if !h[n+".mu"] || !h[to+".mu"] {
				o.FailAt(i, "%s happens without both %s.mu and %s.mu held", what, n, to)
			}
		}
		var insert ssa.Instruction
		an.Instrs(fn, func(i ssa.Instruction) {
			if mu, ok := i.(*ssa.MapUpdate); ok && an.PathOf(mu.Map) == n+".out" {
				insert = i
				both(i, "insert into "+n+".out")
				if !an.HasGuard(i.Block(), "!"+to+".released") {
					o.FailAt(i, "edge inserted without testing %s.released (a released node would be kept alive / never re-released)", to)
				}
			}
		})
		if insert == nil {
			o.Fail(p.Pos(fn.Pos()), "no insert into %s.out found", n)
			return
		}
		// go to.invalidate() under (n.invalidated && !to.invalidated), operands read under both locks, same section as the insert
		goInv := goCallsTo(fn, an.Mod(rx, "node", "invalidate"))
		if len(goInv) != 1 {
			o.Fail(p.Pos(fn.Pos()), "expected exactly one `go %s.invalidate()` in addOut, found %d: a dependant registered after the invalidation would never be invalidated", to, len(goInv))
			return
		}
		g := goInv[0]
		o.Site(g)
		if an.PathOf(an.CallOf(g).Args[0]) != to {
			o.FailAt(g, "invalidate is started on %s, not on the new dependant %s", an.Expr(an.CallOf(g).Args[0]), to)
		}
		want := "(" + n + ".invalidated && !" + to + ".invalidated)"
		okGuard := false
		for _, gd := range an.GuardsOf(g.Block()) {
			if !gd.Polarity {
				continue
			}
			s := an.Expr(gd.Cond)
			if s == want || s == n+".invalidated" {
				okGuard = true
				for _, ld := range an.LeafLoads(gd.Cond) {
					both(ld, "read of "+an.Expr(ld.(ssa.Value))+" for the late-invalidation decision")
					if !ls.SameSection(insert, ld, n+".mu") {
						o.FailAt(ld, "%s is read in a different critical section of %s.mu than the insert into %s.out: an invalidation between them is lost", an.Expr(ld.(ssa.Value)), n, n)
					}
				}
			}
		}
		if !okGuard {
			o.FailAt(g, "late invalidation is not guarded by %s (guards: %v)", want, an.GuardStrings(g.Block()))
		}
	})

	c.Check("R-LOCK", "node.invalidate: flag write and snapshot of out in one critical section; handler and every member invalidated afterwards", 4, func(o *an.O) {
		fn := c.NeedFunc(rx, "(*node).invalidate")
		ls := an.ComputeLocks(fn, nil)
		n := fn.Params[0].Name()
		var store ssa.Instruction
		for _, r := range an.FieldRefs(fn, rxPath(), "node", "invalidated") {
			if r.Kind == "store" {
				store = r.Instr
				o.Site(r.Instr)
				if !ls.Held(r.Instr, n+".mu") {
					o.FailAt(r.Instr, "%s.invalidated written without %s.mu", n, n)
				}
				if !an.HasGuard(r.Instr.Block(), "!"+n+".invalidated") {
					o.FailAt(r.Instr, "flag written without first testing it (invalidate must be idempotent)")
				}
			}
			if r.Kind == "load" {
				o.Site(r.Instr)
				if !ls.Held(r.Instr, n+".mu") {
					o.FailAt(r.Instr, "%s.invalidated read without %s.mu", n, n)
				}
			}
		}
		if store == nil {
			o.Fail(p.Pos(fn.Pos()), "invalidate never sets the invalidated flag")
			return
		}
		// snapshot: range over n.out in the same section
		var rng ssa.Instruction
		an.Instrs(fn, func(i ssa.Instruction) {
			if r, ok := i.(*ssa.Range); ok && an.PathOf(r.X) == n+".out" {
				rng = i
			}
		})
		if rng == nil {
			o.Fail(p.Pos(fn.Pos()), "invalidate does not iterate %s.out", n)
			return
		}
		o.Site(rng)
		if !ls.SameSection(store, rng, n+".mu") {
			o.FailAt(rng, "the snapshot of %s.out is not taken in the critical section that sets the flag: a dependant added in between is neither in the snapshot nor invalidated by addOut", n)
		}
		// afterInvalidate called after the store on all paths (modulo nil)
		calls := an.DynCallsThrough(fn, "node", "afterInvalidate")
		blk := an.NewBlocker(calls...)
		for _, r := range an.FieldRefs(fn, rxPath(), "node", "afterInvalidate") {
			if r.Kind == "load" {
				for _, nt := range an.NilTests(fn, r.Instr.(ssa.Value)) {
					blk.AddEdge(nt.If.Block(), nt.NilSucc)
				}
			}
		}
		if len(calls) == 0 {
			o.Fail(p.Pos(fn.Pos()), "invalidate never calls afterInvalidate: a rerunner would not be told")
		} else if e := an.ReachableAvoiding(fn, store, blk, an.Exits(fn, false)); e != nil {
			o.FailAt(e, "a return is reachable after setting the flag without calling a non-nil afterInvalidate handler")
		}
		// recursive invalidate of members: call in a loop whose header is passed on every path from the store
		rec := an.Calls(fn, an.Mod(rx, "node", "invalidate"))
		var inLoop ssa.Instruction
		for _, r := range rec {
			if h := an.LoopHeaderOf(r); h != nil {
				inLoop = r
				hb := an.NewBlocker(h.Instrs[0])
				if h.Instrs[0] == r {
					continue
				}
				if e := an.ReachableAvoiding(fn, store, hb, an.Exits(fn, false)); e != nil {
					o.FailAt(e, "a return is reachable after setting the flag without iterating the snapshot of dependants")
				}
				o.Site(r)
			}
		}
		if inLoop == nil {
			o.Fail(p.Pos(fn.Pos()), "invalidate does not invalidate the snapshot members in a loop")
		}
	})

	handlerRule := func(o *an.O, fnName, flag, handler string) {
		fn := c.NeedFunc(rx, fnName)
		ls := an.ComputeLocks(fn, nil)
		n := fn.Params[0].Name()
		f := fn.Params[1]
		gos := 0
		an.Instrs(fn, func(i ssa.Instruction) {
			if g, ok := i.(*ssa.Go); ok && g.Call.Value == f {
				gos++
				o.Site(i)
				if !an.HasGuard(i.Block(), n+"."+flag) {
					o.FailAt(i, "handler started without %s.%s being true", n, flag)
				}
			}
			if call, ok := i.(*ssa.Call); ok && call.Call.Value == f {
				o.FailAt(i, "handler called synchronously while holding %s.mu", n)
			}
		})
		if gos != 1 {
			o.Fail(p.Pos(fn.Pos()), "%s must start the handler immediately (go f()) when %s.%s is already set; found %d such sites: an event between the run's end and the registration would be lost", fnName, n, flag, gos)
		}
		stores := 0
		for _, r := range an.FieldRefs(fn, rxPath(), "node", handler) {
			if r.Kind == "store" {
				stores++
				o.Site(r.Instr)
				if r.Val != f {
					o.FailAt(r.Instr, "%s.%s set to something other than the handler", n, handler)
				}
				if !an.HasGuard(r.Instr.Block(), "!"+n+"."+flag) {
					o.FailAt(r.Instr, "handler stored although %s.%s may already be set", n, flag)
				}
				if !ls.Held(r.Instr, n+".mu") {
					o.FailAt(r.Instr, "handler stored without %s.mu", n)
				}
			}
		}
		if stores != 1 {
			o.Fail(p.Pos(fn.Pos()), "%s must store the handler when the flag is not set (found %d stores)", fnName, stores)
		}
		for _, r := range an.FieldRefs(fn, rxPath(), "node", flag) {
			if r.Kind == "load" {
				o.Site(r.Instr)
				if !ls.Held(r.Instr, n+".mu") {
					o.FailAt(r.Instr, "%s.%s read without %s.mu: check-then-register is not atomic", n, flag, n)
				}
			}
		}
	}
	c.Check("R-BOOL", "node.handleInvalidate: fires at once if already invalidated, else stores the handler, atomically under n.mu", 3, func(o *an.O) {
		handlerRule(o, "(*node).handleInvalidate", "invalidated", "afterInvalidate")
	})

	c.Check("R-LOCK+R-DOM", "Rerunner.run: compute call only under r.mu and after the r.stop test; ctx check before taking r.mu", 3, func(o *an.O) {
		ruleRunUnderLock(c, o)
	})

	c.Check("R-POST", "Rerunner.run re-arms on every non-failing path (handleInvalidate on success, go r.run on retry); rerun closure calls r.run", 3, func(o *an.O) {
		fn := c.NeedFunc(rx, "(*Rerunner).run")
		runFn := c.NeedFunc(rx, "run")
		calls := an.CallsToFunc(fn, runFn)
		an.Need(len(calls) == 1, "single run call")
		call := calls[0]
		hi := an.Calls(fn, an.Mod(rx, "node", "handleInvalidate"))
		gor := goCallsTo(fn, an.Mod(rx, "Rerunner", "run"))
		blk := an.NewBlocker()
		for _, i := range hi {
			blk.Instr[i] = true
			o.Site(i)
		}
		for _, i := range gor {
			blk.Instr[i] = true
			o.Site(i)
		}
		// failure exit: err != RetrySentinelError is allowed to return
		for _, ci := range an.CondIfs(fn, func(v ssa.Value) bool {
			s := an.Expr(v)
			return strings.Contains(s, "RetrySentinelError") && strings.Contains(s, "!=")
		}) {
			blk.AddEdge(ci.If.Block(), ci.True)
			o.Site(ci.If)
		}
		for _, ci := range an.CondIfs(fn, func(v ssa.Value) bool {
			s := an.Expr(v)
			return strings.Contains(s, "RetrySentinelError") && strings.Contains(s, "==")
		}) {
			blk.AddEdge(ci.If.Block(), ci.False)
		}
		if e := an.ReachableAvoiding(fn, call, blk, an.Exits(fn, false)); e != nil {
			o.FailAt(e, "after the computation a return is reachable without re-arming (handleInvalidate) or retrying (go r.run): a later invalidation would never re-run it")
		}
		// success path specifically: handleInvalidate on the new computation's node
		if len(hi) == 0 {
			o.Fail(p.Pos(fn.Pos()), "no handleInvalidate call in Rerunner.run")
			return
		}
		for _, h := range hi {
			cc := an.CallOf(h)
			// receiver must be &currentComputation.node where currentComputation is run's result
			fa, ok := cc.Args[0].(*ssa.FieldAddr)
			okRecv := false
			if ok {
				if ex, ok := fa.X.(*ssa.Extract); ok && ex.Tuple == call.(ssa.Value) {
					okRecv = true
				}
			}
			if !okRecv {
				o.FailAt(h, "handleInvalidate is registered on %s, not on the node of the computation that just ran", an.Expr(cc.Args[0]))
			}
			// success path: from the nil-edge of err, a return not passing handleInvalidate?
			b2 := an.NewBlocker(h)
			for _, e := range an.ErrResult(call.(ssa.Value)) {
				for _, nt := range an.NilTests(fn, e) {
					b2.AddEdge(nt.If.Block(), nt.NonNil)
				}
			}
			if e := an.ReachableAvoiding(fn, call, b2, an.Exits(fn, false)); e != nil {
				o.FailAt(e, "on the success path a return is reachable without handleInvalidate")
			}
			// the closure handed over must call r.run on every path
			if mc, ok := cc.Args[1].(*ssa.MakeClosure); ok {
				cl := mc.Fn.(*ssa.Function)
				var sites []ssa.Instruction
				an.Instrs(cl, func(i ssa.Instruction) {
					if c2 := an.CallOf(i); c2 != nil && an.Mod(rx, "Rerunner", "run").Matches(c2) {
						if _, isDefer := i.(*ssa.Defer); !isDefer {
							sites = append(sites, i)
						}
					}
				})
				if why := an.ExactlyOnce(cl, sites); why != "" {
					o.Fail(p.Pos(cl.Pos()), "the invalidation handler does not run r.run exactly once on each path: %s", why)
				}
				o.SitePos(p.Pos(cl.Pos()))
			} else {
				o.FailAt(h, "handleInvalidate is not given a closure that reruns")
			}
		}
	})

	c.Check("R-LOCK", "Rerunner.Stop: cancel, then set stop and release the computation under r.mu", 2, func(o *an.O) {
		fn := c.NeedFunc(rx, "(*Rerunner).Stop")
		ls := an.ComputeLocks(fn, nil)
		r := fn.Params[0].Name()
		var st ssa.Instruction
		for _, ref := range an.FieldRefs(fn, rxPath(), "Rerunner", "stop") {
			if ref.Kind == "store" {
				st = ref.Instr
				o.Site(st)
				if cst, ok := ref.Val.(*ssa.Const); !ok || cst.Value == nil || cst.Value.ExactString() != "true" {
					o.FailAt(st, "%s.stop set to something other than true", r)
				}
				if !ls.Held(st, r+".mu") {
					o.FailAt(st, "%s.stop written without %s.mu: Stop would not wait for a run in progress", r, r)
				}
			}
		}
		if st == nil {
			o.Fail(p.Pos(fn.Pos()), "Stop never sets %s.stop", r)
			return
		}
		if why := an.ExactlyOnce(fn, []ssa.Instruction{st}); why != "" && !strings.Contains(why, "more than once") {
			o.Fail(p.Pos(fn.Pos()), "Stop can return without setting stop: %s", why)
		}
		cancels := an.DynCallsThrough(fn, "Rerunner", "cancelCtx")
		if len(cancels) == 0 {
			o.Fail(p.Pos(fn.Pos()), "Stop does not cancel the rerunner's context")
		}
		for _, cc := range cancels {
			o.Site(cc)
			if len(ls.HeldAt(cc)) > 0 {
				o.FailAt(cc, "context cancelled while holding %v (a long run holds r.mu: Stop could not interrupt it)", ls.HeldAt(cc))
			}
		}
	})

	c.Check("R-WHO", "Rerunner.f/stop/computation are touched only by run/Stop/NewRerunner, and under r.mu outside the constructor", 6, func(o *an.O) {
		allowed := map[string]bool{"(*Rerunner).run": true, "(*Rerunner).Stop": true, "NewRerunner": true}
		for _, fn := range p.ModuleFuncs(nil) {
			var ls *an.LockSets
			for _, field := range []string{"f", "stop", "computation"} {
				for _, ref := range an.FieldRefs(fn, rxPath(), "Rerunner", field) {
					o.Site(ref.Instr)
					name := an.QualName(fn)
					if !p.AllowedFunc(fn, func(f *ssa.Function) bool { return an.RelPkg(f) == rx && allowed[an.QualName(f)] }) {
						o.FailAt(ref.Instr, "%s.%s accesses Rerunner.%s", an.RelPkg(fn), name, field)
						continue
					}
					if name == "NewRerunner" || field == "f" {
						if field == "f" && ref.Kind == "store" && name != "NewRerunner" {
							o.FailAt(ref.Instr, "Rerunner.f reassigned after construction")
						}
						continue
					}
					if ls == nil {
						ls = an.ComputeLocks(fn, nil)
					}
					if !ls.Held(ref.Instr, fn.Params[0].Name()+".mu") {
						o.FailAt(ref.Instr, "Rerunner.%s accessed without r.mu in %s", field, name)
					}
				}
			}
			// r.f must not be invoked directly anywhere but through run(ctx, r.f)
			for _, dc := range an.DynCallsThrough(fn, "Rerunner", "f") {
				o.FailAt(dc, "Rerunner.f invoked directly in %s (bypasses r.mu / the stop test)", an.QualName(fn))
			}
		}
	})

	c.Check("R-POST", "AddDependency registers the edge on every path, on the running computation's node when there is one", 2, func(o *an.O) {
		fn := c.NeedFunc(rx, "AddDependency")
		adds := an.Calls(fn, an.Mod(rx, "node", "addOut"))
		for _, a := range adds {
			o.Site(a)
			if _, isCall := a.(*ssa.Call); !isCall {
				o.FailAt(a, "addOut is deferred or started asynchronously: the read that follows could miss an invalidation")
			}
			if an.PathOf(an.CallOf(a).Args[0]) != fn.Params[1].Name()+".node" {
				o.FailAt(a, "addOut is called on %s, not on the resource's node", an.Expr(an.CallOf(a).Args[0]))
			}
		}
		if why := an.ExactlyOnce(fn, adds); why != "" {
			o.Fail(p.Pos(fn.Pos()), "AddDependency: addOut: %s", why)
		}
		// with a rerunner: argument is &computation.node of ctx.Value(computationKey{}).(*computation)
		okComp := false
		for _, a := range adds {
			arg := an.CallOf(a).Args[1]
			if fa, ok := arg.(*ssa.FieldAddr); ok && an.FieldName(fa.X.Type(), fa.Field) == "node" {
				if ta, ok := fa.X.(*ssa.TypeAssert); ok && strings.Contains(an.Expr(ta), "computationKey") {
					okComp = true
					if !an.HasGuard(a.Block(), "!HasRerunner("+fn.Params[0].Name()+")") && !an.HasGuard(a.Block(), "HasRerunner("+fn.Params[0].Name()+")") {
						// reached after the early return of the no-rerunner branch: fine as long as that branch returns
					}
				}
			}
		}
		if !okComp {
			o.Fail(p.Pos(fn.Pos()), "no addOut(&computation.node) with the computation taken from the context")
		}
		// with a rerunner in the context the edge goes to the computation, whatever else holds (a done
		// context still names its computation): explored with HasRerunner(ctx) fixed to true
		sim := &an.BoolSim{Fn: fn, Atom: func(v ssa.Value) (bool, bool) {
			if call, ok := v.(*ssa.Call); ok {
				if f := call.Call.StaticCallee(); f != nil && f.Name() == "HasRerunner" && an.RelPkg(f) == rx {
					return true, true
				}
			}
			return false, false
		}}
		reached := sim.Run()
		for _, a := range adds {
			arg := an.CallOf(a).Args[1]
			if _, isComp := arg.(*ssa.FieldAddr); isComp {
				continue
			}
			if reached[a.Block()] {
				o.FailAt(a, "with a rerunner in the context AddDependency can still attach the resource to %s instead of the running computation: the edge to the computation is never created, so a later invalidation of the resource reaches nobody and the rerunner is not run again", an.Short(an.Expr(arg), 40))
			}
		}
	})

	c.Check("R-DOM-ERR", "Cache: per-key lock released (deferred) exactly on the success edge of locker.Lock; locker ref-count under l.mu", 4, func(o *an.O) {
		fn := c.NeedFunc(rx, "Cache")
		locks := an.Calls(fn, an.Mod(rx, "locker", "Lock"))
		unlocks := an.CallsAny(fn, an.Mod(rx, "locker", "Unlock"))
		if len(locks) != 1 || len(unlocks) != 1 {
			o.Fail(p.Pos(fn.Pos()), "expected one locker.Lock and one locker.Unlock in Cache, found %d/%d", len(locks), len(unlocks))
			return
		}
		o.Site(locks[0])
		o.Site(unlocks[0])
		if _, isDefer := unlocks[0].(*ssa.Defer); !isDefer {
			// a direct call must post-dominate
			if e := an.ReachableAvoiding(fn, locks[0], an.NewBlocker(unlocks[0]), an.Exits(fn, false)); e != nil {
				// only failure edge allowed
			}
		}
		blk := an.NewBlocker()
		if an.BlockSuccessEdges(fn, blk, locks) == 0 {
			o.FailAt(locks[0], "the error of locker.Lock is not tested")
		} else if an.Reach(fn, nil, blk)[unlocks[0]] {
			o.FailAt(unlocks[0], "Unlock is reachable although Lock failed (ctxMutex.Unlock panics / releases someone else's lock)")
		}
		// success edge: every return passes the Unlock (defer)
		b2 := an.NewBlocker(unlocks[0])
		for _, e := range an.ErrResult(locks[0].(ssa.Value)) {
			for _, nt := range an.NilTests(fn, e) {
				b2.AddEdge(nt.If.Block(), nt.NonNil)
			}
		}
		if e := an.ReachableAvoiding(fn, locks[0], b2, an.Exits(fn, false)); e != nil {
			o.FailAt(e, "a return is reachable after a successful Lock without (deferred) Unlock")
		}
		if an.CallOf(locks[0]).Args[2] != an.CallOf(unlocks[0]).Args[1] {
			o.FailAt(unlocks[0], "Unlock uses a different key than Lock")
		}
		// locker.Lock / Unlock: ref++ / ref-- under l.mu
		for _, nm := range []string{"(*locker).Lock", "(*locker).Unlock"} {
			lf := c.NeedFunc(rx, nm)
			ls := an.ComputeLocks(lf, nil)
			for _, ref := range an.FieldRefs(lf, rxPath(), "lock", "ref") {
				o.Site(ref.Instr)
				if !ls.Held(ref.Instr, lf.Params[0].Name()+".mu") {
					o.FailAt(ref.Instr, "lock.ref accessed without l.mu in %s", nm)
				}
			}
			for _, i := range lockerMapOps(lf) {
				o.Site(i)
				if !ls.Held(i, lf.Params[0].Name()+".mu") {
					o.FailAt(i, "locker.m accessed without l.mu in %s", nm)
				}
			}
		}
	})
}

// ruleReleaseInvalidates: node.release calls n.invalidate() unconditionally
// before it marks the node released (shared by C04 and C08: a released but
// not invalidated cached computation stays in the cache, detached from its
// resources, and later invalidations are lost).
func ruleReleaseInvalidates(c *an.Ctx, o *an.O) {
	fn := c.NeedFunc(rx, "(*node).release")
	var store ssa.Instruction
	var self ssa.Value // the node whose flag flips: the receiver, or the current node of a work list
	for _, ref := range an.FieldRefs(fn, rxPath(), "node", "released") {
		if ref.Kind == "store" {
			store = ref.Instr
			if fa, ok := ref.Addr.(*ssa.FieldAddr); ok {
				self = fa.X
			}
		}
	}
	if store == nil || self == nil {
		o.Fail(c.P.Pos(fn.Pos()), "release never sets the released flag")
		return
	}
	o.Site(store)
	var selfInv []ssa.Instruction
	for _, i := range an.Calls(fn, an.Mod(rx, "node", "invalidate")) {
		if a0 := an.CallOf(i).Args[0]; a0 == self || an.Expr(a0) == an.Expr(self) {
			selfInv = append(selfInv, i)
			o.Site(i)
		}
	}
	if an.Reach(fn, nil, an.NewBlocker(selfInv...))[store] {
		o.FailAt(store, "a node can be released without having been invalidated first: a cached computation that is released stays in the rerunner's cache looking valid but detached from its resources, so their later invalidations never reach the rerunner")
	}
}

// ruleFreshComputationKept: in Rerunner.run, after run(ctx, r.f) succeeded,
// every path to a return stores the new computation in r.computation or
// releases it (shared by C08 and C17: otherwise the resources it registered
// are referenced forever and their cleanup never runs).
func ruleFreshComputationKept(c *an.Ctx, o *an.O) {
	fn := c.NeedFunc(rx, "(*Rerunner).run")
	runFn := c.NeedFunc(rx, "run")
	calls := an.CallsToFunc(fn, runFn)
	an.Need(len(calls) == 1, "single run call in Rerunner.run")
	call := calls[0]
	o.Site(call)
	fresh := extractOf(call.(ssa.Value), 0)
	an.Need(fresh != nil, "result of run")
	blk := an.NewBlocker()
	for _, ref := range an.FieldRefs(fn, rxPath(), "Rerunner", "computation") {
		if ref.Kind == "store" && ref.Val == fresh {
			blk.Instr[ref.Instr] = true
			o.Site(ref.Instr)
		}
	}
	for _, g := range append(goCallsTo(fn, an.Mod(rx, "node", "release")), an.Calls(fn, an.Mod(rx, "node", "release"))...) {
		if fa, ok := an.CallOf(g).Args[0].(*ssa.FieldAddr); ok && fa.X == fresh {
			blk.Instr[g] = true
			o.Site(g)
		}
	}
	for _, e := range an.ErrResult(call.(ssa.Value)) {
		for _, nt := range an.NilTests(fn, e) {
			blk.AddEdge(nt.If.Block(), nt.NonNil) // error path: run() released it already
		}
	}
	if e := an.ReachableAvoiding(fn, call, blk, an.Exits(fn, false)); e != nil {
		o.FailAt(e, "after a successful computation Rerunner.run can return without storing the new computation in r.computation or releasing it: every resource it registered stays referenced, so cleanup callbacks never run (e.g. when the subscription ends while the run is in flight)")
	}
}

// ruleRunUnderLock: the compute call of Rerunner.run happens with r.mu held,
// after the r.stop test made in the same critical section, and after the
// cancelled-context test (shared by C04, C08 and C17: a run that starts after
// Stop returned stores a computation nobody will release).
func ruleRunUnderLock(c *an.Ctx, o *an.O) {
	p := c.P
	_ = p
	{
		fn := c.NeedFunc(rx, "(*Rerunner).run")
		ls := an.ComputeLocks(fn, nil)
		r := fn.Params[0].Name()
		runFn := c.NeedFunc(rx, "run")
		calls := an.CallsToFunc(fn, runFn)
		if len(calls) != 1 {
			o.Fail(p.Pos(fn.Pos()), "expected exactly one call of run(ctx, r.f) in Rerunner.run, found %d", len(calls))
			return
		}
		call := calls[0]
		o.Site(call)
		if !ls.Held(call, r+".mu") {
			o.FailAt(call, "the computation runs without %s.mu: runs could overlap and Stop could return while one is in progress", r)
		}
		if !an.IsFieldAccess(an.CallOf(call).Args[1], "Rerunner", "f") {
			o.FailAt(call, "run is not given %s.f", r)
		}
		// r.stop test: loads of r.stop; block the false... the call must be unreachable when the `!stop` edges are removed
		blk := an.NewBlocker()
		nst := 0
		for _, ci := range an.CondIfs(fn, func(v ssa.Value) bool { return an.Expr(v) == r+".stop" }) {
			blk.AddEdge(ci.If.Block(), ci.False)
			nst++
			o.Site(ci.If)
			if !ls.Held(ci.If, r+".mu") {
				o.FailAt(ci.If, "%s.stop tested without %s.mu: Stop could slip in between the test and the run", r, r)
			}
			for _, ld := range an.LeafLoads(ci.If.Cond) {
				if !ls.Held(ld, r+".mu") || !ls.SameSection(ld, call, r+".mu") {
					o.FailAt(ld, "%s.stop is read in a different critical section of %s.mu than the one the computation runs in: a Stop in between returns although a run is about to start, and the computation that run stores is never released", r, r)
				}
			}
		}
		if nst == 0 {
			o.FailAt(call, "no test of %s.stop before the computation: a run could start after Stop returned", r)
		} else if an.Reach(fn, nil, blk)[call] {
			o.FailAt(call, "the computation is reachable without passing the %s.stop test", r)
		}
		// ctx.Err() early exit before taking r.mu (C15.6)
		var lockI ssa.Instruction
		_, lis := an.LockCalls(fn)
		for _, li := range lis {
			if op := an.CallOf(li); an.IsFieldAccess(op.Args[0], "Rerunner", "mu") {
				if _, isCall := li.(*ssa.Call); isCall && lockI == nil {
					lockI = li
				}
			}
		}
		an.Need(lockI != nil, "r.mu.Lock in Rerunner.run")
		errIfs := an.NilTestsWhere(fn, func(v ssa.Value) bool {
			return strings.HasSuffix(an.Expr(v), ".Err()")
		})
		if len(errIfs) == 0 {
			o.Fail(p.Pos(fn.Pos()), "Rerunner.run no longer returns early on a cancelled context")
		} else {
			b2 := an.NewBlocker()
			for _, nt := range errIfs {
				b2.AddEdge(nt.If.Block(), nt.NilSucc)
				o.Site(nt.If)
			}
			if an.Reach(fn, nil, b2)[call] {
				o.FailAt(call, "the computation is reachable without the cancelled-context test")
			}
		}
	}
}

// phiLeaves expands phis (and nil constants away) to the values that can flow into v.
func phiLeaves(v ssa.Value) []ssa.Value {
	var out []ssa.Value
	seen := map[ssa.Value]bool{}
	var walk func(v ssa.Value)
	walk = func(v ssa.Value) {
		if v == nil || seen[v] {
			return
		}
		seen[v] = true
		if ph, ok := v.(*ssa.Phi); ok {
			for _, e := range ph.Edges {
				walk(e)
			}
			return
		}
		out = append(out, v)
	}
	walk(v)
	return out
}

func lockerMapOps(fn *ssa.Function) []ssa.Instruction {
	var out []ssa.Instruction
	an.Instrs(fn, func(i ssa.Instruction) {
		switch x := i.(type) {
		case *ssa.Lookup:
			if an.IsFieldAccess(x.X, "locker", "m") {
				out = append(out, i)
			}
		case *ssa.MapUpdate:
			if an.IsFieldAccess(x.Map, "locker", "m") {
				out = append(out, i)
			}
		case *ssa.Call:
			if b, ok := x.Call.Value.(*ssa.Builtin); ok && b.Name() == "delete" && an.IsFieldAccess(x.Call.Args[0], "locker", "m") {
				out = append(out, i)
			}
		}
	})
	return out
}

// goCallsTo returns the `go` statements in fn calling spec.
func goCallsTo(fn *ssa.Function, spec an.CalleeSpec) []ssa.Instruction {
	var out []ssa.Instruction
	an.Instrs(fn, func(i ssa.Instruction) {
		if g, ok := i.(*ssa.Go); ok && spec.Matches(&g.Call) {
			out = append(out, i)
		}
	})
	return out
}

func isConstNil(v ssa.Value) bool {
	c, ok := v.(*ssa.Const)
	return ok && c.IsNil()
}

func c08(c *an.Ctx) {
	p := c.P

	c.Check("R-DOM", "node.release invalidates before releasing (released cached computations must not look valid)", 2, func(o *an.O) { ruleReleaseInvalidates(c, o) })
	c.Check("R-POST", "Rerunner.run keeps or releases every successfully computed computation", 2, func(o *an.O) { ruleFreshComputationKept(c, o) })
	c.Check("R-LOCK+R-DOM", "no run starts after Stop: the compute call is under r.mu, after the r.stop test of the same critical section", 3, func(o *an.O) { ruleRunUnderLock(c, o) })

	c.Check("R-DOM", "Rerunner.run: cache.cleanInvalidated precedes the computation; it deletes exactly the invalidated entries under the cache lock", 3, func(o *an.O) {
		fn := c.NeedFunc(rx, "(*Rerunner).run")
		runFn := c.NeedFunc(rx, "run")
		calls := an.CallsToFunc(fn, runFn)
		an.Need(len(calls) == 1, "single run call in Rerunner.run")
		cleans := an.Calls(fn, an.Mod(rx, "cache", "cleanInvalidated"))
		for _, cl := range cleans {
			o.Site(cl)
			if an.PathOf(an.CallOf(cl).Args[0]) != fn.Params[0].Name()+".cache" {
				o.FailAt(cl, "cleanInvalidated called on %s, not on the rerunner's cache", an.Expr(an.CallOf(cl).Args[0]))
			}
		}
		if an.Reach(fn, nil, an.NewBlocker(cleans...))[calls[0]] {
			o.FailAt(calls[0], "the computation is reachable without cleanInvalidated: a memoised value whose dependency was invalidated would be served again")
		}
		// the cache handed to the run is r.cache
		okCache := false
		an.Instrs(fn, func(i ssa.Instruction) {
			if cc := an.CallOf(i); cc != nil && (an.CalleeSpec{Pkg: "context", Name: "WithValue"}).Matches(cc) {
				if strings.Contains(an.Expr(cc.Args[1]), "cacheKey") && an.PathOf(an.StripConv(cc.Args[2])) == fn.Params[0].Name()+".cache" {
					okCache = true
				}
			}
		})
		if !okCache {
			o.Fail(p.Pos(fn.Pos()), "the run context does not carry r.cache under cacheKey")
		}
		ci := c.NeedFunc(rx, "(*cache).cleanInvalidated")
		ls := an.ComputeLocks(ci, nil)
		dels := 0
		an.Instrs(ci, func(i ssa.Instruction) {
			cc := an.CallOf(i)
			if cc == nil {
				return
			}
			if b, ok := cc.Value.(*ssa.Builtin); ok && b.Name() == "delete" {
				dels++
				o.Site(i)
				if !ls.Held(i, ci.Params[0].Name()+".mu") {
					o.FailAt(i, "cache entry deleted without the cache lock")
				}
				gs := an.GuardStrings(i.Block())
				ok := false
				for _, g := range gs {
					if strings.HasSuffix(g, ".node.Invalidated()") && !strings.HasPrefix(g, "!") {
						ok = true
					}
				}
				if !ok {
					o.FailAt(i, "entry deleted without testing node.Invalidated() (guards %v)", gs)
				}
				if an.LoopHeaderOf(i) == nil {
					o.FailAt(i, "delete is not inside the loop over all computations")
				}
			}
		})
		if dels == 0 {
			o.Fail(p.Pos(ci.Pos()), "cleanInvalidated deletes nothing")
		}
		var rng bool
		an.Instrs(ci, func(i ssa.Instruction) {
			if r, ok := i.(*ssa.Range); ok && an.IsFieldAccess(r.X, "cache", "computations") {
				rng = true
				o.Site(i)
			}
		})
		if !rng {
			o.Fail(p.Pos(ci.Pos()), "cleanInvalidated does not range over cache.computations")
		}
	})

	c.Check("R-DOM", "Cache: every return of a child's value is preceded by child.node.addOut(&computation.node); set precedes it on the miss path", 3, func(o *an.O) {
		fn := c.NeedFunc(rx, "Cache")
		adds := an.Calls(fn, an.Mod(rx, "node", "addOut"))
		nret := 0
		hitRet, missRet := false, false
		for _, e := range an.Exits(fn, false) {
			ret := e.(*ssa.Return)
			if len(ret.Results) != 2 {
				continue
			}
			ld, ok := an.ResultAt(ret, 0).(*ssa.UnOp)
			if !ok || ld.Op != token.MUL {
				continue
			}
			fa, ok := ld.X.(*ssa.FieldAddr)
			if !ok || !an.IsFieldAccess(fa, "computation", "value") {
				continue
			}
			nret++
			o.Site(e)
			child := fa.X
			for _, leaf := range phiLeaves(child) {
				switch x := leaf.(type) {
				case *ssa.Call:
					if an.Mod(rx, "cache", "get").Matches(x.Common()) {
						hitRet = true
					}
				case *ssa.Extract:
					if call, ok := x.Tuple.(*ssa.Call); ok && call.Call.StaticCallee() == c.NeedFunc(rx, "run") {
						missRet = true
					}
				}
			}
			var mine []ssa.Instruction
			for _, a := range adds {
				cc := an.CallOf(a)
				if r, ok := cc.Args[0].(*ssa.FieldAddr); ok && r.X == child {
					if _, isCall := a.(*ssa.Call); !isCall {
						continue
					}
					// parent must be the context's computation
					if arg, ok := cc.Args[1].(*ssa.FieldAddr); ok {
						if ta, ok := arg.X.(*ssa.TypeAssert); ok && strings.Contains(an.Expr(ta), "computationKey") {
							mine = append(mine, a)
						}
					}
				}
			}
			if len(mine) == 0 {
				o.FailAt(e, "a cached child's value is returned without linking child -> parent (addOut): the child's invalidation would not reach the caller")
				continue
			}
			if an.Reach(fn, nil, an.NewBlocker(mine...))[e] {
				o.FailAt(e, "this return of child.value is reachable without child.node.addOut(&computation.node)")
			}
		}
		if !hitRet || !missRet {
			o.Fail(p.Pos(fn.Pos()), "expected Cache to return child.value both for a cached child (hit: %v) and for a freshly run one (miss: %v); %d such returns", hitRet, missRet, nret)
		}
		// miss path: cache.set before addOut of the fresh child
		sets := an.Calls(fn, an.Mod(rx, "cache", "set"))
		runFn := c.NeedFunc(rx, "run")
		runs := an.CallsToFunc(fn, runFn)
		if len(sets) == 0 || len(runs) == 0 {
			o.Fail(p.Pos(fn.Pos()), "miss path: run/set calls not found")
			return
		}
		o.Site(sets[0])
		// after run succeeds every return passes set
		b2 := an.NewBlocker(sets...)
		for _, e := range an.ErrResult(runs[0].(ssa.Value)) {
			for _, nt := range an.NilTests(fn, e) {
				b2.AddEdge(nt.If.Block(), nt.NonNil)
			}
		}
		if e := an.ReachableAvoiding(fn, runs[0], b2, an.Exits(fn, false)); e != nil {
			o.FailAt(e, "a freshly computed child is returned without being stored in the cache")
		}
		// lock first: locker.Lock dominates cache.get
		gets := an.Calls(fn, an.Mod(rx, "cache", "get"))
		locks := an.Calls(fn, an.Mod(rx, "locker", "Lock"))
		for _, g := range gets {
			o.Site(g)
			if an.Reach(fn, nil, an.NewBlocker(locks...))[g] {
				o.FailAt(g, "cache.get is reachable without the per-key lock: two callers would both compute and one result be superseded")
			}
		}
	})

	c.Check("R-POST", "run: a failed computation releases its fresh node; Rerunner.run/Stop release the superseded computation", 4, func(o *an.O) {
		fn := c.NeedFunc(rx, "run")
		// dynamic call f(childCtx)
		var fcall ssa.Instruction
		an.Instrs(fn, func(i ssa.Instruction) {
			if cc := an.CallOf(i); cc != nil && cc.Value == fn.Params[1] {
				fcall = i
			}
		})
		an.Need(fcall != nil, "f(childCtx) call in run")
		o.Site(fcall)
		rel := goCallsTo(fn, an.Mod(rx, "node", "release"))
		rel = append(rel, an.Calls(fn, an.Mod(rx, "node", "release"))...)
		blk := an.NewBlocker(rel...)
		for _, e := range an.ErrResult(fcall.(ssa.Value)) {
			for _, nt := range an.NilTests(fn, e) {
				blk.AddEdge(nt.If.Block(), nt.NilSucc)
			}
		}
		if e := an.ReachableAvoiding(fn, fcall, blk, an.Exits(fn, false)); e != nil {
			o.FailAt(e, "on the error path run returns without releasing the fresh computation's node: its resources are never cleaned up")
		}
		// Rerunner.run & Stop: before r.computation is overwritten, the old one is released (if non-nil)
		for _, nm := range []string{"(*Rerunner).run", "(*Rerunner).Stop"} {
			f2 := c.NeedFunc(rx, nm)
			r := f2.Params[0].Name()
			rels := goCallsTo(f2, an.Mod(rx, "node", "release"))
			var good []ssa.Instruction
			for _, g := range rels {
				if an.Expr(an.CallOf(g).Args[0]) == "&"+r+".computation.node" {
					good = append(good, g)
				}
			}
			b3 := an.NewBlocker(good...)
			for _, ci := range an.CondIfs(f2, func(v ssa.Value) bool { return an.Expr(v) == "("+r+".computation != nil)" }) {
				b3.AddEdge(ci.If.Block(), ci.False)
			}
			for _, ci := range an.CondIfs(f2, func(v ssa.Value) bool { return an.Expr(v) == "("+r+".computation == nil)" }) {
				b3.AddEdge(ci.If.Block(), ci.True)
			}
			var overwrites []ssa.Instruction
			for _, ref := range an.FieldRefs(f2, rxPath(), "Rerunner", "computation") {
				if ref.Kind == "store" {
					overwrites = append(overwrites, ref.Instr)
				}
			}
			if len(overwrites) == 0 {
				o.Fail(p.Pos(f2.Pos()), "%s does not replace r.computation", nm)
				continue
			}
			reach := an.Reach(f2, nil, b3)
			for _, w := range overwrites {
				o.Site(w)
				if reach[w] {
					o.FailAt(w, "%s overwrites r.computation without releasing the previous non-nil computation", nm)
				}
			}
			if nm == "(*Rerunner).Stop" {
				// every path: release or nil
				b4 := an.NewBlocker(good...)
				for _, ci := range an.CondIfs(f2, func(v ssa.Value) bool { return an.Expr(v) == "("+r+".computation != nil)" }) {
					b4.AddEdge(ci.If.Block(), ci.False)
				}
				if e := an.ReachableAvoiding(f2, nil, b4, an.Exits(f2, false)); e != nil {
					o.FailAt(e, "Stop can return without releasing a non-nil computation")
				}
			}
		}
	})

	c.Check("R-GUARD", "node.release: invalidate first; released flips once under mu; afterRelease only on the flipping path; in-edges removed under the dependency's lock, recursion iff out became empty", 6, func(o *an.O) {
		fn := c.NeedFunc(rx, "(*node).release")
		ls := an.ComputeLocks(fn, nil)
		n := fn.Params[0].Name()
		var store ssa.Instruction
		var self ssa.Value // the node whose flag flips (the receiver, or the current node of a work list)
		baseOf := func(addr ssa.Value) ssa.Value {
			if fa, ok := addr.(*ssa.FieldAddr); ok {
				return fa.X
			}
			return nil
		}
		for _, ref := range an.FieldRefs(fn, rxPath(), "node", "released") {
			o.Site(ref.Instr)
			base := baseOf(ref.Addr)
			if base == nil {
				o.FailAt(ref.Instr, "node.released accessed through something other than a field of a node")
				continue
			}
			if _, ok := ls.HeldOn(ref.Instr, base, "mu"); !ok {
				o.FailAt(ref.Instr, "%s.released accessed without %s.mu", an.Expr(base), an.Expr(base))
			}
			if ref.Kind == "store" {
				store, self = ref.Instr, base
				if !an.HasGuard(store.Block(), "!"+an.Expr(base)+".released") {
					o.FailAt(store, "released set without testing it first: cleanup could run twice")
				}
			}
		}
		if store == nil {
			o.Fail(p.Pos(fn.Pos()), "release never sets the released flag")
			return
		}
		n = an.Expr(self)
		inv := an.Calls(fn, an.Mod(rx, "node", "invalidate"))
		var selfInv []ssa.Instruction
		for _, i := range inv {
			if a0 := an.CallOf(i).Args[0]; a0 == self || an.Expr(a0) == an.Expr(self) {
				if _, isCall := i.(*ssa.Call); isCall {
					selfInv = append(selfInv, i)
				}
			}
		}
		if an.Reach(fn, nil, an.NewBlocker(selfInv...))[store] {
			o.FailAt(store, "a node is marked released without having been invalidated first: a cached value that depends on it would still be served (cleanInvalidated only evicts invalidated nodes) although its resources are gone")
		}
		for _, i := range selfInv {
			o.Site(i)
		}
		// afterRelease only reachable through the store
		ar := an.DynCallsThrough(fn, "node", "afterRelease")
		if len(ar) == 0 {
			o.Fail(p.Pos(fn.Pos()), "release never calls afterRelease: cleanup callbacks would not run")
		}
		for _, a := range ar {
			o.Site(a)
			if an.Reach(fn, nil, an.NewBlocker(store))[a] {
				o.FailAt(a, "afterRelease is reachable without flipping the released flag: cleanup could run more than once")
			}
			if len(ls.HeldAt(a)) > 0 {
				o.FailAt(a, "afterRelease called while holding %v", ls.HeldAt(a))
			}
		}
		// after the store every return passes afterRelease (or its nil test)
		b2 := an.NewBlocker(ar...)
		for _, ref := range an.FieldRefs(fn, rxPath(), "node", "afterRelease") {
			if ref.Kind == "load" {
				for _, nt := range an.NilTests(fn, ref.Instr.(ssa.Value)) {
					b2.AddEdge(nt.If.Block(), nt.NilSucc)
				}
			}
		}
		if e := an.ReachableAvoiding(fn, store, b2, an.Exits(fn, false)); e != nil {
			o.FailAt(e, "a return is reachable after flipping released without calling a non-nil afterRelease")
		}
		// in-edge removal
		var del ssa.Instruction
		an.Instrs(fn, func(i ssa.Instruction) {
			if cc := an.CallOf(i); cc != nil {
				if b, ok := cc.Value.(*ssa.Builtin); ok && b.Name() == "delete" {
					del = i
				}
			}
		})
		if del == nil {
			o.Fail(p.Pos(fn.Pos()), "release does not remove itself from its dependencies' out sets")
			return
		}
		o.Site(del)
		dc := an.CallOf(del)
		outPath := an.PathOf(dc.Args[0]) // from.out
		if outPath == "" {
			outPath = an.Expr(dc.Args[0])
		}
		if !strings.HasSuffix(outPath, ".out") || (dc.Args[1] != self && an.Expr(dc.Args[1]) != n) {
			o.FailAt(del, "unexpected delete(%s, %s); expected delete(from.out, %s)", an.Expr(dc.Args[0]), an.Expr(dc.Args[1]), n)
			return
		}
		from := strings.TrimSuffix(outPath, ".out")
		if from == "" {
			// `from` is a loop variable without a path; use the lock held
			from = "?"
		}
		held := nodeLocksHeld(ls, del)
		if len(held) != 1 {
			o.FailAt(del, "delete from the dependency's out set must hold exactly the dependency's lock; held: %v", held)
			return
		}
		fromMu := held[0]
		if fromMu == n+".mu" {
			o.FailAt(del, "delete(from.out, n) holds n.mu rather than from.mu")
		}
		if an.LoopHeaderOf(del) == nil {
			o.FailAt(del, "in-edge removal is not in a loop over n.in")
		}
		// recursive release guarded by len(from.out)==0 computed after the delete in the same section
		var rec []ssa.Instruction
		for _, i := range an.Calls(fn, an.Mod(rx, "node", "release")) {
			rec = append(rec, i)
		}
		if len(rec) == 0 {
			// work-list form: the dependency is queued instead of released recursively
			fromV := baseOf(dc.Args[0].(*ssa.UnOp).X)
			an.Instrs(fn, func(i ssa.Instruction) {
				call, ok := i.(*ssa.Call)
				if !ok {
					return
				}
				if b, ok := call.Call.Value.(*ssa.Builtin); ok && b.Name() == "append" {
					if el := singleElem(call.Call.Args[1]); el != nil && fromV != nil && (el == fromV || an.Expr(el) == an.Expr(fromV)) {
						rec = append(rec, i)
					}
				}
			})
		}
		if len(rec) == 0 {
			o.Fail(p.Pos(fn.Pos()), "release never releases a dependency whose out set became empty")
			return
		}
		for _, r := range rec {
			o.Site(r)
			okG := false
			for _, g := range an.GuardsOf(r.Block()) {
				if !g.Polarity {
					continue
				}
				s := an.Expr(g.Cond)
				if strings.HasPrefix(s, "(len(") && strings.HasSuffix(s, ".out) == 0)") {
					okG = true
					for _, ld := range an.LeafLoads(g.Cond) {
						if !ls.Held(ld, fromMu) {
							o.FailAt(ld, "emptiness of the dependency's out set is evaluated outside its lock")
						} else if !an.Reach(fn, del, nil)[ld] || !ls.SameSection(del, ld, fromMu) {
							o.FailAt(ld, "emptiness of the out set is not evaluated after the delete in the same critical section: two releasers could both (or neither) see it empty")
						}
					}
				}
			}
			if !okG {
				o.FailAt(r, "recursive release is not guarded by len(from.out) == 0 (guards: %v)", an.GuardStrings(r.Block()))
			}
		}
	})

	c.Check("R-GUARD", "node.addOut: no edge to a released node; n released when its out set stays empty (decided under the locks)", 2, func(o *an.O) {
		fn := c.NeedFunc(rx, "(*node).addOut")
		ls := an.ComputeLocks(fn, nil)
		n := fn.Params[0].Name()
		gr := goCallsTo(fn, an.Mod(rx, "node", "release"))
		if len(gr) != 1 {
			o.Fail(p.Pos(fn.Pos()), "expected one `go n.release()` in addOut, found %d (a resource whose only dependant was already released would never be cleaned up)", len(gr))
			return
		}
		an.Instrs(fn, func(i ssa.Instruction) {
			if mu, ok := i.(*ssa.MapUpdate); ok && an.PathOf(mu.Map) == n+".out" {
				o.Site(i)
				if !an.HasGuard(i.Block(), "!"+fn.Params[1].Name()+".released") {
					o.FailAt(i, "edge inserted without testing to.released: a released computation would be kept referenced and the resource never cleaned up")
				}
			}
		})
		g := gr[0]
		o.Site(g)
		if an.PathOf(an.CallOf(g).Args[0]) != n {
			o.FailAt(g, "release started on %s instead of %s", an.Expr(an.CallOf(g).Args[0]), n)
		}
		okG := false
		for _, gd := range an.GuardsOf(g.Block()) {
			if gd.Polarity && an.Expr(gd.Cond) == "(len("+n+".out) == 0)" {
				okG = true
				for _, ld := range an.LeafLoads(gd.Cond) {
					o.Site(ld)
					if !ls.Held(ld, n+".mu") {
						o.FailAt(ld, "len(%s.out) read without %s.mu", n, n)
					}
				}
			}
		}
		if !okG {
			o.FailAt(g, "release of n is not guarded by len(n.out) == 0 (guards: %v)", an.GuardStrings(g.Block()))
		}
	})

	c.Check("R-BOOL", "node.handleRelease: fires at once if already released, else stores the handler, atomically under n.mu", 3, func(o *an.O) {
		fn := c.NeedFunc(rx, "(*node).handleRelease")
		ls := an.ComputeLocks(fn, nil)
		n := fn.Params[0].Name()
		f := fn.Params[1]
		gos, stores := 0, 0
		an.Instrs(fn, func(i ssa.Instruction) {
			if g, ok := i.(*ssa.Go); ok && g.Call.Value == f {
				gos++
				o.Site(i)
				if !an.HasGuard(i.Block(), n+".released") {
					o.FailAt(i, "cleanup handler started without the node being released")
				}
			}
		})
		for _, r := range an.FieldRefs(fn, rxPath(), "node", "afterRelease") {
			if r.Kind == "store" {
				stores++
				o.Site(r.Instr)
				if r.Val != f || !an.HasGuard(r.Instr.Block(), "!"+n+".released") || !ls.Held(r.Instr, n+".mu") {
					o.FailAt(r.Instr, "handler must be stored under n.mu exactly when the node is not yet released")
				}
			}
		}
		for _, r := range an.FieldRefs(fn, rxPath(), "node", "released") {
			if r.Kind == "load" {
				o.Site(r.Instr)
				if !ls.Held(r.Instr, n+".mu") {
					o.FailAt(r.Instr, "released read without n.mu")
				}
			}
		}
		if gos != 1 || stores != 1 {
			o.Fail(p.Pos(fn.Pos()), "handleRelease needs both branches (go f() when released, store otherwise); found %d/%d", gos, stores)
		}
	})

	c.Check("R-POST", "InvalidateAfter: timer Stop registered as Cleanup and the dependency always added; Resource.Cleanup -> handleRelease", 3, func(o *an.O) {
		fn := c.NeedFunc(rx, "InvalidateAfter")
		cl := an.Calls(fn, an.Mod(rx, "Resource", "Cleanup"))
		ad := an.Calls(fn, an.Mod(rx, "", "AddDependency"))
		if why := an.ExactlyOnce(fn, ad); why != "" {
			o.Fail(p.Pos(fn.Pos()), "InvalidateAfter: AddDependency: %s", why)
		}
		if why := an.ExactlyOnce(fn, cl); why != "" {
			o.Fail(p.Pos(fn.Pos()), "InvalidateAfter: Cleanup: %s (the timer would never be stopped)", why)
		}
		for _, i := range cl {
			o.Site(i)
			cc := an.CallOf(i)
			mc, ok := cc.Args[1].(*ssa.MakeClosure)
			stops := false
			if ok {
				an.Instrs(mc.Fn.(*ssa.Function), func(j ssa.Instruction) {
					if c2 := an.CallOf(j); c2 != nil && (an.CalleeSpec{Pkg: "time", Recv: "Timer", Name: "Stop"}).Matches(c2) {
						stops = true
					}
				})
			}
			if !stops {
				o.FailAt(i, "the cleanup callback does not stop the timer")
			}
		}
		for _, i := range ad {
			o.Site(i)
			// same resource as the cleanup
			if len(cl) == 1 && an.CallOf(i).Args[1] != an.CallOf(cl[0]).Args[0] {
				o.FailAt(i, "AddDependency uses a different resource than the one carrying the cleanup")
			}
		}
		// the timer invalidates the same resource
		okTimer := false
		an.Instrs(fn, func(i ssa.Instruction) {
			if cc := an.CallOf(i); cc != nil && (an.CalleeSpec{Pkg: "time", Name: "AfterFunc"}).Matches(cc) {
				if mc, ok := cc.Args[1].(*ssa.MakeClosure); ok && strings.Contains(mc.Fn.Name(), "Invalidate") && len(cl) == 1 && len(mc.Bindings) == 1 && mc.Bindings[0] == an.CallOf(cl[0]).Args[0] {
					okTimer = true
				}
			}
		})
		if !okTimer {
			o.Fail(p.Pos(fn.Pos()), "time.AfterFunc does not invalidate the resource that is registered")
		}
		cf := c.NeedFunc(rx, "(*Resource).Cleanup")
		hr := an.Calls(cf, an.Mod(rx, "node", "handleRelease"))
		if why := an.ExactlyOnce(cf, hr); why != "" {
			o.Fail(p.Pos(cf.Pos()), "Resource.Cleanup: handleRelease: %s", why)
		}
		for _, i := range hr {
			o.Site(i)
		}
	})
	_ = types.Typ
}
