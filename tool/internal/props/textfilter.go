package props

import (
	"fmt"
	"go/token"
	"go/types"

	"golang.org/x/tools/go/ssa"

	"thunderlint/internal/an"
)

// ruleTextFilterTable (C11): applyTextFilter decides which elements of the list
// survive a text filter, in three concurrent passes (plain, expensive and batch
// filter fields), and pagination only ever sees the survivors. Evaluated under
// every assignment of its predicates:
//
//	no / empty filter text                          -> the list is returned as it is
//	filter field not selected                       -> in no pass
//	selected: Batch && UseBatchFunc(ctx)            -> batch pass only
//	selected, otherwise: Expensive                  -> expensive pass only
//	selected, otherwise                             -> plain pass only
//	a pass has at least one field                   -> it runs
//	an element survives                             <=> one of the three passes kept it
//	the search tokens come from the default tokenizer when no filter type is given
func ruleTextFilterTable(c *an.Ctx, o *an.O) {
	p := c.P
	fn := c.NeedFunc(sbp, "(*connectionContext).applyTextFilter")
	type pass struct {
		name                       string
		worker                     an.CalleeSpec
		goCall                     ssa.Instruction
		mapCell, keepCell, tokCell ssa.Value
		inserts                    []ssa.Instruction
	}
	passes := []*pass{
		{name: "plain", worker: an.Mod(sbp, "connectionContext", "applyTextFilterNotBatched")},
		{name: "expensive", worker: an.Mod(sbp, "connectionContext", "applyTextFilterNotBatchedExpensive")},
		{name: "batch", worker: an.Mod(sbp, "connectionContext", "applyBatchTextFilter")},
	}
	// the closures handed to errgroup.Go
	an.Instrs(fn, func(i ssa.Instruction) {
		call, ok := i.(*ssa.Call)
		if !ok {
			return
		}
		f := an.CalleeFunc(&call.Call)
		if f == nil || f.Name() != "Go" || len(call.Call.Args) < 2 {
			return
		}
		mc, ok := call.Call.Args[1].(*ssa.MakeClosure)
		if !ok {
			return
		}
		cl := mc.Fn.(*ssa.Function)
		binding := func(v ssa.Value) ssa.Value { // value in the closure -> cell in the parent
			ld, ok := v.(*ssa.UnOp)
			if !ok || ld.Op != token.MUL {
				return nil
			}
			fv, ok := ld.X.(*ssa.FreeVar)
			if !ok {
				return nil
			}
			for k, x := range cl.FreeVars {
				if x == fv && k < len(mc.Bindings) {
					return mc.Bindings[k]
				}
			}
			return nil
		}
		for _, ps := range passes {
			ws := an.Calls(cl, ps.worker)
			if len(ws) != 1 {
				continue
			}
			wc := an.CallOf(ws[0])
			if len(wc.Args) < 8 {
				continue
			}
			ps.goCall = i
			ps.tokCell = binding(wc.Args[3])
			ps.mapCell = binding(wc.Args[5])
			ps.keepCell = binding(wc.Args[6])
			o.Site(i)
		}
	})
	for _, ps := range passes {
		if ps.goCall == nil || ps.mapCell == nil || ps.keepCell == nil {
			o.Fail(p.Pos(fn.Pos()), "applyTextFilter no longer runs the %s filter pass with its own field map and keep-flags", ps.name)
			return
		}
	}
	for a := 0; a < 3; a++ {
		for b := a + 1; b < 3; b++ {
			if passes[a].mapCell == passes[b].mapCell || passes[a].keepCell == passes[b].keepCell {
				o.FailAt(passes[b].goCall, "the %s and %s filter passes share a field map or a keep-flag slice: one overwrites the other's verdicts", passes[a].name, passes[b].name)
			}
		}
	}
	loadOf := func(v ssa.Value, cell ssa.Value) bool {
		ld, ok := v.(*ssa.UnOp)
		return ok && ld.Op == token.MUL && ld.X == cell
	}
	passOfMap := func(v ssa.Value) *pass {
		for _, ps := range passes {
			if loadOf(v, ps.mapCell) {
				return ps
			}
		}
		return nil
	}
	passOfKeep := func(v ssa.Value) *pass { // keep[i]
		ld, ok := v.(*ssa.UnOp)
		if !ok || ld.Op != token.MUL {
			return nil
		}
		ia, ok := ld.X.(*ssa.IndexAddr)
		if !ok {
			return nil
		}
		for _, ps := range passes {
			if loadOf(ia.X, ps.keepCell) {
				return ps
			}
		}
		return nil
	}
	var selLookup *ssa.Lookup // filterFields[name]
	var wait ssa.Instruction
	var keepAppend ssa.Instruction
	var tokLookup *ssa.Lookup
	an.Instrs(fn, func(i ssa.Instruction) {
		switch x := i.(type) {
		case *ssa.MapUpdate:
			if ps := passOfMap(x.Map); ps != nil {
				ps.inserts = append(ps.inserts, i)
			}
		case *ssa.Lookup:
			if x.CommaOk {
				// the set of selected field names: a map[string]bool consulted with comma-ok
				if mt, ok := x.X.Type().Underlying().(*types.Map); ok {
					if b, ok := mt.Elem().Underlying().(*types.Basic); ok && b.Kind() == types.Bool {
						selLookup = x
					}
				}
				if an.IsFieldAccess(x.X, "connectionContext", "TokenizeSearchFunctions") {
					tokLookup = x
				}
			}
		case *ssa.Call:
			if f := an.CalleeFunc(&x.Call); f != nil && f.Name() == "Wait" {
				wait = i
			}
			if b, ok := x.Call.Value.(*ssa.Builtin); ok && b.Name() == "append" && an.LoopHeaderOf(i) != nil && wait != nil {
				keepAppend = i
			}
		}
	})
	if wait == nil {
		o.Fail(p.Pos(fn.Pos()), "applyTextFilter no longer waits for its filter passes")
		return
	}
	// (when the selection is not a set lookup - e.g. a search in a list - it is left open: both
	// outcomes are explored, and only "an unselected field is in no pass" is then not decided)
	selKnown := selLookup != nil
	// the append that builds the survivors: after Wait, in a loop
	keepAppend = nil
	an.Instrs(fn, func(i ssa.Instruction) {
		if call, ok := i.(*ssa.Call); ok {
			if b, ok := call.Call.Value.(*ssa.Builtin); ok && b.Name() == "append" && an.LoopHeaderOf(i) != nil && wait.Block().Dominates(i.Block()) {
				keepAppend = i
			}
		}
	})
	if keepAppend == nil {
		o.Fail(p.Pos(fn.Pos()), "applyTextFilter does not build the list of survivors after the passes finished")
		return
	}
	o.Site(keepAppend)

	type scen struct {
		textNil, textEmpty                   bool
		selected, batch, useBatch, expensive bool
		n                                    map[*pass]int64
		keep                                 map[*pass]bool
		typeNil, tokFound                    bool
	}
	counts := map[string]int{}
	run := func(sc scen) (*an.BoolSim, map[*ssa.BasicBlock]bool) {
		sim := &an.BoolSim{Fn: fn, Atom: func(v ssa.Value) (bool, bool) {
			if ps := passOfKeep(v); ps != nil {
				counts["keep"]++
				return sc.keep[ps], true
			}
			switch x := v.(type) {
			case *ssa.Extract:
				if x.Index == 1 && selLookup != nil && x.Tuple == ssa.Value(selLookup) {
					counts["selected"]++
					return sc.selected, true
				}
				if x.Index == 1 && tokLookup != nil && x.Tuple == ssa.Value(tokLookup) {
					counts["tokFound"]++
					return sc.tokFound, true
				}
			case *ssa.UnOp:
				if x.Op == token.MUL && an.IsFieldAccess(x.X, "Field", "Batch") {
					counts["batch"]++
					return sc.batch, true
				}
				if x.Op == token.MUL && an.IsFieldAccess(x.X, "Field", "Expensive") {
					counts["expensive"]++
					return sc.expensive, true
				}
			case *ssa.Call:
				if !x.Call.IsInvoke() && x.Call.StaticCallee() == nil && an.IsFieldAccess(x.Call.Value, "Field", "UseBatchFunc") {
					counts["useBatch"]++
					return sc.useBatch, true
				}
			case *ssa.BinOp:
				for k, pr := range [][2]ssa.Value{{x.X, x.Y}, {x.Y, x.X}} {
					a, b := pr[0], pr[1]
					if call, ok := a.(*ssa.Call); ok {
						if bi, ok := call.Call.Value.(*ssa.Builtin); ok && bi.Name() == "len" {
							if ps := passOfMap(call.Call.Args[0]); ps != nil {
								if cv, ok := an.ConstInt(b); ok {
									counts["nonEmpty"]++
									l, r := sc.n[ps], cv
									if k == 1 {
										l, r = r, l
									}
									switch x.Op {
									case token.EQL:
										return l == r, true
									case token.NEQ:
										return l != r, true
									case token.LSS:
										return l < r, true
									case token.LEQ:
										return l <= r, true
									case token.GTR:
										return l > r, true
									case token.GEQ:
										return l >= r, true
									}
								}
							}
						}
					}
					if x.Op != token.EQL && x.Op != token.NEQ {
						continue
					}
					eq := x.Op == token.EQL
					if isConstNil(b) && an.IsFieldAccess(a, "PaginationArgs", "FilterText") {
						counts["textNil"]++
						return sc.textNil == eq, true
					}
					if isConstNil(b) && an.IsFieldAccess(a, "PaginationArgs", "FilterType") {
						counts["typeNil"]++
						return sc.typeNil == eq, true
					}
					if s, ok := an.ConstString(b); ok && s == "" {
						if ld, ok := a.(*ssa.UnOp); ok && ld.Op == token.MUL && an.IsFieldAccess(ld.X, "PaginationArgs", "FilterText") {
							counts["textEmpty"]++
							return sc.textEmpty == eq, true
						}
					}
				}
			}
			return false, false
		}}
		return sim, sim.Run()
	}
	hasText := scen{n: map[*pass]int64{}, keep: map[*pass]bool{}}
	// 1. without a filter text the list is returned as it is
	for _, sc := range []scen{{textNil: true}, {textNil: true, textEmpty: true}, {textEmpty: true}} {
		sc.n, sc.keep = hasText.n, hasText.keep
		if _, r := run(sc); r[wait.Block()] {
			o.FailAt(wait, "without a filter text (nil: %v, empty: %v) the list is filtered anyway", sc.textNil, sc.textEmpty)
		}
	}
	if _, r := run(hasText); !r[wait.Block()] {
		o.FailAt(wait, "with a non-empty filter text the list is returned unfiltered")
	}
	// 2. classification of the filter fields
	for m := 0; m < 16; m++ {
		sc := hasText
		sc.selected, sc.batch, sc.useBatch, sc.expensive = m&1 != 0, m&2 != 0, m&4 != 0, m&8 != 0
		// plain and expensive fields are evaluated the same way (the expensive pass only limits
		// concurrency), so which of the two a non-batch field lands in does not change the survivors
		_, r := run(sc)
		got := map[*pass]bool{}
		for _, ps := range passes {
			for _, ins := range ps.inserts {
				if r[ins.Block()] {
					got[ps] = true
				}
			}
		}
		desc := fmt.Sprintf("selected: %v, Batch: %v, UseBatchFunc: %v, Expensive: %v", sc.selected, sc.batch, sc.useBatch, sc.expensive)
		switch {
		case !selKnown && !sc.selected:
			// covered by the runs with selected = true (the selection forks)
		case !sc.selected:
			if len(got) > 0 {
				o.FailAt(passes[0].goCall, "a filter field the caller did not select (%s) is put into a pass: it decides which elements survive", desc)
			}
		case sc.batch && sc.useBatch:
			if !got[passes[2]] || got[passes[0]] || got[passes[1]] {
				o.FailAt(passes[2].goCall, "a batch filter field (%s) must go into the batch pass only (plain: %v, expensive: %v, batch: %v): it has no per-element resolver", desc, got[passes[0]], got[passes[1]], got[passes[2]])
			}
		default:
			if got[passes[2]] || got[passes[0]] == got[passes[1]] {
				o.FailAt(passes[0].goCall, "a non-batch filter field (%s) must go into exactly one of the per-element passes (plain: %v, expensive: %v, batch: %v): elements that match only through it are dropped", desc, got[passes[0]], got[passes[1]], got[passes[2]])
			}
		}
	}
	// 3. a pass runs exactly when it has a field
	for m := 0; m < 8; m++ {
		sc := hasText
		sc.n = map[*pass]int64{}
		for k, ps := range passes {
			if m&(1<<k) != 0 {
				sc.n[ps] = 1
			}
		}
		_, r := run(sc)
		for _, ps := range passes {
			// (a pass started without fields only does nothing; the other direction is what matters)
			if got, want := r[ps.goCall.Block()], sc.n[ps] > 0; want && !got {
				o.FailAt(ps.goCall, "the %s pass does not run although it has %d filter field(s): elements that match only through these fields are dropped", ps.name, sc.n[ps])
			}
		}
	}
	// 4. an element survives iff one pass kept it
	for m := 0; m < 8; m++ {
		sc := hasText
		sc.keep = map[*pass]bool{}
		any := false
		for k, ps := range passes {
			if m&(1<<k) != 0 {
				sc.keep[ps] = true
				any = true
			}
		}
		if _, r := run(sc); r[keepAppend.Block()] != any {
			o.FailAt(keepAppend, "an element with verdicts plain:%v expensive:%v batch:%v is %s", sc.keep[passes[0]], sc.keep[passes[1]], sc.keep[passes[2]], map[bool]string{true: "dropped although a pass kept it", false: "kept although no pass kept it"}[any])
		}
	}
	// 5. the search tokens
	tokCell := passes[0].tokCell
	if tokCell == nil || passes[1].tokCell != tokCell || passes[2].tokCell != tokCell {
		o.FailAt(passes[0].goCall, "the three passes do not search for the same tokens")
	} else {
		// what is stored into the tokens variable: call results (directly, or through the phi of an
		// inlined helper's returns)
		var defCall, fnCall *ssa.Call
		an.Instrs(fn, func(i ssa.Instruction) {
			st, ok := i.(*ssa.Store)
			if !ok || st.Addr != tokCell {
				return
			}
			for _, leaf := range phiLeaves(st.Val) {
				if call, ok := leaf.(*ssa.Call); ok {
					if call.Call.StaticCallee() != nil {
						defCall = call
					} else {
						fnCall = call
					}
				}
			}
		})
		if defCall == nil {
			o.FailAt(passes[0].goCall, "the default search tokens are never computed: with no tokens every element passes the default filter")
		} else {
			sc := hasText
			sc.typeNil = true
			if _, r := run(sc); !r[defCall.Block()] {
				o.FailAt(defCall, "without a filter type the default search tokens are not used")
			}
		}
		if fnCall != nil {
			sc := hasText
			sc.tokFound = true
			if _, r := run(sc); !r[fnCall.Block()] {
				o.FailAt(fnCall, "a registered tokenizer for the requested filter type is not used")
			}
		}
	}
	if !selKnown {
		o.Note("the selection of filter fields is not a set lookup; 'an unselected field is in no pass' is not decided")
		counts["selected"]++
	}
	for _, k := range []string{"selected", "batch", "useBatch", "expensive", "nonEmpty", "keep", "textNil", "textEmpty", "typeNil"} {
		if counts[k] == 0 {
			o.Undecided("applyTextFilter: no test of %q found (the table could not be evaluated)", k)
		}
	}
}
