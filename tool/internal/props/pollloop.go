package props

import (
	"go/token"
	"go/types"

	"golang.org/x/tools/go/ssa"

	"thunderlint/internal/an"
)

// rulePollLoopTable (C07): the decisions of Binlog.RunPollLoop evaluated under every
// assignment of their named predicates.
//
// rows event:       foreign database                      -> nothing is sent
//
//	own database, decoded               -> the decoded update is sent (no error update is built)
//	own database, "no descriptor" error -> nothing is sent (the table is not registered)
//	own database, "database closed"     -> nothing is sent
//	own database, any other error       -> an update{table, err} is built and sent
//
// table-map event:  own database and (unseen table or changed table id) -> the cached column map is dropped
func rulePollLoopTable(c *an.Ctx, o *an.O) {
	p := c.P
	fn := c.NeedFunc(lsq, "(*Binlog).RunPollLoop")
	parses := an.Calls(fn, an.Mod(lsq, "Binlog", "parseBinlogRowsEvent"))
	an.Need(len(parses) == 1, "parseBinlogRowsEvent call in RunPollLoop")
	parse := parses[0]
	errv := extractOf(parse.(ssa.Value), 1)
	an.Need(errv != nil, "error result of parseBinlogRowsEvent")
	var sends []ssa.Instruction
	for _, op := range an.ChanOps(fn) {
		if op.Kind == "send" || op.Kind == "select-send" {
			sends = append(sends, op.Instr)
		}
	}
	an.Need(len(sends) > 0, "send of the update in RunPollLoop")
	var errLits []an.Lit
	for _, l := range an.StructLits(fn, "update") {
		if l.Fields["err"] != nil {
			errLits = append(errLits, l)
		}
	}
	var flush []ssa.Instruction
	var versionLookup *ssa.Lookup
	an.Instrs(fn, func(i ssa.Instruction) {
		switch x := i.(type) {
		case *ssa.Call:
			if b, ok := x.Call.Value.(*ssa.Builtin); ok && b.Name() == "delete" && an.IsFieldAccess(x.Call.Args[0], "Binlog", "columnMaps") {
				flush = append(flush, i)
			}
		case *ssa.Lookup:
			if x.CommaOk && an.IsFieldAccess(x.X, "Binlog", "tableVersions") {
				versionLookup = x
			}
		}
	})

	isErrCall := func(v ssa.Value) bool { // errv.Error()
		call, ok := v.(*ssa.Call)
		return ok && call.Call.IsInvoke() && call.Call.Method.Name() == "Error" && call.Call.Value == errv
	}
	isErrGlobal := func(v ssa.Value) bool {
		ld, ok := v.(*ssa.UnOp)
		if !ok || ld.Op != token.MUL {
			return false
		}
		g, ok := ld.X.(*ssa.Global)
		return ok && g.Pkg != nil && g.Pkg.Pkg.Path() == an.ModulePath+"/"+lsq && an.IsErrorType(g.Type().(*types.Pointer).Elem())
	}
	counts := map[string]int{}
	const (
		kNil = iota
		kNoDesc
		kClosed
		kOther
	)
	type scenario struct {
		own           bool
		kind          int
		found, differ bool
	}
	var lastSim *an.BoolSim
	run := func(sc scenario, stop []ssa.Instruction) map[*ssa.BasicBlock]bool {
		sim := &an.BoolSim{Fn: fn, Atom: func(v ssa.Value) (bool, bool) {
			switch x := v.(type) {
			case *ssa.Extract:
				if versionLookup != nil && x.Tuple == ssa.Value(versionLookup) && x.Index == 1 {
					counts["found"]++
					return sc.found, true
				}
			case *ssa.BinOp:
				if x.Op != token.EQL && x.Op != token.NEQ {
					return false, false
				}
				eq := x.Op == token.EQL
				for _, pr := range [][2]ssa.Value{{x.X, x.Y}, {x.Y, x.X}} {
					a, b := pr[0], pr[1]
					switch {
					case an.IsFieldAccess(a, "Binlog", "database"):
						counts["own"]++
						return sc.own == eq, true
					case a == errv && isConstNil(b):
						counts["nil"]++
						return (sc.kind == kNil) == eq, true
					case a == errv && isErrGlobal(b):
						counts["nodesc"]++
						return (sc.kind == kNoDesc) == eq, true
					case isErrCall(a):
						if _, ok := an.ConstString(b); ok {
							counts["closed"]++
							return (sc.kind == kClosed) == eq, true
						}
					}
					// the event's table id compared with (a part of) the recorded version
					if an.IsFieldAccess(a, "TableMapEvent", "TableID") && versionLookup != nil && derivedFromLookup(b, versionLookup) {
						counts["differ"]++
						return sc.differ != eq, true
					}
				}
			}
			return false, false
		}}
		if len(stop) > 0 {
			sim.Stop = map[ssa.Instruction]bool{}
			for _, s := range stop {
				sim.Stop[s] = true
			}
		}
		lastSim = sim
		return sim.Run()
	}
	reachedAny := func(r map[*ssa.BasicBlock]bool, is []ssa.Instruction) bool {
		for _, i := range is {
			if r[i.Block()] {
				return true
			}
		}
		return false
	}
	var litAllocs []ssa.Instruction
	for _, l := range errLits {
		litAllocs = append(litAllocs, l.Alloc)
	}
	for _, s := range sends {
		o.Site(s)
	}
	kindName := []string{"decoded without error", "'no descriptor' (table not registered)", "'database is closed'", "an arbitrary decode error"}
	for kind := kNil; kind <= kOther; kind++ {
		// foreign database: never delivered
		if r := run(scenario{own: false, kind: kind}, nil); reachedAny(r, sends) {
			o.FailAt(sends[0], "a rows event of another database is delivered to the tracker (parse result: %s)", kindName[kind])
		}
		r := run(scenario{own: true, kind: kind}, nil)
		sent := reachedAny(r, sends)
		built := reachedAny(r, litAllocs)
		switch kind {
		case kNil:
			if !sent {
				o.FailAt(parse, "a rows event of the configured database that was decoded without error is not delivered: every live query on that table misses the write")
			}
			if built {
				o.FailAt(litAllocs[0], "a successfully decoded rows event is replaced by an error update")
			}
		case kNoDesc, kClosed:
			if sent {
				o.FailAt(sends[0], "after parseBinlogRowsEvent failed with %s the poll loop still sends an update (the parse result is nil on that path)", kindName[kind])
			}
		case kOther:
			if !sent || !built {
				o.FailAt(parse, "a rows event that cannot be decoded is not turned into an update{table, err} and delivered (sent:%v built:%v): live queries on that table keep stale rows", sent, built)
			} else {
				sameBlock := false
				for _, l := range litAllocs {
					for _, s := range sends {
						if l.Block() == s.Block() {
							sameBlock = true
						}
					}
				}
				if !sameBlock {
					if r2 := run(scenario{own: true, kind: kind}, litAllocs); reachedAny(r2, sends) {
						o.FailAt(sends[0], "after an arbitrary decode error the poll loop can send without building the error update: the nil parse result is delivered")
					}
				}
			}
		}
	}
	for _, l := range errLits {
		o.Site(l.Alloc)
		if l.Fields["err"] != errv {
			o.FailAt(l.Alloc, "the error update carries %s, not the decode error", an.Expr(l.Fields["err"]))
		}
	}
	// what is sent: the parse result or the error update
	res0 := extractOf(parse.(ssa.Value), 0)
	for _, l := range an.StructLits(fn, "delayedUpdate") {
		u := l.Fields["update"]
		if u == nil {
			o.FailAt(l.Alloc, "a delayedUpdate without its update is sent")
			continue
		}
		for _, leaf := range phiLeaves(u) {
			ok := leaf == res0
			for _, el := range errLits {
				if leaf == ssa.Value(el.Alloc) {
					ok = true
				}
			}
			if !ok {
				o.FailAt(l.Alloc, "the update that is sent is %s: neither the decoded update nor the error update", an.Expr(leaf))
			}
		}
	}
	for _, k := range []string{"own", "nil", "nodesc", "closed"} {
		if counts[k] == 0 {
			o.Undecided("RunPollLoop: no test of predicate %q found (the table could not be evaluated)", k)
		}
	}

	// table-map events
	if len(flush) == 0 {
		o.Fail(p.Pos(fn.Pos()), "RunPollLoop no longer drops the cached column map of a table whose table-map event announces a new table id")
		return
	}
	o.Site(flush[0])
	// the part of the loop that handles table-map events: behind the successful type test
	var region *ssa.BasicBlock
	an.Instrs(fn, func(i ssa.Instruction) {
		ta, ok := i.(*ssa.TypeAssert)
		if !ok || region != nil {
			return
		}
		if n := an.NamedOf(ta.AssertedType); n == nil || n.Obj().Name() != "TableMapEvent" {
			return
		}
		if !ta.CommaOk {
			region = ta.Block()
			return
		}
		if okv := extractOf(ta, 1); okv != nil {
			for _, ci := range an.CondIfs(fn, func(v ssa.Value) bool { return v == okv }) {
				region = ci.True
			}
		}
	})
	an.Need(region != nil, "the table-map case of the poll loop")
	h := an.LoopHeaderOf(parse)
	an.Need(h != nil, "poll loop")
	for _, sc := range []scenario{{own: true, found: false, differ: false}, {own: true, found: false, differ: true}, {own: true, found: true, differ: true}} {
		if r := run(sc, nil); !reachedAny(r, flush) {
			o.FailAt(flush[0], "a table-map event of the configured database (table seen before: %v, table id changed: %v) does not drop the cached column map: rows are decoded with the stale column layout after a schema change", sc.found, sc.differ)
			continue
		}
		// ... and cannot go on to the next event without dropping it
		run(sc, flush)
		for k, pred := range h.Preds {
			if lastSim.In[h][k] && (pred == region || region.Dominates(pred)) {
				o.FailAt(flush[0], "a table-map event of the configured database (table seen before: %v, table id changed: %v) can be passed over without dropping the cached column map (the decision depends on something other than the table id): after a schema change that this other test does not notice, rows are decoded with the stale column layout", sc.found, sc.differ)
				break
			}
		}
	}
	// the new version is recorded when the id changed (otherwise every later event would flush again - harmless -
	// or, with a stale record, a change back to an older id would be missed)
	var records []ssa.Instruction
	an.Instrs(fn, func(i ssa.Instruction) {
		if mu, ok := i.(*ssa.MapUpdate); ok && an.IsFieldAccess(mu.Map, "Binlog", "tableVersions") {
			records = append(records, i)
		}
	})
	if versionLookup != nil {
		if len(records) == 0 {
			o.Fail(p.Pos(fn.Pos()), "the table id of a table-map event is compared with the recorded one but never recorded")
		} else if r := run(scenario{own: true, found: true, differ: true}, nil); !reachedAny(r, records) {
			o.FailAt(records[0], "a changed table id is not recorded")
		}
	}
	o.Note("table-map decision: %d found-tests, %d comparisons of the event's table id with the recorded version", counts["found"], counts["differ"])
}

// derivedFromLookup: v is the looked-up value of lk or a field of it.
func derivedFromLookup(v ssa.Value, lk *ssa.Lookup) bool {
	for {
		switch x := v.(type) {
		case *ssa.Extract:
			return x.Tuple == ssa.Value(lk) && x.Index == 0
		case *ssa.Field:
			v = x.X
		case *ssa.UnOp:
			v = x.X
		case *ssa.FieldAddr:
			v = x.X
		default:
			return false
		}
	}
}
