package props

import (
	"go/token"

	"golang.org/x/tools/go/ssa"

	"thunderlint/internal/an"
)

// ruleApplySortTable (C11): the decisions of applySort under every assignment of
// their predicates:
//
//	no SortBy                                     -> the list is returned as it is, nothing is resolved
//	unknown sort field                            -> error, nothing is resolved
//	known field, Batch && UseBatchFunc(ctx)       -> the batch resolver only
//	known field, otherwise                        -> the per-node resolver only
//	the order handed to the sort function is the requested one when given, the default otherwise
func ruleApplySortTable(c *an.Ctx, o *an.O) {
	p := c.P
	fn := c.NeedFunc(sbp, "(*connectionContext).applySort")
	var lookup *ssa.Lookup
	an.Instrs(fn, func(i ssa.Instruction) {
		if lk, ok := i.(*ssa.Lookup); ok && lk.CommaOk && an.IsFieldAccess(lk.X, "connectionContext", "SortFields") {
			lookup = lk
		}
	})
	if lookup == nil {
		o.Fail(p.Pos(fn.Pos()), "applySort no longer looks the requested sort field up in SortFields with a presence test")
		return
	}
	o.Site(lookup)
	// resolver calls, in applySort and its closures
	var batchCalls, nodeCalls []ssa.Instruction
	for _, g := range an.WithAnons(fn) {
		for _, i := range an.Calls(g, an.Mod(gq, "", "SafeExecuteBatchResolver")) {
			batchCalls = append(batchCalls, i)
		}
		for _, i := range an.Calls(g, an.Mod(sbp, "", "getSortReference")) {
			nodeCalls = append(nodeCalls, i)
		}
		for _, i := range an.Calls(g, an.Mod(gq, "", "SafeExecuteResolver")) {
			nodeCalls = append(nodeCalls, i)
		}
	}
	if len(batchCalls) == 0 || len(nodeCalls) == 0 {
		o.Fail(p.Pos(fn.Pos()), "applySort must resolve sort values through the batch resolver or per node (found %d / %d call sites)", len(batchCalls), len(nodeCalls))
		return
	}
	// a call inside a closure is reached when the closure's creation site is
	siteIn := func(i ssa.Instruction) []ssa.Instruction {
		g := i.Parent()
		if g == fn {
			return []ssa.Instruction{i}
		}
		var out []ssa.Instruction
		for g.Parent() != nil && g.Parent() != fn {
			g = g.Parent()
		}
		an.Instrs(fn, func(j ssa.Instruction) {
			if mc, ok := j.(*ssa.MakeClosure); ok && mc.Fn == ssa.Value(g) {
				out = append(out, j)
			}
		})
		return out
	}
	var batchSites, nodeSites []ssa.Instruction
	for _, i := range batchCalls {
		batchSites = append(batchSites, siteIn(i)...)
	}
	for _, i := range nodeCalls {
		nodeSites = append(nodeSites, siteIn(i)...)
	}
	type scen struct{ sortByNil, known, batch, useBatch, orderNil bool }
	counts := map[string]int{}
	run := func(sc scen) (*an.BoolSim, map[*ssa.BasicBlock]bool) {
		sim := &an.BoolSim{Fn: fn, Atom: func(v ssa.Value) (bool, bool) {
			switch x := v.(type) {
			case *ssa.Extract:
				if x.Index == 1 && x.Tuple == ssa.Value(lookup) {
					counts["known"]++
					return sc.known, true
				}
			case *ssa.UnOp:
				if x.Op == token.MUL && an.IsFieldAccess(x.X, "Field", "Batch") {
					counts["batch"]++
					return sc.batch, true
				}
			case *ssa.Call:
				if !x.Call.IsInvoke() && x.Call.StaticCallee() == nil && an.IsFieldAccess(x.Call.Value, "Field", "UseBatchFunc") {
					counts["useBatch"]++
					return sc.useBatch, true
				}
			case *ssa.BinOp:
				if (x.Op == token.EQL || x.Op == token.NEQ) && isConstNil(x.Y) {
					if an.IsFieldAccess(x.X, "PaginationArgs", "SortBy") {
						counts["sortBy"]++
						return sc.sortByNil == (x.Op == token.EQL), true
					}
					if an.IsFieldAccess(x.X, "PaginationArgs", "SortOrder") {
						counts["order"]++
						return sc.orderNil == (x.Op == token.EQL), true
					}
				}
			}
			return false, false
		}}
		return sim, sim.Run()
	}
	any := func(r map[*ssa.BasicBlock]bool, is []ssa.Instruction) bool {
		for _, i := range is {
			if r[i.Block()] {
				return true
			}
		}
		return false
	}
	for m := 0; m < 16; m++ {
		sc := scen{sortByNil: m&1 != 0, known: m&2 != 0, batch: m&4 != 0, useBatch: m&8 != 0}
		_, r := run(sc)
		gotB, gotN := any(r, batchSites), any(r, nodeSites)
		wantB := !sc.sortByNil && sc.known && sc.batch && sc.useBatch
		wantN := !sc.sortByNil && sc.known && !(sc.batch && sc.useBatch)
		if gotB != wantB || gotN != wantN {
			o.FailAt(lookup, "applySort with (no SortBy: %v, sort field registered: %v, Batch: %v, UseBatchFunc: %v) resolves sort values through batch resolver: %v / per node: %v, expected %v / %v (a field without a resolver of that kind panics or errors, an unrequested or unknown sort reorders the list)", sc.sortByNil, sc.known, sc.batch, sc.useBatch, gotB, gotN, wantB, wantN)
		}
	}
	// the order passed to the sort function
	var sortCall *ssa.Call
	an.Instrs(fn, func(i ssa.Instruction) {
		if call, ok := i.(*ssa.Call); ok && !call.Call.IsInvoke() && call.Call.StaticCallee() == nil && len(call.Call.Args) == 2 {
			if _, isLookup := call.Call.Value.(*ssa.Lookup); isLookup {
				sortCall = call
			}
		}
	})
	if sortCall == nil {
		o.Fail(p.Pos(fn.Pos()), "applySort no longer calls the sort function registered for the field's kind")
	} else {
		o.Site(sortCall)
		ord := sortCall.Call.Args[1]
		requested, deflt := false, false
		for _, leaf := range phiLeaves(ord) {
			if ld, ok := leaf.(*ssa.UnOp); ok && ld.Op == token.MUL && an.IsFieldAccess(ld.X, "PaginationArgs", "SortOrder") {
				requested = true
			} else if _, ok := leaf.(*ssa.Const); ok {
				deflt = true
			} else if ld, ok := leaf.(*ssa.UnOp); ok && ld.Op == token.MUL {
				if _, isGlobal := ld.X.(*ssa.Global); isGlobal {
					deflt = true
				}
			}
		}
		if !requested {
			o.FailAt(sortCall, "the requested sort order never reaches the sort function: descending requests come back ascending")
		}
		if !deflt {
			o.FailAt(sortCall, "without a requested order the sort function gets no default order")
		}
	}
	for _, k := range []string{"known", "batch", "useBatch", "sortBy"} {
		if counts[k] == 0 {
			o.Undecided("applySort: no test of %q found (the table could not be evaluated)", k)
		}
	}
}
