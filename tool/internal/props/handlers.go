package props

import (
	"fmt"
	"go/token"

	"golang.org/x/tools/go/ssa"

	"thunderlint/internal/an"
)

// ruleHandlerTables (C16, C17, C02): what the compute functions of
// handleSubscribe and handleMutate send and return is a decision over
// (execution failed, failure is a cancellation, first run, delta non-empty).
// Evaluated with BoolSim for every assignment.
func ruleHandlerTables(c *an.Ctx, o *an.O) {
	p := c.P
	for _, nm := range []string{"(*conn).handleSubscribe", "(*conn).handleMutate"} {
		fn := c.NeedFunc(gq, nm)
		cls := rerunnerClosures(fn)
		if len(cls) != 1 {
			o.Fail(p.Pos(fn.Pos()), "%s: expected one compute function handed to NewRerunner", nm)
			continue
		}
		cl := cls[0]
		o.SitePos(p.Pos(cl.Pos()))
		envs := envelopesIn(cl)
		byType := map[string][]ssa.Instruction{}
		for _, e := range envs {
			byType[e.typ] = append(byType[e.typ], e.call)
			o.Site(e.call)
		}
		var closes []ssa.Instruction
		for _, i := range an.CallsAny(cl, an.Mod(gq, "conn", "closeSubscription")) {
			closes = append(closes, i)
		}
		initial := closureRoleVar(cl, "IsInitialComputation")
		errCause := c.NeedFunc(gq, "ErrorCause")
		isSub := nm == "(*conn).handleSubscribe"
		for mask := 0; mask < 16; mask++ {
			E, C, I, D := mask&1 != 0, mask&2 != 0, mask&4 != 0, mask&8 != 0
			if !E && C {
				continue
			}
			sim := &an.BoolSim{Fn: cl, Atom: func(v ssa.Value) (bool, bool) {
				if ld, ok := v.(*ssa.UnOp); ok && ld.Op == token.MUL && initial != nil && ld.X == ssa.Value(initial) {
					return I, true
				}
				bo, ok := v.(*ssa.BinOp)
				if !ok || (bo.Op != token.EQL && bo.Op != token.NEQ) {
					return false, false
				}
				eq := bo.Op == token.EQL
				// ErrorCause(err) == context.Canceled
				for _, side := range []ssa.Value{bo.X, bo.Y} {
					if call, ok := side.(*ssa.Call); ok && call.Call.StaticCallee() == errCause {
						return C == eq, true
					}
				}
				if !isConstNil(bo.Y) {
					return false, false
				}
				// output.Error != nil
				if ld, ok := bo.X.(*ssa.UnOp); ok && ld.Op == token.MUL {
					if fa, ok := ld.X.(*ssa.FieldAddr); ok && an.FieldName(fa.X.Type(), fa.Field) == "Error" {
						return E != eq, true
					}
				}
				// d != nil (the result of diff.Diff)
				if call, ok := bo.X.(*ssa.Call); ok {
					if f := an.CalleeFunc(call.Common()); f != nil && f.Name() == "Diff" {
						return D != eq, true
					}
				}
				return false, false
			}}
			reached := sim.Run()
			any := func(is []ssa.Instruction) bool {
				for _, i := range is {
					if reached[i.Block()] {
						return true
					}
				}
				return false
			}
			nNilErr, nErr := 0, 0
			for _, r := range sim.Returns {
				if len(r.Ret.Results) == 2 {
					if isConstNil(an.ResultAt(r.Ret, 1)) {
						nNilErr++
					} else {
						nErr++
					}
				}
			}
			desc := fmt.Sprintf("%s(execution failed=%v, cancelled=%v, first run=%v, non-empty delta=%v)", nm, E, C, I, D)
			type want struct{ errEnv, dataEnv, closed, retErr bool }
			var w want
			dataType := "update"
			if isSub {
				switch {
				case E && C:
					w = want{false, false, true, true}
				case E && !I:
					w = want{false, false, false, true}
				case E:
					w = want{true, false, true, true}
				default:
					w = want{false, D || I, false, false}
				}
			} else {
				dataType = "result"
				if E {
					w = want{true, false, true, true}
				} else {
					w = want{false, true, true, true}
				}
			}
			if got := any(byType["error"]); got != w.errEnv {
				o.Fail(p.Pos(cl.Pos()), "%s: an error message is sent to the client: %v, expected %v", desc, got, w.errEnv)
				break
			}
			if got := any(byType[dataType]); got != w.dataEnv {
				o.Fail(p.Pos(cl.Pos()), "%s: a %s message is sent to the client: %v, expected %v", desc, dataType, got, w.dataEnv)
				break
			}
			if got := any(closes); got != w.closed {
				o.Fail(p.Pos(cl.Pos()), "%s: the subscription is closed: %v, expected %v", desc, got, w.closed)
				break
			}
			if w.retErr && nNilErr > 0 || !w.retErr && nErr > 0 {
				o.Fail(p.Pos(cl.Pos()), "%s: the compute function returns an error: expected %v (returns with nil error: %d, with an error: %d)", desc, w.retErr, nNilErr, nErr)
				break
			}
		}
	}
}
