package props

import (
	"go/constant"
	"go/token"
	"go/types"
	"regexp"
	"sort"
	"strings"

	"golang.org/x/tools/go/ssa"

	"thunderlint/internal/an"
)

func init() {
	register("C07", "Decides the structural basis of 'every committed write reaches every live query it affects' in livesql: the dependency is registered (tracker + reactive) before the query is executed, on every path, inside the cached computation; registerDependency always adds to the tracker and to the reactive graph and its cleanup removes it; processBinlog tests every registered resource under the tracker lock and invalidates on a match, no update (whatever it carries) returns before that loop, and the consumer goroutine of RunPollLoop hands every received update to it; shouldInvalidate consults both the before and the after image of every delta and invalidates on update.err; an undecodable rows event is turned into an update carrying the table and the error and is delivered (update.err has a writer; no path from a decode error other than 'unknown table' / 'database closed' skips the send); the event-kind table covers WRITE/UPDATE/DELETE v1+v2 with after-only / both / before-only deltas, update rows paired (i, i+1) behind the even-length test; binlog rows are decoded with the column pairing of C13 and only when their column count equals the expected one exactly and column maps are dropped when the table id changes; Tester.Test compares every filter column. RunPollLoop's decision table (rows events delivered, skipped or turned into update{table, err}; a table-map event with an unseen table or a changed id drops the column map on every path) is evaluated under every assignment of its predicates; the loop over an UPDATE event's images starts at 0, advances by 2 and runs to len(Rows). Not decided: agreement of the in-memory tester with SQL WHERE for every type and value, binlog delivery/ordering, MySQL itself.", c07)
	register("C10", "Decides structural conditions of batched-select transparency in sqlgen: in the batch function both the filters and the fetched rows are normalised with the column Valuer (the same normaliser makeWhere and the row tester use) before building the statement and before matching; result i belongs to item i (matcher ids are the induction index of the items, results indexed by the id returned by match, one output per item in order); makeBatchQuery contributes one tuple per filter with placeholders and arguments in lock step, extracted with the group's own column list, with the documented match-all short-circuit for an empty filter; batching is used only without options, outside a transaction and with batching on the context, after the limit check, sharded by table; makeBatchQuery's clause renderer emits exactly the IN / IS / AND fragments and arguments under every (value nil, values written, nil seen) assignment; the row matcher files filters and looks rows up under the same key derivation and probes every group; with options present the batched path is unreachable (evaluated, not matched). Not decided: equality of returned rows for all table contents, MySQL collation and coercion.", c10)
}

const lsq = "livesql"

func c07(c *an.Ctx) {
	p := c.P

	c.Check("R-DOM", "LiveDB.query registers the dependency before executing the query, inside the cached computation", 3, func(o *an.O) {
		fn := c.NeedFunc(lsq, "(*LiveDB).query")
		var cl *ssa.Function
		for _, call := range an.Calls(fn, an.Mod(rx, "", "Cache")) {
			cl = an.ClosureArg(an.CallOf(call).Args[2])
			o.Site(call)
		}
		if cl == nil {
			o.Fail(p.Pos(fn.Pos()), "LiveDB.query no longer runs the query inside reactive.Cache")
			return
		}
		regs := an.Calls(cl, an.Mod(lsq, "dbTracker", "registerDependency"))
		qs := an.Calls(cl, an.Mod(sg, "DB", "BaseQuery"))
		if len(regs) == 0 || len(qs) == 0 {
			o.Fail(p.Pos(cl.Pos()), "the cached computation must register the dependency and run BaseQuery (found %d/%d)", len(regs), len(qs))
			return
		}
		for _, q := range qs {
			o.Site(q)
			if an.Reach(cl, nil, an.NewBlocker(regs...))[q] {
				o.FailAt(q, "the query can be executed before its dependency is registered: a write committed between the read and the registration is never seen, and the live query stays stale")
			}
		}
		for _, r := range regs {
			o.Site(r)
			// registered for the same table and filter that is queried
			cc := an.CallOf(r)
			okTable, okFilter, okTester := false, false, false
			for _, a := range cc.Args { // whatever the parameter order
				e := an.Expr(a)
				switch {
				case strings.HasSuffix(e, ".Table.Name"):
					okTable = true
				case strings.HasSuffix(e, ".Filter"):
					okFilter = true
				case strings.Contains(e, "MakeTester("):
					okTester = true
				}
			}
			if !okTable || !okFilter {
				o.FailAt(r, "the dependency is not registered for the table and filter of the query (table: %v, filter: %v)", okTable, okFilter)
			}
			// tester built from the same filter
			if !okTester {
				o.FailAt(r, "the dependency's tester is not the one made for the query's table and filter")
			}
		}
		// queries outside a rerunner / inside a transaction go straight to the database (no caching of uncommitted reads)
	})

	c.Check("R-POST", "registerDependency always adds to the reactive graph and to the tracker; cleanup removes from the tracker", 3, func(o *an.O) {
		fn := c.NeedFunc(lsq, "(*dbTracker).registerDependency")
		// "adds to the tracker": a call of dbTracker.add, or the insert into tracker.resources written out
		resourceOps := func(f *ssa.Function, kind string) []ssa.Instruction {
			var out []ssa.Instruction
			an.Instrs(f, func(i ssa.Instruction) {
				switch x := i.(type) {
				case *ssa.MapUpdate:
					if kind == "insert" && an.IsFieldAccess(x.Map, "dbTracker", "resources") {
						out = append(out, i)
					}
				case *ssa.Call:
					if b, ok := x.Call.Value.(*ssa.Builtin); ok && b.Name() == "delete" && kind == "delete" && an.IsFieldAccess(x.Call.Args[0], "dbTracker", "resources") {
						out = append(out, i)
					}
					if g := x.Call.StaticCallee(); g != nil && an.RelPkg(g) == lsq && g != f && g.Blocks != nil {
						if (kind == "insert" && g.Name() == "add") || (kind == "delete" && g.Name() == "remove") {
							out = append(out, i)
						}
					}
				}
			})
			return out
		}
		adds := resourceOps(fn, "insert")
		deps := an.Calls(fn, an.Mod(rx, "", "AddDependency"))
		if why := an.ExactlyOnce(fn, adds); why != "" {
			o.Fail(p.Pos(fn.Pos()), "registerDependency: insert into the tracker: %s (the binlog would never test this query)", why)
		}
		if why := an.ExactlyOnce(fn, deps); why != "" {
			o.Fail(p.Pos(fn.Pos()), "registerDependency: reactive.AddDependency: %s (an invalidation would not reach the computation)", why)
		}
		for _, i := range append(adds, deps...) {
			o.Site(i)
		}
		// the same resource object in both, and in the cleanup
		if len(adds) == 1 && len(deps) == 1 {
			var r1 ssa.Value
			switch x := adds[0].(type) {
			case *ssa.MapUpdate:
				r1 = x.Key
			default:
				r1 = an.CallOf(adds[0]).Args[1]
			}
			r2 := an.CallOf(deps[0]).Args[1]
			if !isResourceOf(fn, r2, r1) {
				o.FailAt(deps[0], "AddDependency uses %s but the tracker holds %s", an.Expr(r2), an.Expr(r1))
			}
		}
		okCleanup := false
		for _, call := range an.Calls(fn, an.Mod(rx, "Resource", "Cleanup")) {
			if cl := an.ClosureArg(an.CallOf(call).Args[1]); cl != nil && len(resourceOps(cl, "delete")) == 1 {
				okCleanup = true
				o.Site(call)
			}
		}
		if !okCleanup {
			o.Fail(p.Pos(fn.Pos()), "the resource's cleanup no longer removes it from the tracker (leak; every binlog event tests dead queries forever)")
		}
		// every access to the resource set happens under t.mu
		nAcc := 0
		for _, f := range p.ModuleFuncs(func(rel string) bool { return rel == lsq }) {
			var ls *an.LockSets
			an.Instrs(f, func(i ssa.Instruction) {
				var m ssa.Value
				switch x := i.(type) {
				case *ssa.MapUpdate:
					m = x.Map
				case *ssa.Range:
					m = x.X
				case *ssa.Lookup:
					m = x.X
				case *ssa.Call:
					if b, ok := x.Call.Value.(*ssa.Builtin); ok && (b.Name() == "delete" || b.Name() == "len") && len(x.Call.Args) > 0 {
						m = x.Call.Args[0]
					}
				}
				if m != nil && an.IsFieldAccess(m, "dbTracker", "resources") {
					nAcc++
					o.Site(i)
					if ls == nil {
						ls = an.ComputeLocks(f, nil)
					}
					if _, held := ls.HeldField(i, "dbTracker", "mu"); !held {
						o.FailAt(i, "%s touches the resource set without the tracker lock", an.QualName(f))
					}
				}
			})
		}
		if nAcc < 3 {
			o.Undecided("found %d accesses to dbTracker.resources (expected insert, delete and the scan)", nAcc)
		}
	})

	c.Check("R-GUARD", "processBinlog tests every registered resource; shouldInvalidate consults before and after of every delta and invalidates on update.err", 3, func(o *an.O) {
		pb := c.NeedFunc(lsq, "(*dbTracker).processBinlog")
		invs := an.Calls(pb, an.Mod(rx, "Resource", "Invalidate"))
		if len(invs) != 1 {
			o.Fail(p.Pos(pb.Pos()), "processBinlog must invalidate matching resources (found %d Invalidate calls)", len(invs))
		} else {
			o.Site(invs[0])
			gs := an.GuardStrings(invs[0].Block())
			okG := false
			for _, g := range gs {
				if strings.Contains(g, ".shouldInvalidate(") && !strings.HasPrefix(g, "!") {
					okG = true
				}
			}
			if !okG {
				o.FailAt(invs[0], "Invalidate is not conditional on shouldInvalidate(update) (guards %v)", gs)
			}
			h := an.LoopHeaderOf(invs[0])
			okLoop := false
			if h != nil {
				for _, j := range h.Instrs {
					if nx, ok := j.(*ssa.Next); ok {
						if r, ok := nx.Iter.(*ssa.Range); ok && an.IsFieldAccess(r.X, "dbTracker", "resources") {
							okLoop = true
						}
					}
				}
			}
			if !okLoop {
				o.FailAt(invs[0], "processBinlog does not iterate over all registered resources")
			}
			// no early exit from the loop
			if h != nil {
				for _, e := range an.Exits(pb, false) {
					if an.LoopHeaderOf(e) == h || blockInLoop(e.Block(), h) {
						o.FailAt(e, "processBinlog returns from inside the loop: later resources are not tested")
					}
				}
				// and none before it: every update, whatever it carries (an undecodable
				// event has a table and an error but no deltas), reaches the loop
				reach := an.Reach(pb, nil, an.NewBlocker(h.Instrs[0]))
				for _, e := range an.Exits(pb, false) {
					if reach[e] {
						o.FailAt(e, "processBinlog can return without testing the registered resources: some updates (for instance one that only carries a decode error) are dropped and the live queries on that table stay stale")
					}
				}
				// every iteration asks shouldInvalidate
				var asks []ssa.Instruction
				for _, call := range an.Calls(pb, an.Mod(lsq, "dbResource", "shouldInvalidate")) {
					if an.LoopHeaderOf(call) == h {
						asks = append(asks, call)
					}
				}
				body := h.Succs[0]
				if len(asks) == 0 || (body.Instrs[0] != asks[0] && an.Reach(pb, body.Instrs[0], an.NewBlocker(asks...))[h.Instrs[0]]) {
					o.FailAt(invs[0], "some registered resources are skipped without shouldInvalidate being asked")
				}
			}
		}
		si := c.NeedFunc(lsq, "(*dbResource).shouldInvalidate")
		tests := an.CallsAny(si, an.CalleeSpec{Pkg: an.ModulePath + "/" + sg, Recv: "Tester", Name: "Test"})
		if len(tests) == 0 {
			// interface invoke
			an.Instrs(si, func(i ssa.Instruction) {
				if cc := an.CallOf(i); cc != nil && cc.IsInvoke() && cc.Method.Name() == "Test" {
					tests = append(tests, i)
				}
			})
		}
		seen := map[string]bool{}
		for _, t := range tests {
			o.Site(t)
			arg := an.Expr(an.CallOf(t).Args[0])
			switch {
			case strings.HasSuffix(arg, ".before"):
				seen["before"] = true
			case strings.HasSuffix(arg, ".after"):
				seen["after"] = true
			}
			if an.LoopHeaderOf(t) == nil {
				o.FailAt(t, "the tester is not applied to every delta of the update")
			}
		}
		if !seen["before"] || !seen["after"] {
			o.Fail(p.Pos(si.Pos()), "shouldInvalidate must test both the before and the after image of a row (a row moving out of / into the filter only matches one of them); found before=%v after=%v", seen["before"], seen["after"])
		}
		// The decision is evaluated: with (same table, update.err != nil, Test(before), Test(after))
		// fixed, the set of values shouldInvalidate can return must be what the rule says.
		{
			nAtoms := map[string]int{}
			for mask := 0; mask < 16; mask++ {
				T, E, B, A := mask&1 != 0, mask&2 != 0, mask&4 != 0, mask&8 != 0
				sim := &an.BoolSim{Fn: si, Atom: func(v ssa.Value) (bool, bool) {
					switch x := v.(type) {
					case *ssa.BinOp:
						if x.Op != token.EQL && x.Op != token.NEQ {
							return false, false
						}
						xs, ys := an.Expr(x.X), an.Expr(x.Y)
						if strings.HasSuffix(xs, ".table") && strings.HasSuffix(ys, ".table") && xs != ys {
							nAtoms["table"]++
							return T == (x.Op == token.EQL), true
						}
						if isConstNil(x.Y) && strings.HasSuffix(xs, ".err") {
							nAtoms["err"]++
							return E == (x.Op == token.NEQ), true
						}
					case *ssa.Call:
						if x.Call.IsInvoke() && x.Call.Method.Name() == "Test" && len(x.Call.Args) == 1 {
							arg := an.Expr(x.Call.Args[0])
							if strings.HasSuffix(arg, ".before") {
								nAtoms["before"]++
								return B, true
							}
							if strings.HasSuffix(arg, ".after") {
								nAtoms["after"]++
								return A, true
							}
						}
					}
					return false, false
				}}
				sim.Run()
				got := sim.ReturnedBools(0)
				var want string
				switch {
				case !T:
					want = "only false"
				case E:
					want = "only true"
				case B || A:
					want = "true possible"
				default:
					want = "only false"
				}
				okCase := true
				switch want {
				case "only false":
					okCase = !got["true"] && !got["?"]
				case "only true":
					okCase = !got["false"] && !got["?"] && got["true"]
				case "true possible":
					okCase = got["true"]
				}
				if !okCase {
					o.Fail(p.Pos(si.Pos()), "shouldInvalidate(sameTable=%v, update.err!=nil=%v, Test(before)=%v, Test(after)=%v) can return %v; expected %s: an update that changes the rows of a live query (or could not be decoded) must invalidate it, and only updates of its table may", T, E, B, A, keysOf(got), want)
					break
				}
			}
			for _, a := range []string{"table", "err", "before", "after"} {
				if nAtoms[a] == 0 {
					o.Fail(p.Pos(si.Pos()), "shouldInvalidate never looks at %s", a)
				}
			}
		}
		// table mismatch is the only way around the error test and the scan of the deltas
		{
			blk := an.NewBlocker()
			nErr, nTab := 0, 0
			for _, nt := range an.NilTestsWhere(si, func(v ssa.Value) bool { return strings.HasSuffix(an.Expr(v), ".err") }) {
				blk.Instr[nt.If] = true
				nErr++
			}
			for _, b := range si.Blocks {
				iff, ok := b.Instrs[len(b.Instrs)-1].(*ssa.If)
				if !ok {
					continue
				}
				bo, ok := iff.Cond.(*ssa.BinOp)
				if !ok || (bo.Op != token.EQL && bo.Op != token.NEQ) {
					continue
				}
				x, y := an.Expr(bo.X), an.Expr(bo.Y)
				if strings.HasSuffix(x, ".table") && strings.HasSuffix(y, ".table") && x != y {
					nTab++
					if bo.Op == token.NEQ {
						blk.AddEdge(b, b.Succs[0])
					} else {
						blk.AddEdge(b, b.Succs[1])
					}
				}
			}
			if nErr > 0 {
				reach := an.Reach(si, nil, blk)
				for _, e := range an.Exits(si, false) {
					if reach[e] {
						o.FailAt(e, "shouldInvalidate can answer for an update on its own table without looking at update.err: an undecodable event would not invalidate the query (%d table tests)", nTab)
					}
				}
			}
		}
		for _, e := range an.Exits(si, false) {
			if an.Expr(e.(*ssa.Return).Results[0]) == "false" && an.LoopHeaderOf(e) != nil {
				o.FailAt(e, "shouldInvalidate returns false from inside the loop over deltas: later deltas are not tested")
			}
		}
	})

	c.Check("R-WHO+R-DOM", "undecodable rows events are delivered as update{table, err}: update.err has a writer and RunPollLoop does not drop decode errors", 3, func(o *an.O) {
		nStores := 0
		for _, fn := range p.ModuleFuncs(func(rel string) bool { return rel == lsq }) {
			if strings.HasSuffix(p.Fset.Position(fn.Pos()).Filename, "_test.go") {
				continue
			}
			for _, r := range an.FieldRefs(fn, an.ModulePath+"/"+lsq, "update", "err") {
				if r.Kind == "store" && !isConstNil(r.Val) {
					nStores++
					o.Site(r.Instr)
				}
			}
		}
		if nStores == 0 {
			o.Fail("livesql/binlog.go", "update.err is read by shouldInvalidate but never written: the 'cannot decode -> invalidate everything on the table' branch is dead code")
		}
		fn := c.NeedFunc(lsq, "(*Binlog).RunPollLoop")
		parses := an.Calls(fn, an.Mod(lsq, "Binlog", "parseBinlogRowsEvent"))
		an.Need(len(parses) == 1, "parseBinlogRowsEvent call in RunPollLoop")
		parse := parses[0]
		o.Site(parse)
		var sends []ssa.Instruction
		for _, op := range an.ChanOps(fn) {
			if op.Kind == "send" || op.Kind == "select-send" {
				sends = append(sends, op.Instr)
				o.Site(op.Instr)
			}
		}
		if len(sends) == 0 {
			o.Fail(p.Pos(fn.Pos()), "RunPollLoop never hands updates to the tracker")
			return
		}
		// from the error edge of parse, excluding the two allowed skips, the loop header must not be reachable without a send
		h := an.LoopHeaderOf(parse)
		an.Need(h != nil, "poll loop")
		blk := an.NewBlocker(sends...)
		errv := extractOf(parse.(ssa.Value), 1)
		for _, nt := range an.NilTests(fn, errv) {
			_ = nt
		}
		for _, ci := range an.CondIfs(fn, func(v ssa.Value) bool {
			s := an.Expr(v)
			return strings.Contains(s, "== errNoDescriptor)") || strings.Contains(s, "\"sql: database is closed\")")
		}) {
			blk.AddEdge(ci.If.Block(), ci.True)
			o.Site(ci.If)
		}
		// success edge is fine too (it sends): we only look at paths from parse to the header avoiding sends
		if an.Reach(fn, parse, blk)[h.Instrs[0]] {
			o.FailAt(parse, "after parseBinlogRowsEvent the poll loop can continue with the next event without delivering anything (a decode error other than 'unknown table' / 'database closed' is dropped): live queries on that table keep stale rows")
		}
		// the consumer hands every received update to the tracker
		consumer := false
		// the consumer goroutine: a closure of RunPollLoop or a function / method it starts with `go`
		cands := append([]*ssa.Function(nil), an.WithAnons(fn)[1:]...)
		an.Instrs(fn, func(i ssa.Instruction) {
			if g, ok := i.(*ssa.Go); ok {
				if f := g.Call.StaticCallee(); f != nil && f.Blocks != nil && an.RelPkg(f) == lsq {
					cands = append(cands, an.WithAnons(f)...)
				}
			}
		})
		for _, cl := range cands {
			calls := an.Calls(cl, an.Mod(lsq, "dbTracker", "processBinlog"))
			if len(calls) == 0 {
				continue
			}
			consumer = true
			o.Site(calls[0])
			ch := an.LoopHeaderOf(calls[0])
			if ch == nil {
				o.FailAt(calls[0], "the update consumer handles one update only")
				continue
			}
			body := ch.Succs[0]
			if body.Instrs[0] != calls[0] && an.Reach(cl, body.Instrs[0], an.NewBlocker(calls...))[ch.Instrs[0]] {
				o.FailAt(calls[0], "the update consumer can take an update off the channel and go on to the next one without handing it to tracker.processBinlog")
			}
		}
		if !consumer {
			o.Fail(p.Pos(fn.Pos()), "updates sent on the channel are never handed to tracker.processBinlog")
		}
		// the error update carries the table
		for _, l := range an.StructLits(fn, "update") {
			if l.Fields["err"] != nil {
				if l.Fields["table"] == nil {
					o.FailAt(l.Alloc, "the error update does not name its table (shouldInvalidate filters by table first)")
				}
			}
		}
	})

	c.Check("R-BOOL", "RunPollLoop decision table: rows events of the configured database are delivered (decoded, or as update{table, err}); only 'no descriptor' / 'database closed' and foreign databases are skipped; a table-map event with an unseen table or a changed id drops the column map", 3, func(o *an.O) {
		rulePollLoopTable(c, o)
	})

	c.Check("R-TABLE", "parseBinlogRowsEvent: WRITE -> after only, UPDATE -> (rows[i], rows[i+1]) behind the even-length test, DELETE -> before only; unknown kinds are errors", 4, func(o *an.O) {
		// Evaluated on the SSA form (helpers inlined): for each event kind the control
		// flow is explored with the event-type comparisons fixed; the delta literals
		// that can be reached must set exactly the images that kind carries.
		fn := c.NeedFunc(lsq, "(*Binlog).parseBinlogRowsEvent")
		rp0 := p.ExtPkg("github.com/siddontang/go-mysql/replication")
		an.Need(rp0 != nil, "package replication")
		kindVal := func(name string) int64 {
			obj, ok := rp0.Types.Scope().Lookup(name).(*types.Const)
			an.Need(ok, "replication."+name)
			n, _ := constant.Int64Val(obj.Val())
			return n
		}
		want := map[string]string{
			"WRITE_ROWS_EVENTv1": "after", "WRITE_ROWS_EVENTv2": "after",
			"UPDATE_ROWS_EVENTv1": "after,before", "UPDATE_ROWS_EVENTv2": "after,before",
			"DELETE_ROWS_EVENTv1": "before", "DELETE_ROWS_EVENTv2": "before",
			"UNKNOWN_EVENT": "", "QUERY_EVENT": "",
		}
		isEventType := func(v ssa.Value) bool {
			n := an.NamedOf(v.Type())
			return n != nil && n.Obj().Name() == "EventType"
		}
		lits := an.StructLits(fn, "delta")
		nCmp := 0
		var kinds []string
		for k := range want {
			kinds = append(kinds, k)
		}
		sort.Strings(kinds)
		for _, kname := range kinds {
			kv := kindVal(kname)
			sim := &an.BoolSim{Fn: fn, Atom: func(v ssa.Value) (bool, bool) {
				bo, ok := v.(*ssa.BinOp)
				if !ok || (bo.Op != token.EQL && bo.Op != token.NEQ) {
					return false, false
				}
				for _, pr := range [][2]ssa.Value{{bo.X, bo.Y}, {bo.Y, bo.X}} {
					cv, ok := an.ConstInt(pr[1])
					if !ok || !isEventType(pr[0]) {
						continue
					}
					nCmp++
					return (cv == kv) == (bo.Op == token.EQL), true
				}
				return false, false
			}}
			reached := sim.Run()
			nl := 0
			for _, l := range lits {
				if !reached[l.Alloc.Block()] {
					continue
				}
				nl++
				o.Site(l.Alloc)
				var fs []string
				for _, f := range []string{"after", "before"} {
					if v := l.Fields[f]; v != nil && !isConstNil(v) {
						fs = append(fs, f)
					}
				}
				if got := strings.Join(fs, ","); got != want[kname] {
					o.FailAt(l.Alloc, "%s builds deltas with {%s}, expected {%s}: queries matching only the other image of the row are not invalidated", kname, got, want[kname])
				}
			}
			if want[kname] != "" && nl == 0 {
				o.Fail(p.Pos(fn.Pos()), "no case for %s: its row changes produce no deltas", kname)
			}
			if want[kname] == "" {
				for _, e := range an.Exits(fn, false) {
					ret, ok := e.(*ssa.Return)
					if !ok || !reached[e.Block()] {
						continue
					}
					for _, ev := range sim.ValuesAt(an.ResultAt(ret, 1), e.Block()) {
						if isConstNil(ev) {
							o.FailAt(e, "unknown binlog event kinds are silently ignored")
						}
					}
				}
			}
		}
		if nCmp == 0 {
			o.Fail(p.Pos(fn.Pos()), "parseBinlogRowsEvent no longer distinguishes event kinds")
		}
		// update pairing: rows[i] / rows[i+1] of one loop variable, behind the even-length test
		rowIndex := func(v ssa.Value) ssa.Value { // v = parseBinlogRow(schema, Rows[X], cm)#0 -> X
			ex, ok := v.(*ssa.Extract)
			if !ok {
				return nil
			}
			call, ok := ex.Tuple.(*ssa.Call)
			if !ok || !an.Mod(lsq, "", "parseBinlogRow").Matches(call.Common()) {
				return nil
			}
			ld, ok := call.Call.Args[1].(*ssa.UnOp)
			if !ok {
				return nil
			}
			ia, ok := ld.X.(*ssa.IndexAddr)
			if !ok || !strings.HasSuffix(an.Expr(ia.X), ".Rows") {
				return nil
			}
			return ia.Index
		}
		var pairLits []ssa.Instruction
		for _, l := range lits {
			b, a := l.Fields["before"], l.Fields["after"]
			if b == nil || a == nil {
				continue
			}
			o.Site(l.Alloc)
			pairLits = append(pairLits, l.Alloc)
			bi, ai := rowIndex(b), rowIndex(a)
			okPair := false
			if bi != nil && ai != nil {
				if add, ok := ai.(*ssa.BinOp); ok && add.Op == token.ADD && add.X == bi {
					if n, ok := an.ConstInt(add.Y); ok && n == 1 {
						_, okPair = bi.(*ssa.Phi)
					}
				}
			}
			if !okPair {
				o.FailAt(l.Alloc, "update delta pairs before=%s after=%s, expected rows[i] / rows[i+1]", an.Short(an.Expr(b), 60), an.Short(an.Expr(a), 60))
			}
			// the loop over the images: starts at 0, advances by 2, runs while i (or i+1) < len(Rows)
			if phi, ok := bi.(*ssa.Phi); ok && okPair {
				init0, step2 := false, false
				for _, e := range phi.Edges {
					if n, ok := an.ConstInt(e); ok {
						init0 = init0 || n == 0
						continue
					}
					if st, ok := e.(*ssa.BinOp); ok && st.Op == token.ADD && st.X == ssa.Value(phi) {
						if n, ok := an.ConstInt(st.Y); ok && n == 2 {
							step2 = true
						}
					}
				}
				okBound := false
				if iff, ok := phi.Block().Instrs[len(phi.Block().Instrs)-1].(*ssa.If); ok {
					if cmp, ok := iff.Cond.(*ssa.BinOp); ok {
						x, y, op := cmp.X, cmp.Y, cmp.Op
						if op == token.GTR {
							x, y, op = y, x, token.LSS
						}
						isLen := strings.HasPrefix(an.Expr(y), "len(") && strings.Contains(an.Expr(y), ".Rows")
						plus1 := false
						if ad, ok := x.(*ssa.BinOp); ok && ad.Op == token.ADD && ad.X == ssa.Value(phi) {
							if n, ok := an.ConstInt(ad.Y); ok && n == 1 {
								plus1 = true
							}
						}
						if (op == token.LSS || op == token.NEQ) && isLen && (x == ssa.Value(phi) || (op == token.LSS && plus1)) {
							okBound = true
						}
					}
				}
				if len(phi.Edges) != 2 || !init0 || !step2 || !okBound {
					o.FailAt(l.Alloc, "the loop over an UPDATE event's row images must start at 0, advance by 2 and run while i < len(Rows) (start at 0: %v, step 2: %v, bound: %v): otherwise images are paired across rows, a row's change is dropped, or the poll loop indexes past the end", init0, step2, okBound)
				}
			}
		}
		okEven := false
		for _, b := range fn.Blocks {
			iff, ok := b.Instrs[len(b.Instrs)-1].(*ssa.If)
			if !ok {
				continue
			}
			bo, ok := iff.Cond.(*ssa.BinOp)
			if !ok || (bo.Op != token.EQL && bo.Op != token.NEQ) {
				continue
			}
			rem, ok := bo.X.(*ssa.BinOp)
			if !ok || rem.Op != token.REM || !strings.Contains(an.Expr(rem.X), ".Rows)") {
				continue
			}
			if n, ok := an.ConstInt(rem.Y); !ok || n != 2 {
				continue
			}
			if z, ok := an.ConstInt(bo.Y); !ok || z != 0 {
				continue
			}
			odd := b.Succs[0]
			if bo.Op == token.EQL {
				odd = b.Succs[1]
			}
			r := an.Reach(fn, odd.Instrs[0], an.NewBlocker())
			bad := false
			for _, pl := range pairLits {
				if r[pl] || odd.Instrs[0] == pl {
					bad = true
				}
			}
			if !bad {
				okEven = true
				o.Site(iff)
			}
		}
		if !okEven {
			o.Fail(p.Pos(fn.Pos()), "an odd number of rows in an update event is no longer rejected")
		}
		// column maps dropped when the table id changes
		rp := c.NeedFunc(lsq, "(*Binlog).RunPollLoop")
		okDrop := false
		an.Instrs(rp, func(i ssa.Instruction) {
			if call, ok := i.(*ssa.Call); ok {
				if b, ok := call.Call.Value.(*ssa.Builtin); ok && b.Name() == "delete" && an.IsFieldAccess(call.Call.Args[0], "Binlog", "columnMaps") {
					okDrop = true
					o.Site(i)
				}
			}
		})
		if !okDrop {
			o.Fail(p.Pos(rp.Pos()), "cached column maps are no longer dropped when a table's id changes (rows would be decoded with a stale column layout)")
		}
	})

	c.Check("R-PAIR", "binlog rows are decoded column by column through the recorded source positions, and only when the column count is exactly the expected one (anything else is a decode error, which invalidates the table)", 4, func(o *an.O) {
		ruleParseBinlogRow(c, o)
	})

	c.Check("R-PROV", "binlog rows are decoded by the same scanner as query rows: an empty, non-NULL []byte value must not be decoded as NULL (the tester would then disagree with WHERE col = '') - rule shared with C13", 2, func(o *an.O) {
		ruleScannerBytesCopy(c, o)
	})

	c.Check("R-PROV", "the in-memory tester sees each value converted by the column Valuer exactly once (MakeTester keeps the filter's own values): a filter on a json / binary / string tagged column still matches its rows", 3, func(o *an.O) {
		ruleValuerOnce(c, o)
	})

	c.Check("R-SHAPE", "Tester.Test compares every filter column (false on first mismatch, true only after the loop)", 2, func(o *an.O) {
		tt := c.NeedFunc(sg, "(*tester).Test")
		calls := an.Calls(tt, an.Mod(sg, "", "driverValuesEqual"))
		if len(calls) != 1 || an.LoopHeaderOf(calls[0]) == nil {
			o.Fail(p.Pos(tt.Pos()), "Tester.Test must compare every filter column inside the loop")
			return
		}
		o.Site(calls[0])
		for _, e := range an.Exits(tt, false) {
			v := an.Expr(e.(*ssa.Return).Results[0])
			if v == "true" {
				o.Site(e)
				if !an.OnlyAfterLoop(tt, an.LoopHeaderOf(calls[0]), e) {
					o.FailAt(e, "Tester.Test returns true before all filter columns were compared: rows matching only the first column would invalidate / match")
				}
			}
		}
		// both sides go through the column Valuer
		n := 0
		an.Instrs(tt, func(i ssa.Instruction) {
			if cc := an.CallOf(i); cc != nil {
				if f := an.CalleeFunc(cc); f != nil && f.Name() == "Valuer" {
					n++
				}
			}
		})
		if n < 2 {
			o.Fail(p.Pos(tt.Pos()), "Tester.Test no longer normalises both the filter value and the row value with the column Valuer")
		}
	})
}

func sortedCopy(in []string) []string {
	out := append([]string{}, in...)
	for i := 0; i < len(out); i++ {
		for j := i + 1; j < len(out); j++ {
			if out[j] < out[i] {
				out[i], out[j] = out[j], out[i]
			}
		}
	}
	return out
}

func c10(c *an.Ctx) {
	p := c.P
	many := func() *ssa.Function {
		nd := c.NeedFunc(sg, "NewDB")
		for _, l := range an.StructLits(nd, "Func") {
			if f := an.ClosureArg(l.Fields["Many"]); f != nil {
				return f
			}
		}
		an.Need(false, "batchFetch.Many closure in NewDB")
		return nil
	}

	c.Check("R-PROV", "Table.driverValues passes every value through the column Valuer (no fast path): the batched statement and matcher see the same driver values a single query would", 3, func(o *an.O) {
		ruleValuerOnce(c, o)
	})

	c.Check("R-NORM", "batched select: filters and fetched rows are normalised with the column Valuer before the statement is built and before matching", 4, func(o *an.O) {
		fn := many()
		normalised := func(v ssa.Value) bool {
			// result of table.driverValues(...)
			seen := map[ssa.Value]bool{}
			var walk func(x ssa.Value) bool
			walk = func(x ssa.Value) bool {
				if x == nil || seen[x] {
					return false
				}
				seen[x] = true
				switch y := x.(type) {
				case *ssa.Extract:
					if call, ok := y.Tuple.(*ssa.Call); ok && an.Mod(sg, "Table", "driverValues").Matches(call.Common()) {
						return true
					}
					// range value over a slice of normalised filters
					return walk(y.Tuple)
				case *ssa.UnOp:
					return walk(y.X)
				case *ssa.IndexAddr:
					return walk(y.X)
				case *ssa.Phi:
					ok := false
					for _, e := range y.Edges {
						if c, isC := e.(*ssa.Const); isC && c.IsNil() {
							continue
						}
						if e == x {
							continue
						}
						if !walk(e) {
							return false
						}
						ok = true
					}
					return ok
				case *ssa.Call:
					if b, ok := y.Call.Value.(*ssa.Builtin); ok && b.Name() == "append" {
						el := singleElem(y.Call.Args[1])
						return el != nil && walk(el) && (walk(y.Call.Args[0]) || isEmptyStart(y.Call.Args[0]))
					}
				case *ssa.MakeSlice:
					return true
				case *ssa.ChangeType:
					return walk(y.X)
				}
				return false
			}
			return walk(v)
		}
		for _, call := range an.Calls(fn, an.Mod(sg, "matcher", "add")) {
			o.Site(call)
			if !normalised(an.CallOf(call).Args[2]) {
				o.FailAt(call, "the matcher is given %s, which was not converted with the column Valuer: a filter id=int(10) never matches a fetched row whose Id is int64(10), so the batched call returns no rows where the unbatched one returns some", an.Short(an.Expr(an.CallOf(call).Args[2]), 60))
			}
		}
		for _, call := range an.Calls(fn, an.Mod(sg, "matcher", "match")) {
			o.Site(call)
			if !normalised(an.CallOf(call).Args[1]) {
				o.FailAt(call, "fetched rows are matched as %s, not after conversion with the column Valuer", an.Short(an.Expr(an.CallOf(call).Args[1]), 60))
			}
		}
		for _, call := range an.Calls(fn, an.Mod(sg, "", "makeBatchQuery")) {
			o.Site(call)
			if !normalised(an.CallOf(call).Args[0]) {
				o.FailAt(call, "makeBatchQuery is given raw filter values (%s): the batched statement encodes tagged / pointer / named-type values differently from the unbatched one", an.Short(an.Expr(an.CallOf(call).Args[0]), 60))
			}
		}
		// driverValues itself uses the column's Valuer
		dv := c.NeedFunc(sg, "(*Table).driverValues")
		okV := false
		an.Instrs(dv, func(i ssa.Instruction) {
			if cc := an.CallOf(i); cc != nil {
				if f := an.CalleeFunc(cc); f != nil && f.Name() == "Valuer" {
					okV = true
					o.Site(i)
				}
			}
		})
		if !okV {
			o.Fail(p.Pos(dv.Pos()), "Table.driverValues does not use the column Valuer")
		}
	})

	c.Check("R-PAIR", "batched select: matcher ids are the positions of the items, results are indexed by the matched id, one output per item in order", 3, func(o *an.O) {
		fn := many()
		for _, call := range an.Calls(fn, an.Mod(sg, "matcher", "add")) {
			o.Site(call)
			id := an.StripConv(an.CallOf(call).Args[1])
			if !an.IsRangeIndex(id) {
				o.FailAt(call, "the matcher id is %s, not the position of the item in the batch", an.Expr(id))
			}
		}
		// results := make([][]interface{}, len(items)); results[i] with i = idx.(int) from match
		okRes := false
		an.Instrs(fn, func(i ssa.Instruction) {
			st, ok := i.(*ssa.Store)
			if !ok {
				return
			}
			ia, ok := st.Addr.(*ssa.IndexAddr)
			if !ok || !strings.HasPrefix(ia.X.Type().String(), "[][]interface") {
				return
			}
			o.Site(i)
			ms, ok := ia.X.(*ssa.MakeSlice)
			sized := false
			if ok {
				if lc, isCall := ms.Len.(*ssa.Call); isCall {
					if bi, isB := lc.Call.Value.(*ssa.Builtin); isB && bi.Name() == "len" {
						// len(items), or the length of a list built with one entry per item
						if lc.Call.Args[0] == ssa.Value(itemsParam(fn)) {
							sized = true
						} else {
							al := newAlignment(fn)
							al.infer(nil)
							sized = al.aligned(lc.Call.Args[0], itemsParam(fn))
						}
					}
				}
			}
			if !sized {
				o.FailAt(i, "the per-item result list is not sized len(items)")
			}
			idx := an.Expr(ia.Index)
			if _, isTA := ia.Index.(*ssa.TypeAssert); isTA && strings.Contains(idx, ".match(") && strings.HasSuffix(idx, ".(int)") {
				okRes = true
			} else {
				o.FailAt(i, "a fetched row is filed under %s, not under the id returned by matcher.match", idx)
			}
		})
		if !okRes {
			o.Fail(p.Pos(fn.Pos()), "fetched rows are not distributed to the items that asked for them")
		}
		// rawResults appended once per results element in order
		okOut := false
		an.Instrs(fn, func(i ssa.Instruction) {
			call, ok := i.(*ssa.Call)
			if !ok {
				return
			}
			if b, ok := call.Call.Value.(*ssa.Builtin); ok && b.Name() == "append" && strings.HasSuffix(call.Call.Args[0].Type().String(), "[]interface{}") {
				if el := singleElem(call.Call.Args[1]); el != nil && strings.HasPrefix(an.StripConv(el).Type().String(), "[]interface") {
					if h := an.LoopHeaderOf(i); h != nil {
						body := h.Succs[0]
						if everyIteration(fn, body, i.Block(), h) {
							okOut = true
							o.Site(i)
						}
					}
				}
			}
		})
		// or: rawResults := make([]interface{}, len(results)); rawResults[i] = results[i] on every iteration
		an.Instrs(fn, func(i ssa.Instruction) {
			st, ok := i.(*ssa.Store)
			if !ok {
				return
			}
			ia, ok := st.Addr.(*ssa.IndexAddr)
			if !ok || !an.IsRangeIndex(ia.Index) || ia.X.Type().String() != "[]interface{}" {
				return
			}
			ld, ok := an.StripConv(st.Val).(*ssa.UnOp)
			if !ok {
				return
			}
			src, ok := ld.X.(*ssa.IndexAddr)
			if !ok || src.Index != ia.Index || !strings.HasPrefix(src.X.Type().String(), "[][]interface") {
				return
			}
			ms, ok := ia.X.(*ssa.MakeSlice)
			if !ok || (an.Expr(ms.Len) != "len("+itemsParam(fn).Name()+")" && an.Expr(ms.Len) != "len("+an.Expr(src.X)+")") {
				return
			}
			if S := an.LoopSliceOf(ia.Index); S == nil || (S != src.X && S != ia.X && an.Expr(S) != itemsParam(fn).Name()) {
				return
			}
			if h := an.LoopHeaderOf(i); h != nil && everyIteration(fn, h.Succs[0], i.Block(), h) {
				okOut = true
				o.Site(i)
			}
		})
		if !okOut {
			o.Fail(p.Pos(fn.Pos()), "the batch function does not emit exactly one result per item in order")
		}
	})

	c.Check("R-PAIR", "makeBatchQuery: one tuple per filter, placeholders and args in lock step, tuple extracted with the group's own columns; empty filter short-circuits", 4, func(o *an.O) {
		fn := c.NeedFunc(sg, "makeBatchQuery")
		// tuples appended once per filter, unconditionally except the empty-filter return
		var tupApp ssa.Instruction
		an.Instrs(fn, func(i ssa.Instruction) {
			st, ok := i.(*ssa.Store)
			if !ok {
				return
			}
			if fa, ok := st.Addr.(*ssa.FieldAddr); ok && an.FieldName(fa.X.Type(), fa.Field) == "tuples" {
				tupApp = i
				o.Site(i)
				call, ok := st.Val.(*ssa.Call)
				if !ok {
					return
				}
				el := singleElem(call.Call.Args[1])
				ext, ok := el.(*ssa.Call)
				if !ok || !an.Mod(sg, "", "extractValuesTuple").Matches(ext.Common()) {
					o.FailAt(i, "a group's tuple is %s, not extractValuesTuple(filter, columns)", an.Expr(el))
					return
				}
				// columns argument = the columns that key the group
				colsArg := ext.Call.Args[1]
				okCols := false
				for _, k := range an.Calls(fn, an.Mod(sg, "", "columnsKey")) {
					if an.CallOf(k).Args[0] == colsArg {
						okCols = true
					}
				}
				if !okCols {
					o.FailAt(i, "the tuple is extracted with %s, which is not the column list that keys the group", an.Expr(colsArg))
				}
			}
		})
		if tupApp == nil {
			o.Fail(p.Pos(fn.Pos()), "makeBatchQuery no longer collects one value tuple per filter")
			return
		}
		h := an.LoopHeaderOf(tupApp)
		if h == nil {
			o.FailAt(tupApp, "tuples are not collected in the loop over all filters")
		} else if body := h.Succs[0]; !everyIteration(fn, body, tupApp.Block(), h) {
			o.FailAt(tupApp, "some filters can be skipped without contributing a tuple: their caller gets no rows")
		}
		// empty filter: returns the match-all clause
		okEmpty := false
		for _, e := range an.Exits(fn, false) {
			if s, ok := an.ConstString(e.(*ssa.Return).Results[0]); ok && s == "" {
				if strings.Contains(strings.Join(an.GuardStrings(e.Block()), " "), "== 0)") {
					okEmpty = true
					o.Site(e)
				}
			}
		}
		if !okEmpty {
			o.Fail(p.Pos(fn.Pos()), "an empty filter no longer short-circuits to the match-all clause")
		}
		// args appended with the whole tuple wherever placeholders are written
		nArgs := 0
		// the argument list, identified by role: what flows into the second result
		argFlow := map[ssa.Value]bool{}
		var back func(v ssa.Value)
		back = func(v ssa.Value) {
			if v == nil || argFlow[v] {
				return
			}
			argFlow[v] = true
			switch x := v.(type) {
			case *ssa.Phi:
				for _, e := range x.Edges {
					back(e)
				}
			case *ssa.Call:
				if b, ok := x.Call.Value.(*ssa.Builtin); ok && b.Name() == "append" {
					back(x.Call.Args[0])
				}
			}
		}
		for _, e := range an.Exits(fn, false) {
			if ret, ok := e.(*ssa.Return); ok && len(ret.Results) == 2 {
				back(ret.Results[1])
			}
		}
		an.Instrs(fn, func(i ssa.Instruction) {
			call, ok := i.(*ssa.Call)
			if !ok {
				return
			}
			if b, ok := call.Call.Value.(*ssa.Builtin); ok && b.Name() == "append" && argFlow[call] {
				nArgs++
				o.Site(i)
				if isSingleElementSlice(call.Call.Args[1]) {
					if el := singleElem(call.Call.Args[1]); el != nil && isConstNil(an.StripConv(el)) {
						return // the NULL argument of an `IS ?` placeholder
					}
					o.FailAt(i, "only one value of the tuple is appended to the SQL arguments")
				}
				if an.LoopHeaderOf(i) == nil {
					o.FailAt(i, "arguments are not appended per tuple")
				}
			}
		})
		if nArgs < 2 {
			o.Fail(p.Pos(fn.Pos()), "makeBatchQuery must append the tuple values for both the IN form and the AND form (found %d sites)", nArgs)
		}
	})

	c.Check("R-TABLE", "makeBatchQuery's clause renderer, evaluated for every (value is nil, values written so far, nil seen) assignment, emits exactly the fragments and arguments of the IN / IS / AND forms", 2, func(o *an.O) {
		ruleBatchClauseTable(c, o)
	})

	c.Check("R-SIBLING", "row matcher: filters are filed and rows looked up under the same key derivation, and every group is probed", 2, func(o *an.O) {
		ruleMatcherKeyAgreement(c, o)
	})

	c.Check("R-SIBLING", "NULL filter values are rendered with the IS form by both the unbatched and the batched renderer (an '= ?' / 'IN (?)' placeholder is only written for a non-nil value)", 4, func(o *an.O) {
		for _, nm := range []string{"makeBatchQuery", "(*SimpleWhere).ToSQL"} {
			fn := c.NeedFunc(sg, nm)
			nEq, nIs := 0, 0
			an.Instrs(fn, func(i ssa.Instruction) {
				cc := an.CallOf(i)
				if cc == nil {
					return
				}
				f := an.CalleeFunc(cc)
				if f == nil || f.Name() != "WriteString" || len(cc.Args) != 2 {
					return
				}
				lit, ok := an.ConstString(cc.Args[1])
				if !ok {
					return
				}
				switch strings.TrimSpace(lit) {
				case "=?", "= ?", "?":
					nEq++
					o.Site(i)
					okG := false
					for _, g := range an.GuardsOf(i.Block()) {
						bo, ok := g.Cond.(*ssa.BinOp)
						if !ok || !isConstNil(bo.Y) {
							continue
						}
						if (bo.Op == token.NEQ && g.Polarity) || (bo.Op == token.EQL && !g.Polarity) {
							okG = true
						}
					}
					if !okG {
						o.FailAt(i, "%s writes the placeholder %q for a value that may be nil: NULL never compares equal, so a filter on a NULL column matches no row (the sibling renderer uses `IS ?`)", nm, lit)
					}
				case "IS ?", "IS NULL":
					nIs++
					o.Site(i)
				}
			})
			if nEq == 0 || nIs == 0 {
				o.Fail(p.Pos(fn.Pos()), "%s must have both an equality/IN placeholder and an IS form (found %d/%d)", nm, nEq, nIs)
			}
		}
	})

	c.Check("R-GUARD", "batching is used only without options, outside a transaction, with batching on the context, after the limit check; sharded by table", 2, func(o *an.O) {
		fn := c.NeedFunc(sg, "(*DB).BaseQuery")
		n := 0
		an.Instrs(fn, func(i ssa.Instruction) {
			cc := an.CallOf(i)
			if cc == nil || !isStmtSink(cc) || cc.IsInvoke() || an.CalleeFunc(cc).Name() != "Invoke" {
				return
			}
			n++
			o.Site(i)
			gs := strings.Join(an.GuardStrings(i.Block()), " ; ")
			for _, want := range []string{".Options == nil)", ".HasTx(", "batch.HasBatching("} {
				if !strings.Contains(gs, want) {
					o.FailAt(i, "the batched path is taken without %s (guards: %s)", want, an.Short(gs, 120))
				}
			}
			if m := regexp.MustCompile(`(!?)[A-Za-z_][A-Za-z0-9_]*\.HasTx\(`).FindStringSubmatch(gs); m != nil && m[1] != "!" {
				o.FailAt(i, "the batched path is taken inside a transaction")
			}
			checks := an.Calls(fn, checkSpecs...)
			blk := an.NewBlocker()
			an.BlockSuccessEdges(fn, blk, checks)
			if an.Reach(fn, nil, blk)[i] {
				o.FailAt(i, "the batched path is reachable without the limit check having succeeded")
			}
			// evaluated, not matched: with options present (whatever they contain) the batched path is unreachable
			nOpt := 0
			sim := &an.BoolSim{Fn: fn, Atom: func(v ssa.Value) (bool, bool) {
				bo, ok := v.(*ssa.BinOp)
				if !ok || (bo.Op != token.EQL && bo.Op != token.NEQ) {
					return false, false
				}
				x := bo.X
				if isConstNil(x) {
					x = bo.Y
				} else if !isConstNil(bo.Y) {
					return false, false
				}
				if an.IsFieldAccess(x, "BaseSelectQuery", "Options") {
					nOpt++
					return bo.Op == token.NEQ, true // Options != nil
				}
				return false, false
			}}
			if sim.Run()[i.Block()] {
				o.FailAt(i, "a query that carries options (limit, order, where, locking, index hints) can still take the batched path, which renders none of them: it would be answered with rows it would not have returned on its own")
			} else if nOpt == 0 {
				o.FailAt(i, "BaseQuery never tests query.Options before batching")
			}
		})
		if n != 1 {
			o.Fail(p.Pos(fn.Pos()), "expected one batchFetch.Invoke in BaseQuery, found %d", n)
		}
		nd := c.NeedFunc(sg, "NewDB")
		okShard := false
		for _, l := range an.StructLits(nd, "Func") {
			if sh := an.ClosureArg(l.Fields["Shard"]); sh != nil {
				for _, e := range an.Exits(sh, false) {
					if strings.HasSuffix(an.Expr(e.(*ssa.Return).Results[0]), ".Table") {
						okShard = true
						o.Site(e)
					}
				}
			}
		}
		if !okShard {
			o.Fail(p.Pos(nd.Pos()), "batchFetch.Shard does not return the query's table")
		}
	})
}

func isEmptyStart(v ssa.Value) bool {
	switch x := v.(type) {
	case *ssa.MakeSlice:
		return true
	case *ssa.Const:
		return x.IsNil()
	case *ssa.Phi:
		return true
	}
	return false
}

// itemsParam: the []interface{} parameter of a batch function (closure or method).
func itemsParam(fn *ssa.Function) *ssa.Parameter {
	for _, pa := range fn.Params {
		if pa.Type().String() == "[]interface{}" {
			return pa
		}
	}
	return fn.Params[len(fn.Params)-1]
}

func keysOf(m map[string]bool) []string {
	var out []string
	for k := range m {
		out = append(out, k)
	}
	sort.Strings(out)
	return out
}

// isResourceOf reports whether res is the reactive resource of the tracked *dbResource obj: a load of obj.resource, or
// the value stored into obj.resource in fn.
func isResourceOf(fn *ssa.Function, res, obj ssa.Value) bool {
	obj = an.ThroughCell(obj)
	res = an.ThroughCell(res)
	isField := func(v ssa.Value) (*ssa.FieldAddr, bool) {
		fa, ok := v.(*ssa.FieldAddr)
		if !ok || !an.IsFieldAccess(fa, "dbResource", "resource") {
			return nil, false
		}
		return fa, an.ThroughCell(fa.X) == obj
	}
	if ld, ok := res.(*ssa.UnOp); ok && ld.Op == token.MUL {
		if _, ok := isField(ld.X); ok {
			return true
		}
	}
	found := false
	an.Instrs(fn, func(i ssa.Instruction) {
		if st, ok := i.(*ssa.Store); ok {
			if _, ok := isField(st.Addr); ok && an.ThroughCell(st.Val) == res {
				found = true
			}
		}
	})
	return found
}
