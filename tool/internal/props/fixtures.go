package props

func runFixtures() error { return nil }
