package props

import (
	"fmt"
	"go/constant"
	"go/token"
	"go/types"
	"sort"
	"strings"

	"golang.org/x/tools/go/ssa"

	"thunderlint/internal/an"
)

func init() {
	register("C09", "Decides structural conditions of schema merging in federation/merge_schemas.go and schema.go: the five sibling merges (input fields, fields, possible types, enum values, types) treat an entry present on one side only uniformly - kept exactly under mode == Union, dropped otherwise - and always keep an entry present on both sides; a one-sided non-null input field is rejected; mergeTypeRefs implements the nullability lattice (result non-null iff isInput || (aNonNull && bNonNull), evaluated over all valuations of the three atoms by abstract evaluation of the guard expression), recurses with the same isInput, and mergeFields / mergeInputFields pass false / true; versions of one service are merged with Intersection inside the per-service loop and services with Union afterwards; every iteration over a map that feeds output is sorted first; the kind tables of mergeTypeRefs, typeRef.String, lookupType(Ref) and parseSchema agree and are contained in mergeTypes'; processSchemaVersions hands every version of every service to the intersection; mergeTypeRefs only returns references it built or merged recursively, never one of its inputs unmerged. Not decided: the end-to-end consequence (a gateway-valid query validates on every version) and closure of referenced types, which also depend on the input schemas.", c09)
}

// evalBool evaluates a rendered boolean expression with &&, ||, ! and
// parentheses over named atoms.
type boolParser struct {
	s   string
	pos int
	env map[string]bool
	ok  bool
}

func (p *boolParser) skip() {
	for p.pos < len(p.s) && p.s[p.pos] == ' ' {
		p.pos++
	}
}

func (p *boolParser) parseOr() bool {
	v := p.parseAnd()
	for {
		p.skip()
		if strings.HasPrefix(p.s[p.pos:], "||") {
			p.pos += 2
			w := p.parseAnd()
			v = v || w
			continue
		}
		return v
	}
}

func (p *boolParser) parseAnd() bool {
	v := p.parseUnary()
	for {
		p.skip()
		if strings.HasPrefix(p.s[p.pos:], "&&") {
			p.pos += 2
			w := p.parseUnary()
			v = v && w
			continue
		}
		return v
	}
}

func (p *boolParser) parseUnary() bool {
	p.skip()
	if p.pos >= len(p.s) {
		p.ok = false
		return false
	}
	if p.s[p.pos] == '!' {
		p.pos++
		return !p.parseUnary()
	}
	if p.s[p.pos] == '(' {
		p.pos++
		v := p.parseOr()
		p.skip()
		if p.pos < len(p.s) && p.s[p.pos] == ')' {
			p.pos++
		} else {
			p.ok = false
		}
		return v
	}
	start := p.pos
	for p.pos < len(p.s) && (p.s[p.pos] == ':' || p.s[p.pos] == '_' || p.s[p.pos] == '.' || p.s[p.pos] >= '0' && p.s[p.pos] <= '9' || p.s[p.pos] >= 'a' && p.s[p.pos] <= 'z' || p.s[p.pos] >= 'A' && p.s[p.pos] <= 'Z') {
		p.pos++
	}
	atom := p.s[start:p.pos]
	v, ok := p.env[atom]
	if !ok {
		p.ok = false
	}
	return v
}

func evalBool(expr string, env map[string]bool) (bool, bool) {
	p := &boolParser{s: expr, env: env, ok: true}
	v := p.parseOr()
	p.skip()
	if p.pos != len(p.s) {
		p.ok = false
	}
	return v, p.ok
}

func c09(c *an.Ctx) {
	p := c.P

	siblings := []string{"mergeInputFields", "mergeFields", "mergePossibleTypes", "mergeEnumValues", "mergeSchemas"}
	c.Check("R-SIBLING", "the five sibling merges keep a one-sided entry exactly under mode == Union and always keep a two-sided entry", 5, func(o *an.O) {
		// Evaluated, not pattern-matched: with (entry is one-sided, mode is Union,
		// one-sided input is NON_NULL) fixed, the loop over the names is explored and
		// the appends to the merged list / the way back to the loop header must be
		// reachable exactly as the merge rules say.
		fedPkg := p.Pkg(fed)
		an.Need(fedPkg != nil, "package federation")
		modeConst := func(name string) string {
			obj, ok := fedPkg.Pkg.Scope().Lookup(name).(*types.Const)
			an.Need(ok, "federation."+name)
			return constant.StringVal(obj.Val())
		}
		unionVal, interVal := modeConst("Union"), modeConst("Intersection")
		for _, nm := range siblings {
			fn := c.NeedFunc(fed, nm)
			modeParam := ssa.Value(fn.Params[2])
			// the loop that looks at len(group)
			var h *ssa.BasicBlock
			an.Instrs(fn, func(i ssa.Instruction) {
				call, ok := i.(*ssa.Call)
				if !ok || h != nil {
					return
				}
				if b, ok := call.Call.Value.(*ssa.Builtin); ok && b.Name() == "len" {
					if _, isLookup := call.Call.Args[0].(*ssa.Lookup); isLookup {
						h = an.LoopHeaderOf(i)
					}
				}
			})
			if h == nil {
				o.Fail(p.Pos(fn.Pos()), "%s: no loop that tests the size of a name group", nm)
				continue
			}
			var appends []ssa.Instruction
			an.Instrs(fn, func(i ssa.Instruction) {
				call, ok := i.(*ssa.Call)
				if !ok {
					return
				}
				b, ok := call.Call.Value.(*ssa.Builtin)
				if !ok || b.Name() != "append" {
					return
				}
				if _, isElem := call.Call.Args[0].(*ssa.Lookup); isElem {
					return // types[name] = append(types[name], x): the grouping map
				}
				in := false
				for _, eh := range an.EnclosingLoops(i) {
					if eh == h {
						in = true
					}
				}
				if !in {
					return
				}
				appends = append(appends, i)
				o.Site(i)
			})
			if len(appends) == 0 {
				o.Fail(p.Pos(fn.Pos()), "%s: no append to the merged list inside the loop over the names", nm)
				continue
			}
			nS, nU := 0, 0
			run := func(single, union, nonNull, stopAtAppend bool) (appendReached, backEdge bool) {
				sim := &an.BoolSim{Fn: fn, Atom: func(v ssa.Value) (bool, bool) {
					bo, ok := v.(*ssa.BinOp)
					if !ok {
						return false, false
					}
					for k, pr := range [][2]ssa.Value{{bo.X, bo.Y}, {bo.Y, bo.X}} {
						// len(p) OP const
						if call, ok := pr[0].(*ssa.Call); ok {
							if b, ok := call.Call.Value.(*ssa.Builtin); ok && b.Name() == "len" {
								if _, isLookup := call.Call.Args[0].(*ssa.Lookup); isLookup {
									if cv, ok := an.ConstInt(pr[1]); ok {
										l := int64(2)
										if single {
											l = 1
										}
										x, y := l, cv
										if k == 1 {
											x, y = cv, l
										}
										nS++
										switch bo.Op {
										case token.EQL:
											return x == y, true
										case token.NEQ:
											return x != y, true
										case token.LSS:
											return x < y, true
										case token.GTR:
											return x > y, true
										case token.LEQ:
											return x <= y, true
										case token.GEQ:
											return x >= y, true
										}
									}
								}
							}
						}
						if bo.Op != token.EQL && bo.Op != token.NEQ {
							continue
						}
						if pr[0] == modeParam {
							if cs, ok := an.ConstString(pr[1]); ok {
								cur := interVal
								if union {
									cur = unionVal
								}
								nU++
								return (cur == cs) == (bo.Op == token.EQL), true
							}
						}
						if cs, ok := an.ConstString(pr[1]); ok && cs == "NON_NULL" && strings.HasSuffix(an.Expr(pr[0]), ".Type.Kind") {
							return nonNull == (bo.Op == token.EQL), true
						}
					}
					return false, false
				}}
				if stopAtAppend {
					sim.Stop = map[ssa.Instruction]bool{}
					for _, a := range appends {
						sim.Stop[a] = true
					}
				}
				reached := sim.Run()
				for _, a := range appends {
					if reached[a.Block()] {
						appendReached = true
					}
				}
				for k, pred := range h.Preds {
					if sim.In[h][k] && h.Dominates(pred) {
						backEdge = true
					}
				}
				return
			}
			for _, nonNull := range []bool{false, true} {
				if nonNull && nm != "mergeInputFields" {
					continue
				}
				// one-sided entries
				if got, _ := run(true, false, nonNull, false); got {
					o.FailAt(appends[0], "%s keeps an entry that only one side has without the mode being Union: an intersection would contain something one version does not support", nm)
				}
				got, _ := run(true, true, nonNull, false)
				_, skip := run(true, true, nonNull, true)
				if nm == "mergeInputFields" && nonNull {
					if got {
						o.FailAt(appends[0], "mergeInputFields keeps a required (non-null) argument that only one side knows")
					}
					for _, union := range []bool{false, true} {
						if _, back := run(true, union, true, false); back {
							o.FailAt(appends[0], "mergeInputFields no longer rejects a required (non-null) argument that only one side knows (mode union=%v): the other side's callers could never supply it, and an intersection silently drops a required argument so the gateway accepts queries one version rejects", union)
						}
					}
				} else {
					if !got {
						o.FailAt(appends[0], "%s drops an entry that only one side has although the mode is Union", nm)
					}
					if skip {
						o.FailAt(appends[0], "%s can skip a one-sided entry under Union without adding it", nm)
					}
				}
				// two-sided entries, in both modes
				for _, union := range []bool{false, true} {
					got, _ := run(false, union, nonNull, false)
					_, skip := run(false, union, nonNull, true)
					if !got || skip {
						o.FailAt(appends[0], "%s keeps an entry present on both sides only under a mode test or drops it (union=%v): the merged schema loses a field every version serves", nm, union)
					}
				}
			}
			if nS == 0 || nU == 0 {
				o.Fail(p.Pos(fn.Pos()), "%s: expected tests of len(group) and of the merge mode, found %d/%d", nm, nS, nU)
			}
		}
	})

	c.Check("R-FRESH", "mergeTypeRefs only returns references it built or merged recursively, never one of its inputs unmerged", 3, func(o *an.O) {
		ruleMergedTypeRefIsBuilt(c, o)
	})

	c.Check("R-POST", "processSchemaVersions hands every version of every service to the intersection (the collecting loops append on every iteration)", 3, func(o *an.O) {
		ruleEveryVersionMerged(c, o)
	})

	c.Check("R-BOOL", "mergeTypeRefs nullability lattice: non-null iff isInput || (aNonNull && bNonNull); recursion keeps isInput; callers pass false for outputs and true for inputs", 5, func(o *an.O) {
		fn := c.NeedFunc(fed, "mergeTypeRefs")
		// the NON_NULL wrapping return
		var wrapRet ssa.Instruction
		for _, l := range an.StructLits(fn, "introspectionTypeRef") {
			if k, ok := an.ConstString(l.Fields["Kind"]); ok && k == "NON_NULL" {
				for _, e := range an.Exits(fn, false) {
					if an.StripConv(e.(*ssa.Return).Results[0]) == ssa.Value(l.Alloc) {
						wrapRet = e
					}
				}
			}
		}
		if wrapRet == nil {
			o.Fail(p.Pos(fn.Pos()), "mergeTypeRefs never returns a NON_NULL wrapper")
			return
		}
		o.Site(wrapRet)
		// The decision is evaluated, not pattern-matched: for each of the eight
		// assignments of (a is NON_NULL, b is NON_NULL, isInput) the control flow is
		// explored with those atoms fixed (every other condition forks) and the
		// NON_NULL-wrapping return must be reachable exactly when the lattice says so.
		nAtoms := map[int]int{}
		kindAtom := func(v ssa.Value) (int, bool, bool) { // which parameter, negated, ok
			bo, ok := v.(*ssa.BinOp)
			if !ok || (bo.Op != token.EQL && bo.Op != token.NEQ) {
				return 0, false, false
			}
			for _, pr := range [][2]ssa.Value{{bo.X, bo.Y}, {bo.Y, bo.X}} {
				if k, ok := an.ConstString(pr[1]); !ok || k != "NON_NULL" {
					continue
				}
				ld, ok := pr[0].(*ssa.UnOp)
				if !ok || ld.Op != token.MUL {
					continue
				}
				fa, ok := ld.X.(*ssa.FieldAddr)
				if !ok || an.FieldName(fa.X.Type(), fa.Field) != "Kind" {
					continue
				}
				for k := 0; k < 2; k++ {
					if fa.X == ssa.Value(fn.Params[k]) {
						return k, bo.Op == token.NEQ, true
					}
				}
			}
			return 0, false, false
		}
		an.Instrs(fn, func(i ssa.Instruction) {
			if v, ok := i.(ssa.Value); ok {
				if k, _, ok := kindAtom(v); ok {
					nAtoms[k]++
					o.Site(i)
				}
			}
		})
		if nAtoms[0] == 0 || nAtoms[1] == 0 {
			o.FailAt(wrapRet, "the NON_NULL result is not conditional on the nullability of the inputs (no test of a.Kind / b.Kind against NON_NULL)")
			return
		}
		for mask := 0; mask < 8; mask++ {
			a, b, in := mask&1 != 0, mask&2 != 0, mask&4 != 0
			sim := &an.BoolSim{Fn: fn, Atom: func(v ssa.Value) (bool, bool) {
				if v == ssa.Value(fn.Params[2]) {
					return in, true
				}
				if k, neg, ok := kindAtom(v); ok {
					val := a
					if k == 1 {
						val = b
					}
					return val != neg, true
				}
				return false, false
			}}
			got := sim.Run()[wrapRet.Block()]
			want := (a || b) && (in || (a && b))
			if got != want {
				o.FailAt(wrapRet, "nullability lattice wrong for aNonNull=%v bNonNull=%v isInput=%v: the merged type is non-null=%v, expected %v (an output may only be non-null if every side guarantees it; an input is required if any side requires it)", a, b, in, got, want)
				return
			}
		}
		// recursion keeps isInput
		for _, call := range an.Calls(fn, an.Mod(fed, "", "mergeTypeRefs")) {
			o.Site(call)
			if an.CallOf(call).Args[2] != ssa.Value(fn.Params[2]) {
				o.FailAt(call, "the recursive merge passes %s instead of isInput", an.Expr(an.CallOf(call).Args[2]))
			}
		}
		for _, pr := range []struct {
			fn   string
			want string
		}{{"mergeFields", "false"}, {"mergeInputFields", "true"}} {
			f := c.NeedFunc(fed, pr.fn)
			calls := an.Calls(f, an.Mod(fed, "", "mergeTypeRefs"))
			if len(calls) == 0 {
				o.Fail(p.Pos(f.Pos()), "%s does not merge the types of two-sided entries", pr.fn)
			}
			for _, call := range calls {
				o.Site(call)
				if got := an.Expr(an.CallOf(call).Args[2]); got != pr.want {
					o.FailAt(call, "%s merges types with isInput=%s, expected %s", pr.fn, got, pr.want)
				}
			}
		}
		// mergeFields merges arguments as inputs
		mf := c.NeedFunc(fed, "mergeFields")
		if len(an.Calls(mf, an.Mod(fed, "", "mergeInputFields"))) == 0 {
			o.Fail(p.Pos(mf.Pos()), "mergeFields does not merge the arguments of a field present on both sides")
		}
	})

	c.Check("R-PROV", "the merge mode is handed down unchanged: every merge function that receives a MergeMode passes that very value to the merge functions it calls (no per-type or per-field override of Intersection)", 6, func(o *an.O) {
		isMode := func(t types.Type) bool {
			n := an.NamedOf(t)
			return n != nil && n.Obj().Name() == "MergeMode"
		}
		n := 0
		for _, fn := range p.ModuleFuncs(func(rel string) bool { return rel == fed }) {
			var own ssa.Value
			for _, prm := range fn.Params {
				if isMode(prm.Type()) {
					own = prm
				}
			}
			if own == nil {
				continue
			}
			for _, g := range an.WithAnons(fn) {
				an.Instrs(g, func(i ssa.Instruction) {
					cc := an.CallOf(i)
					if cc == nil {
						return
					}
					callee := cc.StaticCallee()
					if callee == nil {
						return
					}
					for k, prm := range callee.Params {
						if !isMode(prm.Type()) || k >= len(cc.Args) {
							continue
						}
						n++
						o.Site(i)
						arg := cc.Args[k]
						if fv, ok := arg.(*ssa.FreeVar); ok && g != fn {
							_ = fv
							continue // a closure using the enclosing function's mode
						}
						if arg != own {
							o.FailAt(i, "%s merges with %s instead of the mode it was given: under Intersection a part of the schema would be merged as a Union (or the reverse), so the gateway advertises something one of the live versions rejects", an.QualName(fn), an.Short(an.Expr(arg), 60))
						}
					}
				})
			}
		}
		if n < 6 {
			o.Undecided("found only %d calls that hand a MergeMode down (expected the merge functions' calls of each other)", n)
		}
	})

	c.Check("R-CONST", "versions of one service are intersected inside the per-service loop; services are united afterwards", 3, func(o *an.O) {
		modeOf := func(v ssa.Value) string { s, _ := an.ConstString(an.StripConv(v)); return s }
		psv := c.NeedFunc(fed, "processSchemaVersions")
		calls := an.Calls(psv, an.Mod(fed, "", "mergeSchemaSlice"))
		if len(calls) != 1 {
			o.Fail(p.Pos(psv.Pos()), "expected one mergeSchemaSlice call in processSchemaVersions, found %d", len(calls))
		}
		for _, call := range calls {
			o.Site(call)
			if m := modeOf(an.CallOf(call).Args[1]); m != "intersection" {
				o.FailAt(call, "versions of one service are merged with mode %q, not Intersection: the gateway would accept queries an older version cannot execute", m)
			}
			if an.LoopHeaderOf(call) == nil {
				o.FailAt(call, "versions are not merged per service (call outside the loop over services)")
			}
		}
		for _, nm := range []string{"MergeIntrospectionSchemas", "ConvertVersionedSchemas"} {
			fn := c.NeedFunc(fed, nm)
			cs := an.Calls(fn, an.Mod(fed, "", "mergeSchemaSlice"))
			if len(cs) != 1 {
				o.Fail(p.Pos(fn.Pos()), "expected one mergeSchemaSlice call in %s", nm)
				continue
			}
			o.Site(cs[0])
			if m := modeOf(an.CallOf(cs[0]).Args[1]); m != "union" {
				o.FailAt(cs[0], "%s merges services with mode %q, not Union", nm, m)
			}
			// its argument is the per-service result of processSchemaVersions
			arg := an.CallOf(cs[0]).Args[0]
			ex, ok := arg.(*ssa.Extract)
			if !ok || ex.Index != 1 {
				o.FailAt(cs[0], "%s unites %s, not the per-service intersections", nm, an.Expr(arg))
			} else if call, ok := ex.Tuple.(*ssa.Call); !ok || !an.Mod(fed, "", "processSchemaVersions").Matches(call.Common()) {
				o.FailAt(cs[0], "%s unites %s, not the per-service intersections", nm, an.Expr(arg))
			}
		}
		// mergeSchemaSlice folds every schema with the same mode
		mss := c.NeedFunc(fed, "mergeSchemaSlice")
		for _, call := range an.Calls(mss, an.Mod(fed, "", "mergeSchemas")) {
			if an.CallOf(call).Args[2] != ssa.Value(mss.Params[1]) {
				o.FailAt(call, "mergeSchemaSlice does not pass its mode on")
			}
			if an.LoopHeaderOf(call) == nil {
				o.FailAt(call, "mergeSchemaSlice does not fold all schemas")
			}
		}
	})

	c.Check("R-ITER", "order independence: slices filled while ranging over a map are sorted before use", 7, func(o *an.O) {
		files := map[string]bool{"merge_schemas.go": true, "schema.go": true}
		for _, fn := range p.ModuleFuncs(func(rel string) bool { return rel == fed }) {
			if !files[baseName(p.Fset.Position(fn.Pos()).Filename)] {
				continue
			}
			// slices sorted in this function
			sorted := map[ssa.Value]bool{}
			a := newAlignment(fn)
			for _, call := range an.Calls(fn, an.CalleeSpec{Pkg: "sort", Name: "Strings"}, an.CalleeSpec{Pkg: "sort", Name: "Slice"}, an.CalleeSpec{Pkg: "sort", Name: "SliceStable"}) {
				arg := an.StripConv(an.CallOf(call).Args[0])
				sorted[arg] = true
			}
			isSorted := func(v ssa.Value) bool {
				for s := range sorted {
					if a.find(a.key(s)) == a.find(a.key(v)) {
						return true
					}
				}
				return false
			}
			an.Instrs(fn, func(i ssa.Instruction) {
				call, ok := i.(*ssa.Call)
				if !ok {
					return
				}
				b, ok := call.Call.Value.(*ssa.Builtin)
				if !ok || b.Name() != "append" {
					return
				}
				// inside a loop over a map?
				inMapLoop := false
				for _, h := range an.EnclosingLoops(i) {
					for _, j := range h.Instrs {
						if nx, ok := j.(*ssa.Next); ok && !nx.IsString {
							if r, ok := nx.Iter.(*ssa.Range); ok {
								if _, isMap := r.X.Type().Underlying().(interface{ Key() interface{} }); isMap {
									inMapLoop = true
								}
								if strings.HasPrefix(r.X.Type().Underlying().String(), "map[") {
									inMapLoop = true
								}
							}
						}
					}
				}
				if !inMapLoop {
					return
				}
				// appending to an element of a map (per-key bucket) is order independent
				if _, isLookup := call.Call.Args[0].(*ssa.Lookup); isLookup {
					return
				}
				o.Site(i)
				if !isSorted(call) && !isSorted(call.Call.Args[0]) {
					o.FailAt(i, "%s appends to %s while iterating over a map and never sorts it: the merged schema would depend on Go's random map order (and on how services and versions are named)", an.QualName(fn), an.Short(an.Expr(call.Call.Args[0]), 40))
				}
			})
		}
	})

	c.Check("R-TABLE", "kind tables agree: mergeTypeRefs = typeRef.String = lookupType = lookupTypeRef = parseSchema, all within mergeTypes", 6, func(o *an.O) {
		pp := p.PkgSyntax(fed)
		kindsOf := func(name string, idx int) []string {
			fd, _ := p.FuncDecl(fed, name)
			an.Need(fd != nil, name)
			var sws []an.SwitchInfo
			for _, sw := range an.Switches(fd, pp) {
				if !sw.IsType && strings.HasSuffix(sw.Tag, "Kind") {
					sws = append(sws, sw)
				}
			}
			an.Need(len(sws) > idx, fmt.Sprintf("kind switch #%d in %s", idx, name))
			o.SitePos(p.Pos(sws[idx].Node.Pos()))
			return sws[idx].AllCaseTypes()
		}
		strip := func(ks []string, drop ...string) []string {
			var out []string
		next:
			for _, k := range ks {
				for _, d := range drop {
					if k == d {
						continue next
					}
				}
				out = append(out, k)
			}
			sort.Strings(out)
			return out
		}
		ref := strip(kindsOf("mergeTypeRefs", 0), `"LIST"`, `"NON_NULL"`)
		tables := map[string][]string{
			"introspectionTypeRef.String": strip(kindsOf("introspectionTypeRef.String", 0), `"LIST"`, `"NON_NULL"`),
			"lookupType":                  strip(kindsOf("lookupType", 0), `"LIST"`, `"NON_NULL"`),
			"lookupTypeRef":               strip(kindsOf("lookupTypeRef", 0), `"LIST"`, `"NON_NULL"`),
			"parseSchema (first pass)":    strip(kindsOf("parseSchema", 0)),
			"parseSchema (second pass)":   strip(kindsOf("parseSchema", 1)),
		}
		for name, ks := range tables {
			a, b := an.SetDiff(ref, ks)
			if len(a) > 0 || len(b) > 0 {
				o.Fail("federation/schema.go", "kind table of %s differs from mergeTypeRefs: missing %v, extra %v (a merged schema could contain a kind the gateway cannot build or look up)", name, a, b)
			}
		}
		mt := strip(kindsOf("mergeTypes", 0))
		missing, _ := an.SetDiff(ref, mt)
		if len(missing) > 0 {
			o.Fail("federation/merge_schemas.go", "mergeTypes cannot merge kinds %v that type references may name", missing)
		}
		// mergeTypeRefs handles LIST recursively and NON_NULL by unwrapping; unknown kinds are errors
		fd, _ := p.FuncDecl(fed, "mergeTypeRefs")
		for _, sw := range an.Switches(fd, pp) {
			if d := sw.HasDefault(); d == nil || !an.EndsInPanicOrError(d.Body) {
				o.Fail(p.Pos(sw.Node.Pos()), "mergeTypeRefs silently accepts unknown kinds")
			}
		}
	})
	_ = token.ADD
}

// nonNullFlag returns the rendering of the boolean phi in fn that is set to
// true exactly under `<param k>.Kind == "NON_NULL"` ("" if none).
func nonNullFlag(fn *ssa.Function, k int) string {
	out := ""
	an.Instrs(fn, func(i ssa.Instruction) {
		phi, ok := i.(*ssa.Phi)
		if !ok || out != "" {
			return
		}
		for e, v := range phi.Edges {
			cst, ok := v.(*ssa.Const)
			if !ok || cst.Value == nil || cst.Value.ExactString() != "true" {
				continue
			}
			pred := phi.Block().Preds[e]
			for _, g := range an.GuardsOf(pred) {
				bo, ok := g.Cond.(*ssa.BinOp)
				if !ok || bo.Op != token.EQL || !g.Polarity {
					continue
				}
				if s, ok := an.ConstString(bo.Y); !ok || s != "NON_NULL" {
					continue
				}
				if paramRoot(bo.X) == fn.Params[k] {
					out = an.Expr(phi)
				}
			}
			// the If may be in pred itself's predecessor chain when pred is the then-block
			if out == "" && len(pred.Preds) == 1 {
				if iff, ok := pred.Preds[0].Instrs[len(pred.Preds[0].Instrs)-1].(*ssa.If); ok && pred.Preds[0].Succs[0] == pred {
					if bo, ok := iff.Cond.(*ssa.BinOp); ok && bo.Op == token.EQL {
						if s, ok := an.ConstString(bo.Y); ok && s == "NON_NULL" && paramRoot(bo.X) == fn.Params[k] {
							out = an.Expr(phi)
						}
					}
				}
			}
		}
	})
	return out
}

// paramRoot walks loads / field selections / phis back to the parameter a value is rooted at.
func paramRoot(v ssa.Value) *ssa.Parameter {
	seen := map[ssa.Value]bool{}
	for d := 0; d < 12 && v != nil && !seen[v]; d++ {
		seen[v] = true
		switch x := v.(type) {
		case *ssa.Parameter:
			return x
		case *ssa.UnOp:
			v = x.X
		case *ssa.FieldAddr:
			v = x.X
		case *ssa.Field:
			v = x.X
		case *ssa.Phi:
			// all parameter-rooted edges must agree; prefer the parameter edge
			var pr *ssa.Parameter
			for _, e := range x.Edges {
				if p, ok := e.(*ssa.Parameter); ok {
					pr = p
				}
			}
			return pr
		default:
			return nil
		}
	}
	return nil
}
