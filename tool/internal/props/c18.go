package props

import (
	"go/token"
	"go/types"
	"strings"

	"golang.org/x/tools/go/ssa"

	"thunderlint/internal/an"
)

func init() {
	register("C18", "Decides structural conditions of 'arguments reach resolvers exactly as sent': valueToJson returns only the JSON shapes a variable can have (float64 via ParseInt/ParseFloat, string, bool, map[string]interface{}, []interface{}, nil, or a variable's value unchanged) and errors otherwise; every entry of the scalar argument-parser table asserts the JSON type matching its key's kind (numbers float64, strings/bytes/time string, bool bool), returns an error when the assertion fails, and converts through the key's own type (one recorded exception: uint64 through int64); optional wrappers return nil without touching the destination or calling the inner parser when the value is nil and otherwise return the inner parser's error; struct parsers visit every field and slice parsers size to the input and parse every index, propagating errors; in Parse a default is installed only when no non-null value was supplied, non-null variables with defaults are rejected, and the caller's variables map is never written; Field.ParseArguments is invoked only by validation (prepareQuery), once per selection, and resolvers receive selection.Args; the pointer parser sets its destination whenever the inner parser accepted the value (a sent zero value is not turned into nil). Not decided: value equality for every type and magnitude.", c18)
}

func c18(c *an.Ctx) {
	p := c.P

	c.Check("R-SHAPE", "valueToJson returns only JSON shapes (float64, string, bool, object, list, nil, variable value) or an error", 8, func(o *an.O) {
		fn := c.NeedFunc(gq, "valueToJson")
		allowed := map[string]bool{"float64": true, "string": true, "bool": true, "map[string]interface{}": true, "[]interface{}": true}
		for _, e := range an.Exits(fn, false) {
			ret := e.(*ssa.Return)
			if !isConstNil(ret.Results[1]) {
				if !isConstNil(ret.Results[0]) {
					o.FailAt(e, "valueToJson returns a value together with an error")
				}
				continue
			}
			o.Site(e)
			v := ret.Results[0]
			if isConstNil(v) {
				continue
			}
			if mi, ok := v.(*ssa.MakeInterface); ok {
				t := mi.X.Type().String()
				if !allowed[t] {
					o.FailAt(e, "a literal is converted to a Go value of type %s; variables only ever carry float64/string/bool/map/slice/nil, so the same argument would reach the resolver differently as literal and as variable", t)
				}
				// ints: float64(ParseInt(...))
				if cv, ok := mi.X.(*ssa.Convert); ok {
					src := an.Expr(cv.X)
					if !strings.Contains(src, "strconv.ParseInt(") && !strings.Contains(src, "strconv.ParseFloat(") {
						o.FailAt(e, "numeric literal converted from %s", src)
					}
				}
				continue
			}
			// an interface value passed through: only a variable's value (lookup in vars) or the result of the recursion
			s := an.Expr(v)
			if strings.Contains(s, fn.Params[1].Name()+"[") || strings.Contains(s, "valueToJson(") {
				continue
			}
			o.FailAt(e, "valueToJson returns %s, which is neither a JSON shape nor a variable's value", an.Short(s, 60))
		}
	})

	c.Check("R-TABLE", "scalar argument parsers: JSON assertion matches the key's kind, failure is an error, conversion goes through the key's own type", 16, func(o *an.O) {
		// SSA form of the table's closures (helpers such as a shared "assert number" function are inlined)
		exceptions := map[string]string{
			"uint64": "int64", // float64 -> uint64 is implementation-defined from 2^63 up; int64 is exact on the float64-exact range the property covers
		}
		sp := p.Pkg(sbp)
		an.Need(sp != nil, "package schemabuilder")
		initFn := sp.Func("init")
		an.Need(initFn != nil, "schemabuilder package initialiser")
		n := 0
		an.Instrs(initFn, func(i ssa.Instruction) {
			mu, ok := i.(*ssa.MapUpdate)
			if !ok {
				return
			}
			// key: reflect.TypeOf(<value of the Go type>)
			kc, ok := mu.Key.(*ssa.Call)
			if !ok || len(kc.Call.Args) != 1 {
				return
			}
			if f := an.CalleeFunc(kc.Common()); f == nil || f.Name() != "TypeOf" || f.Pkg() == nil || f.Pkg().Path() != "reflect" {
				return
			}
			mi, ok := kc.Call.Args[0].(*ssa.MakeInterface)
			if !ok {
				return
			}
			// value: &argParser{FromJSON: closure}
			al, ok := mu.Value.(*ssa.Alloc)
			if !ok {
				return
			}
			if nn := an.NamedOf(al.Type()); nn == nil || nn.Obj().Name() != "argParser" {
				return
			}
			var cl *ssa.Function
			for _, r := range *al.Referrers() {
				fa, ok := r.(*ssa.FieldAddr)
				if !ok || an.FieldName(fa.X.Type(), fa.Field) != "FromJSON" {
					continue
				}
				for _, r2 := range *fa.Referrers() {
					if st, ok := r2.(*ssa.Store); ok && st.Addr == ssa.Value(fa) {
						switch x := an.StripConv(st.Val).(type) {
						case *ssa.Function:
							cl = x
						case *ssa.MakeClosure:
							cl, _ = x.Fn.(*ssa.Function)
						}
					}
				}
			}
			if cl == nil || len(cl.Params) != 2 {
				return
			}
			n++
			o.Site(i)
			keyT := mi.X.Type()
			key := keyT.String()
			wantJSON := "string"
			if b, ok := keyT.Underlying().(*types.Basic); ok {
				switch {
				case b.Info()&types.IsNumeric != 0:
					wantJSON = "float64"
				case b.Info()&types.IsBoolean != 0:
					wantJSON = "bool"
				}
			}
			value := ssa.Value(cl.Params[0])
			var asserted []string
			var tas []*ssa.TypeAssert
			an.Instrs(cl, func(j ssa.Instruction) {
				if ta, ok := j.(*ssa.TypeAssert); ok && ta.X == value {
					asserted = append(asserted, ta.AssertedType.String())
					tas = append(tas, ta)
				}
			})
			okAssert := len(asserted) > 0
			for _, a := range asserted {
				if a != wantJSON {
					okAssert = false
				}
			}
			if !okAssert {
				o.FailAt(i, "the %s argument parser asserts the JSON value to be %v; a %s arrives as %s (a literal and a variable would be treated differently / always rejected)", key, asserted, key, wantJSON)
			}
			// a failed assertion is an error: with the ok-edges blocked every reachable return carries an error
			blk := an.NewBlocker()
			nOk := 0
			for _, ta := range tas {
				if !ta.CommaOk {
					continue
				}
				okv := extractOf(ta, 1)
				for _, ci := range an.CondIfs(cl, func(v ssa.Value) bool { return v == okv }) {
					blk.AddEdge(ci.If.Block(), ci.True)
					nOk++
				}
			}
			errOnFail := nOk > 0
			if errOnFail {
				r := an.Reach(cl, nil, blk)
				for _, e := range an.Exits(cl, false) {
					if ret, ok := e.(*ssa.Return); ok && r[e] && len(ret.Results) == 1 && isConstNil(ret.Results[0]) {
						errOnFail = false
					}
				}
			}
			if !errOnFail {
				o.FailAt(i, "the %s argument parser does not return an error when the JSON value has the wrong kind", key)
			}
			// conversions of the asserted value on the way into reflect.ValueOf
			var conv []string
			an.Instrs(cl, func(j ssa.Instruction) {
				cc := an.CallOf(j)
				if cc == nil {
					return
				}
				if f := an.CalleeFunc(cc); f == nil || f.Name() != "ValueOf" || f.Pkg() == nil || f.Pkg().Path() != "reflect" {
					return
				}
				m2, ok := cc.Args[0].(*ssa.MakeInterface)
				if !ok {
					return
				}
				if cv, ok := m2.X.(*ssa.Convert); ok {
					conv = append(conv, cv.Type().String())
				}
			})
			for _, cv := range conv {
				if cv == key || exceptions[key] == cv {
					continue
				}
				o.FailAt(i, "the %s argument parser converts through %s: values outside %s's range are silently changed before reaching the resolver", key, cv, cv)
			}
			if wantJSON == "float64" && key != "float64" && len(conv) == 0 {
				o.FailAt(i, "the %s argument parser does not convert the float64 to %s", key, key)
			}
		})
		if n < 16 {
			o.Undecided("found %d scalar argument parsers (expected >= 16)", n)
		}
	})

	optional := func(o *an.O, name string) {
		fn := c.NeedFunc(sbp, name)
		cls := an.WithAnons(fn)
		if len(cls) < 2 {
			o.Fail(p.Pos(fn.Pos()), "%s no longer builds a FromJSON closure", name)
			return
		}
		cl := cls[1]
		value, dest := cl.Params[0], cl.Params[1]
		o.SitePos(p.Pos(cl.Pos()))
		// on the nil path: return nil, no dest use, no inner call
		blk := an.NewBlocker()
		nIf := 0
		for _, nt := range an.NilTestsWhere(cl, func(v ssa.Value) bool { return v == ssa.Value(value) }) {
			blk.AddEdge(nt.If.Block(), nt.NonNil)
			nIf++
			if !isReturnNil(cl, nt.NilSucc) {
				o.FailAt(nt.If, "%s: a nil (absent) value does not simply return nil", name)
			}
		}
		if nIf == 0 {
			o.Fail(p.Pos(cl.Pos()), "%s does not test the value for nil: an omitted optional argument would be handed to the inner parser and rejected", name)
			return
		}
		reach := an.Reach(cl, nil, blk)
		an.Instrs(cl, func(i ssa.Instruction) {
			cc := an.CallOf(i)
			if cc == nil || !reach[i] {
				return
			}
			for _, a := range cc.Args {
				if a == ssa.Value(dest) {
					o.FailAt(i, "%s touches the destination although the value is nil (an omitted optional must arrive as nil / zero)", name)
				}
			}
			if an.IsFieldAccess(cc.Value, "argParser", "FromJSON") {
				o.FailAt(i, "%s calls the inner parser although the value is nil", name)
			}
		})
		// non-nil path: inner called, its error returned
		inner := false
		an.Instrs(cl, func(i ssa.Instruction) {
			if cc := an.CallOf(i); cc != nil && an.IsFieldAccess(cc.Value, "argParser", "FromJSON") {
				inner = true
				o.Site(i)
				if cc.Args[0] != ssa.Value(value) {
					o.FailAt(i, "the inner parser is given %s instead of the value", an.Expr(cc.Args[0]))
				}
				v := i.(ssa.Value)
				if !errorUsed(v) {
					o.FailAt(i, "the inner parser's error is dropped")
				}
			}
		})
		if !inner {
			o.Fail(p.Pos(cl.Pos()), "%s never calls the inner parser", name)
		}
	}
	c.Check("R-POST", "wrapPtrParser: once the inner parser accepted the value the destination is set on every path (a sent zero value is still a sent value)", 1, func(o *an.O) {
		rulePtrParserAlwaysSets(c, o)
	})
	c.Check("R-GUARD", "wrapPtrParser: nil value returns nil without touching dest or calling inner; otherwise inner's error is returned", 2, func(o *an.O) { optional(o, "wrapPtrParser") })
	c.Check("R-GUARD", "wrapWithZeroValue: nil value returns nil without touching dest or calling inner; otherwise inner's error is returned", 2, func(o *an.O) { optional(o, "wrapWithZeroValue") })

	c.Check("R-POST", "struct parsers visit every field, slice parsers size to the input and parse every index; errors propagate", 3, func(o *an.O) {
		sp := c.NeedFunc(sbp, "(*schemaBuilder).makeStructParser")
		cls := an.WithAnons(sp)
		an.Need(len(cls) >= 2, "struct parser closure")
		cl := cls[1]
		okLoop := false
		an.Instrs(cl, func(i ssa.Instruction) {
			cc := an.CallOf(i)
			if cc == nil || !an.IsFieldAccess(cc.Value, "argParser", "FromJSON") {
				return
			}
			o.Site(i)
			h := an.LoopHeaderOf(i)
			if h == nil {
				o.FailAt(i, "field parser is not called inside the loop over all fields")
				return
			}
			for _, j := range h.Instrs {
				if nx, ok := j.(*ssa.Next); ok {
					if r, ok := nx.Iter.(*ssa.Range); ok && strings.Contains(an.Expr(r.X), "fields") {
						okLoop = true
					}
				}
			}
			if !errorUsed(i.(ssa.Value)) {
				o.FailAt(i, "a field parser's error is dropped")
			}
			// the value handed over is asMap[name] of the same iteration
			if !strings.Contains(an.Expr(cc.Args[0]), "[") {
				o.FailAt(i, "the field parser is given %s, not the argument's entry for this field", an.Expr(cc.Args[0]))
			}
			// every continuing path of the loop passes the call
			body := h.Succs[0]
			if len(body.Instrs) > 0 && an.Reach(cl, body.Instrs[0], an.NewBlocker(i))[h.Instrs[0]] {
				o.FailAt(i, "some fields can be skipped without being parsed")
			}
		})
		if !okLoop {
			o.Fail(p.Pos(cl.Pos()), "the struct parser does not range over all fields of the argument struct")
		}
		sl := c.NeedFunc(sbp, "(*schemaBuilder).makeSliceParser")
		cls2 := an.WithAnons(sl)
		an.Need(len(cls2) >= 2, "slice parser closure")
		cl2 := cls2[1]
		okSize, okIdx := false, false
		an.Instrs(cl2, func(i ssa.Instruction) {
			cc := an.CallOf(i)
			if cc == nil {
				return
			}
			if f := an.CalleeFunc(cc); f != nil && f.Name() == "MakeSlice" {
				o.Site(i)
				if strings.HasPrefix(an.Expr(cc.Args[1]), "len(") && an.Expr(cc.Args[1]) == an.Expr(cc.Args[2]) {
					okSize = true
				} else {
					o.FailAt(i, "the destination slice is sized %s/%s, not len(input)", an.Expr(cc.Args[1]), an.Expr(cc.Args[2]))
				}
			}
			if an.IsFieldAccess(cc.Value, "argParser", "FromJSON") {
				o.Site(i)
				if !errorUsed(i.(ssa.Value)) {
					o.FailAt(i, "an element parser's error is dropped")
				}
				// dest.Index(i) with the loop index, value = asSlice[i]
				dst := an.Expr(cc.Args[1])
				if strings.Contains(dst, ".Index(#i)") || strings.Contains(dst, ".Index((phi:rangeindex + 1))") {
					okIdx = true
				} else if idxCall, ok := cc.Args[1].(*ssa.Call); ok && len(idxCall.Call.Args) == 2 && an.IsRangeIndex(idxCall.Call.Args[1]) {
					okIdx = true
				} else {
					o.FailAt(i, "element parsed into %s, not into dest.Index(i)", dst)
				}
			}
		})
		if !okSize || !okIdx {
			o.Fail(p.Pos(cl2.Pos()), "the slice parser must allocate len(input) elements and parse element i into index i (size:%v index:%v)", okSize, okIdx)
		}
	})

	c.Check("R-GUARD+R-FRESH", "Parse: a default is used only when no non-null value was supplied; non-null variables with defaults are rejected; the caller's variables map is never written", 4, func(o *an.O) {
		ruleParseDefaults(c, o, "")
	})

	c.Check("R-WHO", "arguments are parsed once, by validation: Field.ParseArguments is only invoked from prepareQuery, guarded by the parsed flag; resolvers get selection.Args", 3, func(o *an.O) {
		n := 0
		for _, fn := range p.ModuleFuncs(nil) {
			for _, dc := range an.DynCallsThrough(fn, "Field", "ParseArguments") {
				n++
				o.Site(dc)
				full := an.RelPkg(fn) + "." + an.QualName(fn)
				if full != "graphql.prepareQuery" {
					o.FailAt(dc, "%s invokes Field.ParseArguments: arguments must be parsed once, before execution (a failure here would surface mid-execution instead of as a client error)", full)
					continue
				}
				okFlag := false
				for _, g := range an.GuardStrings(dc.Block()) {
					if strings.HasSuffix(g, ".parsed") && strings.HasPrefix(g, "!") {
						okFlag = true
					}
				}
				if !okFlag {
					o.FailAt(dc, "ParseArguments is not guarded by the selection's parsed flag (a selection shared by several spreads would be re-parsed)")
				}
				// result stored into selection.Args on success
				okStore := false
				for _, r := range an.FieldRefs(fn, gqPath(), "Selection", "Args") {
					if r.Kind == "store" {
						if ex, ok := r.Val.(*ssa.Extract); ok && ex.Tuple == dc.(ssa.Value) && ex.Index == 0 {
							okStore = true
						}
					}
				}
				if !okStore {
					o.FailAt(dc, "the parsed arguments are not stored in selection.Args")
				}
			}
		}
		if n == 0 {
			o.Fail("graphql/executor.go", "Field.ParseArguments is never invoked")
		}
		// resolvers receive unit.selection.Args
		for _, nm := range []string{"executeBatchWorkUnit", "executeNonExpensiveWorkUnit", "executeNonBatchWorkUnit"} {
			fn := c.NeedFunc(gq, nm)
			for _, call := range an.Calls(fn, an.Mod(gq, "", "SafeExecuteResolver"), an.Mod(gq, "", "SafeExecuteBatchResolver")) {
				o.Site(call)
				if a := an.Expr(an.CallOf(call).Args[3]); !strings.HasSuffix(a, ".selection.Args") {
					o.FailAt(call, "%s hands %s to the resolver instead of the arguments parsed during validation", nm, a)
				}
			}
		}
	})
}

// ruleParseUsesDefaultedVars (C18, C19): every selection set of a query - the operation's and
// those of named fragment definitions - is parsed with the variables after defaults were
// applied; argument values and directive conditions ($v in @skip(if: $v)) are bound there.
func ruleParseUsesDefaultedVars(c *an.Ctx, o *an.O) {
	fn := c.NeedFunc(gq, "Parse")
	vars := fn.Params[1]
	n := 0
	for _, call := range an.Calls(fn, an.Mod(gq, "", "parseSelectionSet")) {
		n++
		o.Site(call)
		if a := an.CallOf(call).Args[2]; a == ssa.Value(vars) {
			o.FailAt(call, "selection sets are parsed with the caller's variables, ignoring defaults: a variable left to its default is unbound in arguments and in @skip/@include conditions written there (\"required argument in directive not provided: if\")")
		}
	}
	if n == 0 {
		o.Fail(c.P.Pos(fn.Pos()), "Parse no longer parses selection sets")
	}
}

// ruleParseDefaults (C18, shared with C15 and C19): Parse installs a variable's default only when
// no non-null value was supplied, rejects defaults on non-null variables and never writes
// into the caller's variables map (a nil map would panic, a shared one leaks between runs).
func ruleParseDefaults(c *an.Ctx, o *an.O, part string) {
	p := c.P
	_ = p
	fn := c.NeedFunc(gq, "Parse")
	vars := fn.Params[1]
	an.Instrs(fn, func(i ssa.Instruction) {
		mu, ok := i.(*ssa.MapUpdate)
		if !ok || !strings.Contains(mu.Map.Type().String(), "map[string]interface") {
			return
		}
		o.Site(i)
		if !freshValue(mu.Map) {
			if part == "" || part == "write" {
				o.FailAt(i, "Parse writes into %s: the caller's variables map must not be modified (it is reused across re-executions of a subscription)", an.Expr(mu.Map))
			}
			return
		}
		// writes of defaults (value derived from valueToJson) only when vars[name] == nil
		if strings.Contains(an.Expr(mu.Value), "valueToJson(") {
			okG := false
			for _, g := range an.GuardsOf(i.Block()) {
				bo, ok := g.Cond.(*ssa.BinOp)
				if !ok || !isConstNil(bo.Y) {
					continue
				}
				if lk, ok := bo.X.(*ssa.Lookup); ok && lk.X == ssa.Value(vars) && an.Expr(lk.Index) == an.Expr(mu.Key) {
					if (bo.Op == token.NEQ && !g.Polarity) || (bo.Op == token.EQL && g.Polarity) {
						okG = true
					}
				}
			}
			if !okG {
				if part == "" || part == "guard" {
					o.FailAt(i, "a variable's default is installed without checking that no non-null value was supplied for it: a supplied value would be overridden")
				}
			}
		}
	})
	// the copy of vars into defaultedVars copies every entry
	okCopy := false
	an.Instrs(fn, func(i ssa.Instruction) {
		if mu, ok := i.(*ssa.MapUpdate); ok && freshValue(mu.Map) {
			if ex, ok := mu.Value.(*ssa.Extract); ok {
				if nx, ok := ex.Tuple.(*ssa.Next); ok {
					if r, ok := nx.Iter.(*ssa.Range); ok && r.X == ssa.Value(vars) {
						okCopy = true
					}
				}
			}
		}
	})
	if !okCopy {
		if part == "" || part == "all" {
			o.Fail(p.Pos(fn.Pos()), "when defaults apply, the supplied variables are not copied into the map that is used")
		}
	}
	// non-null with default rejected
	okRej := false
	for _, e := range an.Exits(fn, false) {
		if isConstNil(an.ResultAt(e.(*ssa.Return), 1)) {
			continue
		}
		gs := strings.Join(an.GuardStrings(e.Block()), " ; ")
		if strings.Contains(gs, ".(*ast.NonNull)#1") && strings.Contains(gs, ".DefaultValue != nil)") {
			okRej = true
			o.Site(e)
		}
	}
	if !okRej {
		if part == "" || part == "all" {
			o.Fail(p.Pos(fn.Pos()), "a required ($x: T!) variable with a default value is no longer rejected")
		}
	}
	// the vars used for parsing the selection sets are the defaulted ones when defaults exist
	ruleParseUsesDefaultedVars(c, o)
}
