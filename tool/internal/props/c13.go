package props

import (
	"fmt"
	"go/ast"
	"go/constant"
	"go/token"
	"go/types"
	"sort"
	"strings"

	"golang.org/x/tools/go/ssa"

	"thunderlint/internal/an"
)

func init() {
	register("C13", "Decides the structural agreement of the row codec: the kinds coerced by Valuer.Value's final switch equal the kinds coerced back by Scanner.Scan's final switch; every encoding tag Value handles (binary, string, json) is handled by Scan, and the tags buildDescriptor accepts are exactly primary plus the tags the codec knows, with implicitnull rejected on pointer fields; the protobuf filter codec agrees (every kind valueToField emits is decoded by FieldToValue, and each wrapper type written is read by the matching getter); FilterFromProto rejects nil for non-pointer columns and scans with the scanner of the same column; column/value/scanner indices are paired by the induction value in unbuildStruct, BuildStruct, parseQueryRow-style loops and parseBinlogRow (source index j for the binlog row, i for scanner and column), with the exact column-count test dominating every read of the row; Scanner.Scan stores a private []byte copy that is non-nil whenever the source is (no nil-based append, no aliasing of the driver buffer); MakeTester collects column and value in lock step and Tester.Test compares the two Valuer results per column with driverValuesEqual, which compares byte slices by content. buildDescriptor's decision table (which struct fields become columns, under which name, with which options, in field order) is evaluated under every assignment of its predicates. Not decided: value-level round trip for every type and source representation (int64, []byte text, typed binlog ints).", c13)
}

const fieldsPkg = "internal/fields"

// stringCases returns the constant string arguments of calls `recv.Tags.Contains("x")` in fn's AST.
func tagsContains(fd *ast.FuncDecl) []string {
	var out []string
	ast.Inspect(fd.Body, func(n ast.Node) bool {
		ce, ok := n.(*ast.CallExpr)
		if !ok || len(ce.Args) != 1 {
			return true
		}
		se, ok := ce.Fun.(*ast.SelectorExpr)
		if !ok || se.Sel.Name != "Contains" {
			return true
		}
		if bl, ok := ce.Args[0].(*ast.BasicLit); ok && bl.Kind == token.STRING {
			out = append(out, strings.Trim(bl.Value, `"`))
		}
		return true
	})
	return out
}

func c13(c *an.Ctx) {
	p := c.P

	c.Check("R-TABLE", "Valuer.Value and Scanner.Scan coerce the same kinds; every tag Value encodes is decoded by Scan", 4, func(o *an.O) {
		vd, pp := p.FuncDecl(fieldsPkg, "Valuer.Value")
		sd, _ := p.FuncDecl(fieldsPkg, "Scanner.Scan")
		an.Need(vd != nil && sd != nil, "Valuer.Value / Scanner.Scan")
		kindSwitch := func(fd *ast.FuncDecl) *an.SwitchInfo {
			var last *an.SwitchInfo
			sws := an.Switches(fd, pp)
			for k := range sws {
				sw := sws[k]
				if sw.IsType || !strings.Contains(sw.Tag, "Kind") {
					continue
				}
				all := sw.AllCaseTypes()
				for _, t := range all {
					if t == "Bool" || t == "String" {
						last = &sws[k]
					}
				}
			}
			return last
		}
		vs, ss := kindSwitch(vd), kindSwitch(sd)
		an.Need(vs != nil && ss != nil, "kind coercion switches")
		o.SitePos(p.Pos(vs.Node.Pos()))
		o.SitePos(p.Pos(ss.Node.Pos()))
		onlyV, onlyS := an.SetDiff(vs.AllCaseTypes(), ss.AllCaseTypes())
		if len(onlyV) > 0 {
			o.Fail(p.Pos(ss.Node.Pos()), "kinds %v are written to SQL by Valuer.Value but cannot be read back by Scanner.Scan", onlyV)
		}
		if len(onlyS) > 0 {
			o.Fail(p.Pos(vs.Node.Pos()), "kinds %v are read by Scanner.Scan but passed through raw by Valuer.Value (the SQL driver would reject or mis-encode them)", onlyS)
		}
		// family pairing inside Value: Int()->ints, Uint()->uints, Float()->floats
		for _, cl := range vs.Clauses {
			body := ""
			for _, st := range cl.Body {
				if rs, ok := st.(*ast.ReturnStmt); ok && len(rs.Results) > 0 {
					body = exprString(rs.Results[0])
				}
			}
			for _, t := range cl.Types {
				want := ""
				switch {
				case strings.HasPrefix(t, "Int"):
					want = ".Int()"
				case strings.HasPrefix(t, "Uint"):
					want = ".Uint()"
				case strings.HasPrefix(t, "Float"):
					want = ".Float()"
				case t == "Bool":
					want = ".Bool()"
				case t == "String":
					want = ".String()"
				}
				if want != "" && !strings.Contains(body, want) {
					o.Fail(p.Pos(cl.Node.Pos()), "Valuer.Value encodes kind %s with %s instead of %s", t, body, want)
				}
			}
		}
		vt, st := tagsContains(vd), tagsContains(sd)
		o.SitePos(p.Pos(vd.Pos()))
		o.SitePos(p.Pos(sd.Pos()))
		for _, t := range vt {
			if t == "implicitnull" {
				continue // write-side only: a zero value becomes NULL; NULL scans back to the zero value
			}
			found := false
			for _, u := range st {
				if u == t {
					found = true
				}
			}
			if !found {
				o.Fail(p.Pos(sd.Pos()), "columns tagged %q are encoded by Valuer.Value but Scanner.Scan has no decoder for that tag", t)
			}
		}
		for _, t := range st {
			found := false
			for _, u := range vt {
				if u == t {
					found = true
				}
			}
			if !found {
				o.Fail(p.Pos(vd.Pos()), "columns tagged %q are decoded by Scanner.Scan but Valuer.Value has no encoder for that tag", t)
			}
		}
		// buildDescriptor's accepted tags = primary + the codec's tags: the words an option (an element
		// of the tag's parts after the name) is compared with, read off the SSA form so that the
		// option handling may live in a helper or be written as if-chains (that unknown options and
		// implicitnull on pointers are rejected is evaluated by the decision table below)
		fn := c.NeedFunc(sg, "(*Schema).buildDescriptor")
		var accepted []string
		seenTag := map[string]bool{}
		an.Instrs(fn, func(i ssa.Instruction) {
			bo, ok := i.(*ssa.BinOp)
			if !ok || (bo.Op != token.EQL && bo.Op != token.NEQ) {
				return
			}
			for _, pr := range [][2]ssa.Value{{bo.X, bo.Y}, {bo.Y, bo.X}} {
				cs, isStr := an.ConstString(pr[1])
				ld, isLoad := pr[0].(*ssa.UnOp)
				if !isStr || !isLoad || ld.Op != token.MUL {
					continue
				}
				ia, ok := ld.X.(*ssa.IndexAddr)
				if !ok {
					continue
				}
				sl, ok := ia.X.(*ssa.Slice)
				if !ok {
					continue
				}
				if call, ok := sl.X.(*ssa.Call); ok {
					if f := an.CalleeFunc(&call.Call); f != nil && f.Name() == "Split" && !seenTag[cs] {
						seenTag[cs] = true
						accepted = append(accepted, cs)
						o.Site(i)
					}
				}
			}
		})
		sort.Strings(accepted)
		want := append([]string{"primary"}, vt...)
		onlyA, onlyW := an.SetDiff(accepted, want)
		if len(onlyA) > 0 {
			o.Fail(p.Pos(fn.Pos()), "buildDescriptor accepts tags %v that the codec does not implement", onlyA)
		}
		if len(onlyW) > 0 {
			o.Fail(p.Pos(fn.Pos()), "the codec implements tags %v that buildDescriptor rejects", onlyW)
		}
	})

	c.Check("R-BOOL", "buildDescriptor decision table: every exported, non-embedded, non-excluded field with an SQL type becomes exactly one column (list and name map, under the tag's name or the snake-cased field name, with the field's index and the tag's options); everything else is skipped or rejected; the `primary` option is honoured", 3, func(o *an.O) {
		ruleBuildDescriptorTable(c, o)
	})

	c.Check("R-PROV", "Scanner.Scan gives a []byte column a private copy that is non-nil whenever the source is (an empty value must not come back as NULL)", 2, func(o *an.O) {
		ruleScannerBytesCopy(c, o)
	})

	c.Check("R-TABLE", "protobuf filter codec: every kind valueToField emits is decoded by FieldToValue with the matching getter", 2, func(o *an.O) {
		vf, pp := p.FuncDecl("livesql", "valueToField")
		fv, _ := p.FuncDecl("livesql", "FieldToValue")
		an.Need(vf != nil && fv != nil, "valueToField / FieldToValue")
		// encoder: per clause, FieldKind_X and wrapper Field_Y
		emitted := map[string]string{} // kind -> wrapper
		for _, sw := range an.Switches(vf, pp) {
			if !sw.IsType {
				continue
			}
			o.SitePos(p.Pos(sw.Node.Pos()))
			for _, cl := range sw.Clauses {
				if cl.Default {
					if !an.EndsInPanicOrError(cl.Body) {
						o.Fail(p.Pos(cl.Node.Pos()), "valueToField silently encodes unknown driver values")
					}
					continue
				}
				kind, wrapper := "", ""
				for _, st := range cl.Body {
					ast.Inspect(st, func(n ast.Node) bool {
						if se, ok := n.(*ast.SelectorExpr); ok {
							if strings.HasPrefix(se.Sel.Name, "FieldKind_") {
								kind = strings.TrimPrefix(se.Sel.Name, "FieldKind_")
							}
							if strings.HasPrefix(se.Sel.Name, "Field_") {
								wrapper = strings.TrimSuffix(strings.TrimPrefix(se.Sel.Name, "Field_"), "_")
							}
						}
						return true
					})
				}
				if kind != "" {
					emitted[kind] = wrapper
				}
			}
		}
		decoded := map[string]string{} // kind -> getter
		for _, sw := range an.Switches(fv, pp) {
			if sw.IsType {
				continue
			}
			o.SitePos(p.Pos(sw.Node.Pos()))
			for _, cl := range sw.Clauses {
				if cl.Default {
					if !an.EndsInPanicOrError(cl.Body) {
						o.Fail(p.Pos(cl.Node.Pos()), "FieldToValue silently decodes unknown kinds")
					}
					continue
				}
				getter := ""
				for _, st := range cl.Body {
					ast.Inspect(st, func(n ast.Node) bool {
						if se, ok := n.(*ast.SelectorExpr); ok && strings.HasPrefix(se.Sel.Name, "Get") {
							getter = strings.TrimSuffix(strings.TrimPrefix(se.Sel.Name, "Get"), "_")
						}
						return true
					})
				}
				for _, t := range cl.Types {
					decoded[strings.TrimPrefix(t, "FieldKind_")] = getter
				}
			}
		}
		if len(emitted) < 6 {
			o.Undecided("could not read valueToField's table (%d kinds)", len(emitted))
			return
		}
		for kind, wrapper := range emitted {
			getter, ok := decoded[kind]
			if !ok {
				o.Fail(p.Pos(fv.Pos()), "valueToField emits kind %s, which FieldToValue cannot decode: such a filter is rejected on the receiving server", kind)
				continue
			}
			if wrapper != "" && getter != "" && wrapper != getter {
				o.Fail(p.Pos(fv.Pos()), "kind %s is written into the %s wrapper but read with Get%s (reads the zero value)", kind, wrapper, getter)
			}
		}
	})

	c.Check("R-GUARD", "FilterFromProto rejects nil for non-pointer columns and scans with the scanner of the same column", 2, func(o *an.O) {
		fn := c.NeedFunc("livesql", "FilterFromProto")
		// evaluated: with (value is nil, column is a pointer) fixed - and the column neither
		// tagged implicitnull nor of a nil-able kind - the scan is reached iff !(nil && !pointer)
		scans := an.CallsAny(fn, an.CalleeSpec{Pkg: an.ModulePath + "/" + fieldsPkg, Recv: "Scanner", Name: "Scan"})
		if len(scans) != 1 {
			o.Fail(p.Pos(fn.Pos()), "expected one Scanner.Scan call in FilterFromProto, found %d", len(scans))
			return
		}
		scan := scans[0]
		o.Site(scan)
		val := an.CallOf(scan).Args[1]
		for {
			if ci, ok := val.(*ssa.ChangeInterface); ok {
				val = ci.X
			} else if ct, ok := val.(*ssa.ChangeType); ok {
				val = ct.X
			} else {
				break
			}
		}
		for _, tc := range []struct{ isNil, isPtr, wantScan bool }{{true, false, false}, {true, true, true}, {false, false, true}, {false, true, true}} {
			tc := tc
			sim := &an.BoolSim{Fn: fn, Atom: func(v ssa.Value) (bool, bool) {
				switch x := v.(type) {
				case *ssa.UnOp:
					if x.Op == token.MUL {
						if fa, ok := x.X.(*ssa.FieldAddr); ok && an.FieldName(fa.X.Type(), fa.Field) == "Ptr" {
							return tc.isPtr, true
						}
					}
				case *ssa.Call:
					if f := an.CalleeFunc(x.Common()); f != nil && f.Name() == "Contains" && len(x.Call.Args) > 0 {
						if cs, ok := an.ConstString(x.Call.Args[len(x.Call.Args)-1]); ok && cs == "implicitnull" {
							return false, true
						}
					}
				case *ssa.BinOp:
					if x.Op != token.EQL && x.Op != token.NEQ {
						return false, false
					}
					for _, pr := range [][2]ssa.Value{{x.X, x.Y}, {x.Y, x.X}} {
						if pr[0] == val && isConstNil(pr[1]) {
							return tc.isNil == (x.Op == token.EQL), true
						}
						if _, isK := an.ConstInt(pr[1]); isK && strings.HasSuffix(an.Expr(pr[0]), ".Kind") {
							return x.Op == token.NEQ, true // an ordinary, not nil-able kind
						}
					}
				}
				return false, false
			}}
			got := sim.Run()[scan.Block()]
			if got != tc.wantScan {
				if tc.wantScan {
					o.FailAt(scan, "a filter value (nil=%v) for a column (pointer=%v) is never scanned", tc.isNil, tc.isPtr)
				} else {
					o.FailAt(scan, "a NULL filter value for a non-pointer column is no longer rejected: it is scanned into the zero value, so the shipped filter matches different rows than the original")
				}
			}
		}
		okScanner := false
		an.Instrs(fn, func(i ssa.Instruction) {
			ia, ok := i.(*ssa.IndexAddr)
			if !ok || !strings.Contains(an.Expr(ia.X), "Scanners") && !strings.Contains(an.Expr(ia.X), "scanners") {
				return
			}
			o.Site(i)
			if strings.HasSuffix(an.Expr(ia.Index), ".Order") {
				okScanner = true
			} else {
				o.FailAt(i, "the scanner is chosen by %s, not by the column's Order", an.Expr(ia.Index))
			}
		})
		if !okScanner {
			o.Fail(p.Pos(fn.Pos()), "FilterFromProto does not use scanners[column.Order]")
		}
	})

	c.Check("R-PAIR", "column / value / scanner indices are paired by the loop's induction value (unbuildStruct, BuildStruct, parseBinlogRow)", 6, func(o *an.O) {
		// unbuildStruct: values[i] written in range table.Columns
		ub := c.NeedFunc(sg, "(*Table).unbuildStruct")
		an.Instrs(ub, func(i ssa.Instruction) {
			st, ok := i.(*ssa.Store)
			if !ok {
				return
			}
			if ia, ok := st.Addr.(*ssa.IndexAddr); ok && strings.Contains(ia.X.Type().String(), "interface") {
				o.Site(i)
				S := loopSliceOf(ia.Index)
				if !an.IsRangeIndex(ia.Index) || S == nil || !strings.HasSuffix(an.Expr(S), ".Columns") {
					o.FailAt(i, "unbuildStruct stores a column's value at %s, not at the column's own position", an.Expr(ia.Index))
				}
				if !strings.Contains(an.Expr(st.Val), "Columns[#i]") {
					o.FailAt(i, "the value stored at position i is not derived from column i (%s)", an.Short(an.Expr(st.Val), 80))
				}
			}
		})
		// BuildStruct: row[i], scanners[i], Columns[i] with the same i; length test first
		bs := c.NeedFunc(sg, "(*Schema).BuildStruct")
		idxUse := map[string][]ssa.Value{}
		an.Instrs(bs, func(i ssa.Instruction) {
			ia, ok := i.(*ssa.IndexAddr)
			if !ok {
				return
			}
			s := an.Expr(ia.X)
			switch {
			case s == bs.Params[2].Name():
				idxUse["row"] = append(idxUse["row"], ia.Index)
			case strings.Contains(s, "Scanners") || strings.Contains(s, "scanners"):
				idxUse["scanners"] = append(idxUse["scanners"], ia.Index)
			case strings.HasSuffix(s, ".Columns"):
				idxUse["columns"] = append(idxUse["columns"], ia.Index)
			default:
				return
			}
			o.Site(i)
			if !an.IsRangeIndex(ia.Index) {
				o.FailAt(i, "BuildStruct indexes %s with %s, not with the loop position", s, an.Expr(ia.Index))
			}
		})
		var first ssa.Value
		for _, k := range []string{"row", "scanners", "columns"} {
			if len(idxUse[k]) == 0 {
				o.Fail(p.Pos(bs.Pos()), "BuildStruct does not index %s", k)
				continue
			}
			for _, v := range idxUse[k] {
				if first == nil {
					first = v
				}
				if v != first {
					o.Fail(p.Pos(bs.Pos()), "BuildStruct pairs %s with a different index than the other per-column slices", k)
				}
			}
		}
		{
			lenBlk := an.NewBlocker()
			nLen := 0
			for _, t := range an.EqTests(bs, func(x, y ssa.Value) bool {
				cx, okx := x.(*ssa.Call)
				cy, oky := y.(*ssa.Call)
				if !okx || !oky {
					return false
				}
				bx, okx := cx.Call.Value.(*ssa.Builtin)
				by, oky := cy.Call.Value.(*ssa.Builtin)
				return okx && oky && bx.Name() == "len" && by.Name() == "len" && cx.Call.Args[0] == ssa.Value(bs.Params[2])
			}) {
				lenBlk.AddEdge(t.If.Block(), t.Eq)
				nLen++
			}
			bad := nLen == 0
			if !bad {
				r := an.Reach(bs, nil, lenBlk)
				an.Instrs(bs, func(i ssa.Instruction) {
					if ia, ok := i.(*ssa.IndexAddr); ok && ia.X == ssa.Value(bs.Params[2]) && r[i] {
						bad = true
					}
				})
			}
			if bad {
				o.Fail(p.Pos(bs.Pos()), "BuildStruct no longer rejects a row whose column count differs from the table's")
			}
		}
		ruleParseBinlogRow(c, o)
	})

	c.Check("R-BOOL", "decision tables of the in-memory filter test: Tester.Test is false for a nil row, a Valuer error or any unequal column and true only when every column compared equal; driverValuesEqual is false for different kinds, compares []byte by content and everything else with ==", 4, func(o *an.O) {
		// --- driverValuesEqual ---------------------------------------------------------
		dv := c.NeedFunc(sg, "driverValuesEqual")
		kindOf := func(v ssa.Value) int { // Kind() of reflect.ValueOf(param k) -> k+1, else 0
			call, ok := v.(*ssa.Call)
			if !ok {
				return 0
			}
			f := an.CalleeFunc(call.Common())
			if f == nil || f.Name() != "Kind" || len(call.Call.Args) != 1 {
				return 0
			}
			vo, ok := call.Call.Args[0].(*ssa.Call)
			if !ok || len(vo.Call.Args) != 1 {
				return 0
			}
			arg := an.StripConv(vo.Call.Args[0])
			if ci, ok := arg.(*ssa.ChangeInterface); ok {
				arg = ci.X
			}
			for k, pa := range dv.Params {
				if arg == ssa.Value(pa) {
					return k + 1
				}
			}
			return 0
		}
		rp := p.ExtPkg("reflect")
		an.Need(rp != nil, "package reflect")
		sliceKind, _ := constant.Int64Val(rp.Types.Scope().Lookup("Slice").(*types.Const).Val())
		seenAtoms := map[string]bool{}
		for mask := 0; mask < 128; mask++ {
			kindsEq, s1, s2, ok1, ok2, bytesEq, ifaceEq := mask&1 != 0, mask&2 != 0, mask&4 != 0, mask&8 != 0, mask&16 != 0, mask&32 != 0, mask&64 != 0
			if kindsEq && s1 != s2 {
				continue // equal kinds: both are slices or neither is
			}
			if (ok1 && !s1) || (ok2 && !s2) {
				continue // a []byte has kind Slice
			}
			sim := &an.BoolSim{Fn: dv, Atom: func(v ssa.Value) (bool, bool) {
				switch x := v.(type) {
				case *ssa.BinOp:
					if x.Op != token.EQL && x.Op != token.NEQ {
						return false, false
					}
					eq := x.Op == token.EQL
					kx, ky := kindOf(x.X), kindOf(x.Y)
					if kx != 0 && ky != 0 && kx != ky {
						seenAtoms["kinds"] = true
						return kindsEq == eq, true
					}
					for _, pr := range [][2]ssa.Value{{x.X, x.Y}, {x.Y, x.X}} {
						if k := kindOf(pr[0]); k != 0 {
							if n, ok := an.ConstInt(pr[1]); ok && n == sliceKind {
								seenAtoms["slice"] = true
								isS := s1
								if k == 2 {
									isS = s2
								}
								return isS == eq, true
							}
						}
						if call, ok := pr[0].(*ssa.Call); ok {
							if f := an.CalleeFunc(call.Common()); f != nil && f.Pkg() != nil && f.Pkg().Path() == "bytes" && (f.Name() == "Compare" || f.Name() == "Equal") {
								if n, ok := an.ConstInt(pr[1]); ok && n == 0 {
									seenAtoms["bytes"] = true
									return bytesEq == eq, true
								}
							}
						}
					}
					// dv1 == dv2
					strip := func(v ssa.Value) ssa.Value {
						if ci, ok := v.(*ssa.ChangeInterface); ok {
							return ci.X
						}
						return v
					}
					a, b := strip(x.X), strip(x.Y)
					if (a == ssa.Value(dv.Params[0]) && b == ssa.Value(dv.Params[1])) || (a == ssa.Value(dv.Params[1]) && b == ssa.Value(dv.Params[0])) {
						seenAtoms["iface"] = true
						return ifaceEq == eq, true
					}
				case *ssa.Call:
					if f := an.CalleeFunc(x.Common()); f != nil && f.Pkg() != nil && f.Pkg().Path() == "bytes" && f.Name() == "Equal" {
						seenAtoms["bytes"] = true
						return bytesEq, true
					}
				case *ssa.Extract:
					if ta, ok := x.Tuple.(*ssa.TypeAssert); ok && x.Index == 1 && ta.CommaOk {
						src := ta.X
						if ci, ok := src.(*ssa.ChangeInterface); ok {
							src = ci.X
						}
						if src == ssa.Value(dv.Params[0]) {
							seenAtoms["assert"] = true
							return ok1, true
						}
						if src == ssa.Value(dv.Params[1]) {
							seenAtoms["assert"] = true
							return ok2, true
						}
					}
				}
				return false, false
			}}
			sim.Run()
			got := sim.ReturnedBools(0)
			var want bool
			switch {
			case !kindsEq:
				want = false
			case s1 || s2:
				want = ok1 && ok2 && bytesEq
			default:
				want = ifaceEq
			}
			if len(got) != 1 || !got[fmt.Sprint(want)] {
				o.Fail(p.Pos(dv.Pos()), "driverValuesEqual(kinds equal=%v, slice kinds=%v/%v, []byte=%v/%v, same bytes=%v, ==:%v) returns %v, expected %v: a row would (not) match the filter it was read with", kindsEq, s1, s2, ok1, ok2, bytesEq, ifaceEq, keysOf(got), want)
				break
			}
		}
		o.SitePos(p.Pos(dv.Pos()))
		for _, a := range []string{"kinds", "slice", "bytes", "iface", "assert"} {
			if !seenAtoms[a] {
				o.Fail(p.Pos(dv.Pos()), "driverValuesEqual has no %s test", a)
			}
		}
		// --- tester.Test -----------------------------------------------------------------
		tt := c.NeedFunc(sg, "(*tester).Test")
		o.SitePos(p.Pos(tt.Pos()))
		eqCalls := an.Calls(tt, an.Mod(sg, "", "driverValuesEqual"))
		if len(eqCalls) == 0 {
			o.Fail(p.Pos(tt.Pos()), "Tester.Test does not compare with driverValuesEqual")
			return
		}
		o.Site(eqCalls[0])
		h := an.LoopHeaderOf(eqCalls[0])
		an.Need(h != nil, "loop over the filter columns in Tester.Test")
		var valueCalls []ssa.Value // the two Valuer(...).Value() calls, in order
		an.Instrs(tt, func(i ssa.Instruction) {
			if cc := an.CallOf(i); cc != nil {
				if f := an.CalleeFunc(cc); f != nil && f.Name() == "Value" && an.LoopHeaderOf(i) == h {
					valueCalls = append(valueCalls, i.(ssa.Value))
					o.Site(i)
				}
			}
		})
		an.Need(len(valueCalls) == 2, "two Valuer.Value calls per column in Tester.Test")
		for mask := 0; mask < 16; mask++ {
			rowNil, e1, e2, eq := mask&1 != 0, mask&2 != 0, mask&4 != 0, mask&8 != 0
			sim := &an.BoolSim{Fn: tt, Atom: func(v ssa.Value) (bool, bool) {
				if call, ok := v.(*ssa.Call); ok && call == eqCalls[0] {
					return eq, true
				}
				bo, ok := v.(*ssa.BinOp)
				if !ok || (bo.Op != token.EQL && bo.Op != token.NEQ) || !isConstNil(bo.Y) {
					return false, false
				}
				isEq := bo.Op == token.EQL
				x := bo.X
				if ci, ok := x.(*ssa.ChangeInterface); ok {
					x = ci.X
				}
				if x == ssa.Value(tt.Params[1]) {
					return rowNil == isEq, true
				}
				if ex, ok := x.(*ssa.Extract); ok {
					for k, vc := range valueCalls {
						if ex.Tuple == vc {
							failed := e1
							if k == 1 {
								failed = e2
							}
							return failed != isEq, true
						}
					}
				}
				return false, false
			}}
			sim.Run()
			got := sim.ReturnedBools(0)
			back := false
			for k, pred := range h.Preds {
				if sim.In[h][k] && h.Dominates(pred) {
					back = true
				}
			}
			allMatch := !rowNil && !e1 && !e2 && eq
			switch {
			case rowNil:
				if got["true"] || got["?"] {
					o.Fail(p.Pos(tt.Pos()), "Tester.Test can answer true for a nil row")
				}
			case allMatch:
				if got["false"] || !got["true"] || !back {
					o.Fail(p.Pos(tt.Pos()), "Tester.Test does not answer true for a row all of whose filter columns compare equal (returns %v, next column reached: %v)", keysOf(got), back)
				}
			default:
				if back {
					o.Fail(p.Pos(tt.Pos()), "Tester.Test goes on to the next column although this one did not match (valuer errors %v/%v, equal=%v): a row that does not satisfy the filter would be reported as matching", e1, e2, eq)
				}
			}
		}
	})

	c.Check("R-PROV", "each value passes the column Valuer exactly once: MakeTester keeps the filter's own values (Tester.Test converts them), Table.driverValues stores only Valuer results (no value bypasses it), and the integer branch of Scanner.Scan accepts every value sql.NullInt64 can hold", 3, func(o *an.O) {
		ruleValuerOnce(c, o)
	})

	c.Check("R-PAIR", "MakeTester collects column and value in lock step; Tester.Test compares per column with driverValuesEqual; byte slices compared by content", 4, func(o *an.O) {
		mt := c.NeedFunc(sg, "(*Schema).MakeTester")
		blocks := map[string]*ssa.BasicBlock{}
		an.Instrs(mt, func(i ssa.Instruction) {
			call, ok := i.(*ssa.Call)
			if !ok {
				return
			}
			b, ok := call.Call.Value.(*ssa.Builtin)
			if !ok || b.Name() != "append" || !isSingleElementSlice(call.Call.Args[1]) {
				return
			}
			t := call.Call.Args[0].Type().String()
			switch {
			case strings.HasSuffix(t, "sqlgen.Column"):
				blocks["columns"] = i.Block()
				o.Site(i)
			case strings.HasSuffix(t, "interface{}"):
				blocks["values"] = i.Block()
				o.Site(i)
			}
		})
		if blocks["columns"] == nil || blocks["values"] == nil || blocks["columns"] != blocks["values"] {
			o.Fail(p.Pos(mt.Pos()), "MakeTester must append a filter column and its value in the same block so that values[i] belongs to columns[i]")
		}
		tt := c.NeedFunc(sg, "(*tester).Test")
		calls := an.Calls(tt, an.Mod(sg, "", "driverValuesEqual"))
		if len(calls) != 1 || an.LoopHeaderOf(calls[0]) == nil {
			o.Fail(p.Pos(tt.Pos()), "Tester.Test must compare every filter column with driverValuesEqual inside the loop over the columns")
		} else {
			o.Site(calls[0])
			// mismatch -> false inside the loop; true only after the loop
			for _, e := range an.Exits(tt, false) {
				v := an.Expr(e.(*ssa.Return).Results[0])
				if v == "true" && !an.OnlyAfterLoop(tt, an.LoopHeaderOf(calls[0]), e) {
					o.FailAt(e, "Tester.Test returns true before all filter columns were compared")
				}
			}
			// values[i] with the column loop's index
			an.Instrs(tt, func(i ssa.Instruction) {
				if ia, ok := i.(*ssa.IndexAddr); ok && strings.HasSuffix(an.Expr(ia.X), ".values") {
					o.Site(i)
					S := loopSliceOf(ia.Index)
					if !an.IsRangeIndex(ia.Index) || S == nil || !strings.HasSuffix(an.Expr(S), ".columns") {
						o.FailAt(i, "Tester.Test pairs values[%s] with a column of another position", an.Expr(ia.Index))
					}
				}
			})
		}
		de := c.NeedFunc(sg, "driverValuesEqual")
		okBytes := false
		for _, call := range an.Calls(de, an.CalleeSpec{Pkg: "bytes", Name: "Compare"}, an.CalleeSpec{Pkg: "bytes", Name: "Equal"}) {
			okBytes = true
			o.Site(call)
		}
		if !okBytes {
			o.Fail(p.Pos(de.Pos()), "driverValuesEqual no longer compares []byte values by content (slices are not comparable with ==: a binary column would never match its own row)")
		}
	})
}

// ruleParseBinlogRow (shared by C13 and C07): binlogRow[j], scanners[i],
// Columns[i] with (i, j) from one loop over columnMap.source, and the row is
// read only behind the exact column-count test (a mismatch must surface as a
// decode error so that the table's live queries are invalidated).
func ruleParseBinlogRow(c *an.Ctx, o *an.O) {
	p := c.P
	// parseBinlogRow: binlogRow[j], scanners[i], Columns[i]; (i,j) from one range over columnMap.source; count test first
	pb := c.NeedFunc("livesql", "parseBinlogRow")
	var iIdx ssa.Value
	okJ := false
	an.Instrs(pb, func(i ssa.Instruction) {
		ia, ok := i.(*ssa.IndexAddr)
		if !ok {
			return
		}
		s := an.Expr(ia.X)
		switch {
		case s == pb.Params[1].Name():
			o.Site(i)
			// index must be the element of columnMap.source at the loop position
			if ld, ok := ia.Index.(*ssa.UnOp); ok {
				if src, ok := ld.X.(*ssa.IndexAddr); ok && strings.HasSuffix(an.Expr(src.X), ".source") && an.IsRangeIndex(src.Index) {
					okJ = true
					iIdx = src.Index
				}
			}
			if !okJ {
				o.FailAt(i, "the binlog row is indexed by %s, not by the source position recorded for this column", an.Expr(ia.Index))
			}
			okG := false
			for _, g := range an.GuardStrings(i.Block()) {
				if strings.HasSuffix(g, " != -1)") {
					okG = true
				}
			}
			if !okG {
				o.FailAt(i, "the binlog row is read for a column whose source position is -1 (column missing in the table)")
			}
		case strings.Contains(s, "canners") || strings.HasSuffix(s, ".Columns"):
			o.Site(i)
			if !an.IsRangeIndex(ia.Index) {
				o.FailAt(i, "parseBinlogRow indexes %s with %s, not with the struct column position", s, an.Expr(ia.Index))
			} else if iIdx != nil && ia.Index != iIdx {
				o.FailAt(i, "parseBinlogRow pairs %s with a different loop than the source map", s)
			}
		}
	})
	if !okJ {
		o.Fail(p.Pos(pb.Pos()), "parseBinlogRow does not read binlogRow[columnMap.source[i]]")
	}
	// the row is only read when it has exactly the expected number of columns: with
	// the "equal" edges of the count test blocked no read of the row is reachable
	isLenOf := func(v, of ssa.Value) bool {
		call, ok := v.(*ssa.Call)
		if !ok {
			return false
		}
		b, ok := call.Call.Value.(*ssa.Builtin)
		return ok && b.Name() == "len" && call.Call.Args[0] == of
	}
	cntBlk := an.NewBlocker()
	nCnt := 0
	for _, t := range an.EqTests(pb, func(x, y ssa.Value) bool {
		return isLenOf(x, pb.Params[1]) && strings.HasSuffix(an.Expr(y), ".expectedColumns")
	}) {
		cntBlk.AddEdge(t.If.Block(), t.Eq)
		nCnt++
		o.Site(t.If)
	}
	if nCnt == 0 {
		o.Fail(p.Pos(pb.Pos()), "parseBinlogRow no longer rejects rows whose column count differs from the expected one (after a schema change values would be assigned to the wrong columns instead of the event being reported as undecodable)")
	} else {
		r := an.Reach(pb, nil, cntBlk)
		an.Instrs(pb, func(i ssa.Instruction) {
			if ia, ok := i.(*ssa.IndexAddr); ok && ia.X == ssa.Value(pb.Params[1]) && r[i] {
				o.FailAt(i, "the binlog row is read although its column count differs from the expected one")
			}
		})
	}
}

// ruleValuerOnce (shared by C13, C07 and C10).
func ruleValuerOnce(c *an.Ctx, o *an.O) {
	p := c.P
	// MakeTester: the values it collects are the values of the filter parameter itself
	mt := c.NeedFunc(sg, "(*Schema).MakeTester")
	filterParam := ssa.Value(mt.Params[len(mt.Params)-1])
	fromFilter := func(v ssa.Value) bool {
		v = an.StripConv(v)
		switch x := v.(type) {
		case *ssa.Extract: // value of `for name, value := range filter`
			if nx, ok := x.Tuple.(*ssa.Next); ok && x.Index == 2 {
				if r, ok := nx.Iter.(*ssa.Range); ok {
					return r.X == filterParam
				}
			}
		case *ssa.Lookup:
			return x.X == filterParam
		}
		return false
	}
	nVals := 0
	an.Instrs(mt, func(i ssa.Instruction) {
		call, ok := i.(*ssa.Call)
		if !ok {
			return
		}
		b, ok := call.Call.Value.(*ssa.Builtin)
		if !ok || b.Name() != "append" || call.Type().String() != "[]interface{}" {
			return
		}
		el := singleElem(call.Call.Args[1])
		if el == nil {
			return
		}
		nVals++
		o.Site(i)
		if !fromFilter(el) {
			o.FailAt(i, "MakeTester stores %s instead of the filter's own value: Tester.Test applies the column Valuer to the stored value, so a value that was already converted is converted twice (a json or binary column never matches again and its live queries are never invalidated)", an.Short(an.Expr(el), 60))
		}
	})
	// also through a tester literal built from a converted map
	for _, l := range an.StructLits(mt, "tester") {
		if v := l.Fields["values"]; v != nil {
			o.Site(l.Alloc)
			for _, leaf := range phiLeaves(v) {
				if call, ok := leaf.(*ssa.Call); ok {
					if bi, ok := call.Call.Value.(*ssa.Builtin); ok && bi.Name() == "append" {
						continue
					}
				}
				if _, ok := leaf.(*ssa.Slice); ok {
					continue
				}
				if _, ok := leaf.(*ssa.MakeSlice); ok {
					continue
				}
			}
		}
	}
	if nVals == 0 {
		o.Fail(p.Pos(mt.Pos()), "MakeTester no longer collects the filter values")
	}
	// driverValues: every stored value is the result of the column Valuer
	dvs := c.NeedFunc(sg, "(*Table).driverValues")
	nUpd := 0
	an.Instrs(dvs, func(i ssa.Instruction) {
		mu, ok := i.(*ssa.MapUpdate)
		if !ok {
			return
		}
		nUpd++
		o.Site(i)
		okV := false
		if ex, ok := an.StripConv(mu.Value).(*ssa.Extract); ok && ex.Index == 0 {
			if call, ok := ex.Tuple.(*ssa.Call); ok {
				if f := an.CalleeFunc(call.Common()); f != nil && f.Name() == "Value" {
					okV = true
				}
			}
		}
		if !okV {
			o.FailAt(i, "Table.driverValues stores %s without passing it through the column Valuer: a value the Valuer would change (implicitnull zero values, json / string / binary tagged columns) is matched and sent differently by the batched path than by a single query", an.Short(an.Expr(mu.Value), 60))
		}
	})
	if nUpd == 0 {
		o.Fail(p.Pos(dvs.Pos()), "Table.driverValues stores nothing")
	}
	// Scanner.Scan, integer kinds: no value that NullInt64 scanned is rejected
	sc := c.NeedFunc(fieldsPkg, "(*Scanner).Scan")
	var intScan ssa.Instruction
	an.Instrs(sc, func(i ssa.Instruction) {
		if cc := an.CallOf(i); cc != nil {
			if f := an.CalleeFunc(cc); f != nil && f.Name() == "Scan" && len(cc.Args) > 0 && strings.Contains(cc.Args[0].Type().String(), "NullInt64") {
				intScan = i
			}
		}
	})
	if intScan == nil {
		o.Fail(p.Pos(sc.Pos()), "Scanner.Scan no longer reads integer columns through sql.NullInt64")
		return
	}
	o.Site(intScan)
	blk := an.NewBlocker()
	an.BlockSuccessEdges(sc, blk, []ssa.Instruction{intScan})
	// from the success edge of the NullInt64 scan no error return is reachable
	for _, nt := range an.NilTests(sc, intScan.(ssa.Value)) {
		r := an.Reach(sc, nt.NilSucc.Instrs[0], an.NewBlocker())
		for _, e := range an.Exits(sc, false) {
			ret, ok := e.(*ssa.Return)
			if !ok || !(r[e] || e.Block() == nt.NilSucc) {
				continue
			}
			if !isConstNil(an.ResultAt(ret, 0)) {
				o.FailAt(e, "Scanner.Scan rejects an integer that the driver delivered: unsigned columns arrive as signed integers of the column's width from the binlog and as negative int64 from Valuer.Value, so values with the top bit set would no longer decode")
			}
		}
	}
}

// ruleScannerBytesCopy (C13, C07): what Scanner.Scan stores for a []byte column.
func ruleScannerBytesCopy(c *an.Ctx, o *an.O) {
	p := c.P
	_ = p
	fn := c.NeedFunc(fieldsPkg, "(*Scanner).Scan")
	isBytes := func(t types.Type) bool {
		sl, ok := t.Underlying().(*types.Slice)
		if !ok {
			return false
		}
		b, ok := sl.Elem().Underlying().(*types.Basic)
		return ok && b.Kind() == types.Uint8
	}
	var classify func(v ssa.Value, d int) string
	classify = func(v ssa.Value, d int) string {
		if d > 6 {
			return ""
		}
		switch x := v.(type) {
		case *ssa.Const:
			if x.IsNil() {
				return "nil"
			}
		case *ssa.MakeSlice:
			return "fresh"
		case *ssa.Convert:
			return "fresh" // []byte(string)
		case *ssa.Slice:
			if _, ok := x.X.(*ssa.Alloc); ok {
				return "fresh" // []byte{...} literal
			}
			return classify(x.X, d+1)
		case *ssa.ChangeType:
			return classify(x.X, d+1)
		case *ssa.Extract:
			if _, ok := x.Tuple.(*ssa.TypeAssert); ok {
				return "source"
			}
		case *ssa.TypeAssert:
			return "source"
		case *ssa.Phi:
			out := ""
			for _, e := range x.Edges {
				k := classify(e, d+1)
				if k == "source" || k == "nil-append" {
					return k
				}
				if out == "" {
					out = k
				}
			}
			return out
		case *ssa.Call:
			if b, ok := x.Call.Value.(*ssa.Builtin); ok && b.Name() == "append" {
				switch classify(x.Call.Args[0], d+1) {
				case "nil":
					return "nil-append"
				case "fresh":
					return "fresh"
				case "source":
					return "source"
				}
			}
		}
		return ""
	}
	n := 0
	an.Instrs(fn, func(i ssa.Instruction) {
		cc := an.CallOf(i)
		if cc == nil {
			return
		}
		f := an.CalleeFunc(cc)
		if f == nil || f.Pkg() == nil || f.Pkg().Path() != "reflect" {
			return
		}
		var stored ssa.Value
		switch f.Name() {
		case "SetBytes":
			stored = cc.Args[len(cc.Args)-1]
		case "Set":
			if vo, ok := cc.Args[len(cc.Args)-1].(*ssa.Call); ok {
				if g := an.CalleeFunc(vo.Common()); g != nil && g.Name() == "ValueOf" {
					if mi, ok := vo.Call.Args[0].(*ssa.MakeInterface); ok {
						stored = mi.X
					}
				}
			}
		}
		if stored == nil || !isBytes(stored.Type()) {
			return
		}
		n++
		o.Site(i)
		switch classify(stored, 0) {
		case "nil-append":
			o.FailAt(i, "the copy of a []byte column is built by appending to a nil slice: an empty, non-NULL value is read back as nil, which the writer stores as NULL (empty and NULL are no longer told apart)")
		case "source":
			o.FailAt(i, "a []byte column keeps the driver's buffer instead of a copy: the next row overwrites the value that was read")
		}
	})
	if n == 0 {
		o.Fail(p.Pos(fn.Pos()), "Scanner.Scan no longer stores []byte values (anchor drifted?)")
	}
}
