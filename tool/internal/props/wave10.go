package props

import (
	"go/token"
	"go/types"
	"strings"

	"golang.org/x/tools/go/ssa"

	"thunderlint/internal/an"
)

// Rules added after the tenth wave of independently written regressions
// (seeded/S106..): each decides one structural necessary condition.

// loopBodyEntry: the successor of header h that lies inside h's natural loop.
func loopBodyEntry(h *ssa.BasicBlock) *ssa.BasicBlock {
	for _, s := range h.Succs {
		if s == h {
			return s
		}
		if !h.Dominates(s) {
			continue
		}
		seen := map[*ssa.BasicBlock]bool{}
		work := []*ssa.BasicBlock{s}
		for len(work) > 0 {
			x := work[len(work)-1]
			work = work[:len(work)-1]
			if seen[x] {
				continue
			}
			seen[x] = true
			for _, t := range x.Succs {
				if t == h {
					return s
				}
				if h.Dominates(t) {
					work = append(work, t)
				}
			}
		}
	}
	return nil
}

// loopCanSkip: some iteration of the loop headed by h can go from the start of
// the body back to the header without executing any of `through`.
func loopCanSkip(fn *ssa.Function, h *ssa.BasicBlock, through []ssa.Instruction) bool {
	body := loopBodyEntry(h)
	if body == nil || len(body.Instrs) == 0 {
		return false
	}
	for _, t := range through {
		if t == body.Instrs[0] {
			return false
		}
	}
	r := an.Reach(fn, body.Instrs[0], an.NewBlocker(through...))
	return r[h.Instrs[0]]
}

// ruleDestinationsSettled (C01, C14): the leaf and list resolvers of the batch
// executor give every destination a value (Fill) or an error (Fail) - a
// destination that is skipped is serialised as null, even for a non-null list,
// and only for the execution mode that produced the skipped source.
func ruleDestinationsSettled(c *an.Ctx, o *an.O) {
	for _, name := range []string{"resolveScalarBatch", "resolveEnumBatch", "resolveListBatch"} {
		fn := c.NeedFunc(gq, name)
		pr := c01ParamPairs[name]
		if len(fn.Params) <= pr[1] {
			o.Fail(c.P.Pos(fn.Pos()), "%s no longer has the (sources, destinations) parameters", name)
			continue
		}
		dest := fn.Params[pr[1]]
		fromDest := func(v ssa.Value) bool {
			ld, ok := v.(*ssa.UnOp)
			if !ok || ld.Op != token.MUL {
				return false
			}
			ia, ok := ld.X.(*ssa.IndexAddr)
			return ok && ia.X == ssa.Value(dest)
		}
		byLoop := map[*ssa.BasicBlock][]ssa.Instruction{}
		an.Instrs(fn, func(i ssa.Instruction) {
			cc := an.CallOf(i)
			if cc == nil || cc.IsInvoke() || len(cc.Args) == 0 {
				return
			}
			f := an.CalleeFunc(cc)
			if f == nil || (f.Name() != "Fill" && f.Name() != "Fail") || !fromDest(cc.Args[0]) {
				return
			}
			// the outermost loop around the call whose induction value indexes destinations
			h := an.LoopHeaderOf(i)
			if h == nil {
				return
			}
			byLoop[h] = append(byLoop[h], i)
		})
		if len(byLoop) == 0 {
			o.Fail(c.P.Pos(fn.Pos()), "%s settles no destination in a loop over its sources", name)
			continue
		}
		for h, calls := range byLoop {
			o.Site(calls[0])
			if loopCanSkip(fn, h, calls) {
				o.FailAt(calls[0], "%s: an iteration over the sources can finish without Fill or Fail on its destination: that field is serialised as null (even where the schema says non-null list / scalar), and only for the execution mode that produced such a source", name)
			}
		}
	}
}

// rulePlanUnionTypename (C06): planUnion emits KindType path steps, which
// extractKeys resolves by reading __typename from the service's answer; so
// every plan planUnion returns selects __typename, unconditionally.
func rulePlanUnionTypename(c *an.Ctx, o *an.O) {
	fn := c.NeedFunc(fed, "(*Planner).planUnion")
	var stores []ssa.Instruction
	an.Instrs(fn, func(i ssa.Instruction) {
		st, ok := i.(*ssa.Store)
		if !ok {
			return
		}
		fa, ok := st.Addr.(*ssa.FieldAddr)
		if !ok || an.FieldName(fa.X.Type(), fa.Field) != "Alias" {
			return
		}
		if s, ok := an.ConstString(st.Val); ok && s == "__typename" {
			stores = append(stores, i)
		}
	})
	emitsTypeStep := false
	an.Instrs(fn, func(i ssa.Instruction) {
		st, ok := i.(*ssa.Store)
		if !ok {
			return
		}
		if fa, ok := st.Addr.(*ssa.FieldAddr); ok && an.FieldName(fa.X.Type(), fa.Field) == "Kind" {
			if n := an.NamedOf(st.Val.Type()); n != nil && n.Obj().Name() == "StepKind" {
				emitsTypeStep = true
				o.Site(i)
			}
		}
	})
	if !emitsTypeStep {
		o.Note("planUnion emits no type steps")
	}
	if len(stores) == 0 {
		o.Fail(c.P.Pos(fn.Pos()), "planUnion no longer adds a __typename selection: type steps of sub-plans below a union cannot be resolved by extractKeys")
		return
	}
	for _, e := range an.Exits(fn, false) {
		ret := e.(*ssa.Return)
		if len(ret.Results) > 0 && isConstNil(ret.Results[0]) {
			continue
		}
		ok := false
		for _, s := range stores {
			if s.Block().Dominates(e.Block()) {
				ok = true
				o.Site(s)
			}
		}
		if !ok {
			o.FailAt(e, "planUnion can return a plan whose selection set has no implicit __typename (it is added only under a condition): a sub-plan below a union fragment carries a type step, and extractKeys fails with a missing __typename when the query did not select it itself")
		}
	}
}

// ruleMatcherKeyAgreement (C10): the row matcher files a filter under
// MakeHashable(extractValuesTuple(filter, columns)) and looks a row up under
// the same function of the row, in every group.
func ruleMatcherKeyAgreement(c *an.Ctx, o *an.O) {
	isQBT := func(v ssa.Value) bool { return an.IsFieldAccess(v, "matcherGroup", "queriesByTuple") }
	keyShape := func(k ssa.Value) (subject, cols ssa.Value, ok bool) {
		mh, ok1 := k.(*ssa.Call)
		if !ok1 {
			return nil, nil, false
		}
		f := an.CalleeFunc(&mh.Call)
		if f == nil || f.Name() != "MakeHashable" || len(mh.Call.Args) != 1 {
			return nil, nil, false
		}
		ex, ok2 := mh.Call.Args[0].(*ssa.Call)
		if !ok2 || !an.Mod(sg, "", "extractValuesTuple").Matches(ex.Common()) {
			return nil, nil, false
		}
		return ex.Call.Args[0], ex.Call.Args[1], true
	}
	// match
	fn := c.NeedFunc(sg, "(*matcher).match")
	n := 0
	an.Instrs(fn, func(i ssa.Instruction) {
		lk, ok := i.(*ssa.Lookup)
		if !ok || !isQBT(lk.X) {
			return
		}
		n++
		o.Site(i)
		subj, cols, ok := keyShape(lk.Index)
		if !ok {
			o.FailAt(i, "matcher.match probes a group with %s, not with MakeHashable(extractValuesTuple(row, group.columns)) as matcher.add files the filters: rows whose values the other derivation treats differently (NULL columns) are delivered to no caller", an.Short(an.Expr(lk.Index), 80))
			return
		}
		if an.StripConv(subj) != ssa.Value(fn.Params[1]) {
			o.FailAt(i, "matcher.match builds the lookup key from %s, not from the row it was given", an.Expr(subj))
		}
		if !an.IsFieldAccess(cols, "matcherGroup", "columns") {
			o.FailAt(i, "matcher.match builds the lookup key with %s, not the probed group's own columns", an.Expr(cols))
		}
		h := an.LoopHeaderOf(i)
		if h == nil {
			o.FailAt(i, "matcher.match does not probe the groups in a loop")
		} else if loopCanSkip(fn, h, []ssa.Instruction{i}) {
			o.FailAt(i, "matcher.match can skip a group without probing it: filters of that shape get no rows under batching")
		}
	})
	if n == 0 {
		o.Fail(c.P.Pos(fn.Pos()), "matcher.match no longer looks rows up in queriesByTuple")
	}
	// add
	add := c.NeedFunc(sg, "(*matcher).add")
	m := 0
	an.Instrs(add, func(i ssa.Instruction) {
		mu, ok := i.(*ssa.MapUpdate)
		if !ok || !isQBT(mu.Map) {
			return
		}
		m++
		o.Site(i)
		subj, _, ok := keyShape(mu.Key)
		if !ok {
			o.FailAt(i, "matcher.add files a filter under %s, not under MakeHashable(extractValuesTuple(filter, columns))", an.Short(an.Expr(mu.Key), 80))
			return
		}
		if an.StripConv(subj) != ssa.Value(add.Params[2]) {
			o.FailAt(i, "matcher.add builds the key from %s, not from the filter", an.Expr(subj))
		}
	})
	if m == 0 {
		o.Fail(c.P.Pos(add.Pos()), "matcher.add no longer files filters in queriesByTuple")
	}
}

// ruleOwnParsedQuery (C02): the query a subscription (or mutation) executes is
// the result of parsing this message's own text with this message's own
// variables - variables are bound at parse time, so a parsed query kept from
// another message answers for that message's variables.
func ruleOwnParsedQuery(c *an.Ctx, o *an.O) {
	for _, name := range []string{"(*conn).handleSubscribe", "(*conn).handleMutate"} {
		fn := c.NeedFunc(gq, name)
		found := 0
		var check func(v ssa.Value, at ssa.Instruction, seen map[ssa.Value]bool)
		check = func(v ssa.Value, at ssa.Instruction, seen map[ssa.Value]bool) {
			if seen[v] {
				return
			}
			seen[v] = true
			switch x := v.(type) {
			case *ssa.Phi:
				for _, e := range x.Edges {
					check(e, at, seen)
				}
				return
			case *ssa.Const:
				if x.IsNil() {
					return
				}
			case *ssa.Extract:
				if call, ok := x.Tuple.(*ssa.Call); ok && x.Index == 0 && an.Mod(gq, "", "Parse").Matches(call.Common()) {
					found++
					o.Site(call)
					a0, a1 := call.Call.Args[0], call.Call.Args[1]
					msg := func(v ssa.Value, field string) bool {
						return an.IsFieldAccess(v, "subscribeMessage", field) || an.IsFieldAccess(v, "mutateMessage", field)
					}
					if !msg(a0, "Query") || !msg(a1, "Variables") {
						o.FailAt(call, "%s parses (%s, %s), not this message's Query and Variables", name, an.Short(an.Expr(a0), 40), an.Short(an.Expr(a1), 40))
					}
					return
				}
			}
			o.FailAt(at, "%s can execute a parsed query that is %s, not the result of parsing this message's text with this message's variables: variables are bound when parsing, so the client would be sent another request's result", name, an.Short(an.Expr(v), 80))
		}
		// the ParsedQuery handed to the middlewares / executor
		for _, f := range an.WithAnons(fn) {
			for _, lit := range an.StructLits(f, "ComputationInput") {
				v, ok := lit.Fields["ParsedQuery"]
				if !ok {
					continue
				}
				// closure variable -> cell in the parent -> values stored there
				vals := []ssa.Value{v}
				if ld, ok := v.(*ssa.UnOp); ok && ld.Op == token.MUL {
					var cell ssa.Value
					switch a := ld.X.(type) {
					case *ssa.FreeVar:
						for _, g := range an.WithAnons(fn) {
							an.Instrs(g, func(i ssa.Instruction) {
								if mc, ok := i.(*ssa.MakeClosure); ok {
									if cl, ok := mc.Fn.(*ssa.Function); ok {
										for k, fv := range cl.FreeVars {
											if fv == a && k < len(mc.Bindings) {
												cell = mc.Bindings[k]
											}
										}
									}
								}
							})
						}
					case *ssa.Alloc:
						cell = a
					}
					if cell != nil {
						vals = nil
						if refs := cell.Referrers(); refs != nil {
							for _, r := range *refs {
								if st, ok := r.(*ssa.Store); ok && st.Addr == cell {
									vals = append(vals, st.Val)
								}
							}
						}
					}
				}
				for _, val := range vals {
					check(val, lit.Alloc, map[ssa.Value]bool{})
				}
			}
		}
		if found == 0 && !o.Failed() {
			o.Fail(c.P.Pos(fn.Pos()), "%s: cannot find the Parse call whose result is handed to the executor as ParsedQuery", name)
		}
	}
}

// ruleEveryVersionMerged (C09): processSchemaVersions hands every version of
// every service to the intersection: the collecting loops append on every
// iteration (a version left out widens the merged schema beyond what that
// version can execute).
func ruleEveryVersionMerged(c *an.Ctx, o *an.O) {
	fn := c.NeedFunc(fed, "processSchemaVersions")
	n := 0
	an.Instrs(fn, func(i ssa.Instruction) {
		call, ok := i.(*ssa.Call)
		if !ok {
			return
		}
		b, ok := call.Call.Value.(*ssa.Builtin)
		if !ok || b.Name() != "append" {
			return
		}
		h := an.LoopHeaderOf(i)
		if h == nil {
			return
		}
		n++
		o.Site(i)
		if loopCanSkip(fn, h, []ssa.Instruction{i}) {
			what := "an entry"
			if strings.Contains(call.Type().String(), "IntrospectionQueryResult") {
				what = "a schema version"
			}
			o.FailAt(i, "processSchemaVersions can skip %s while collecting (%s): a live version that is left out of the intersection is not guaranteed to execute what the merged schema accepts", what, an.Short(an.Expr(call), 70))
		}
	})
	if n < 3 {
		o.Fail(c.P.Pos(fn.Pos()), "processSchemaVersions: expected the three collecting loops (services, version names, version schemas), found %d appends in loops", n)
	}
}

// ruleRunnerRegisteredBeforeItCanClose (C16, C17): the first computation of a
// subscription may fail at once and then closes the subscription by id from
// another goroutine (closeSubscription takes c.mu). That close must find the
// runner: NewRerunner is called and its result stored in c.subscriptions within
// one critical section of c.mu.
func ruleRunnerRegisteredBeforeItCanClose(c *an.Ctx, o *an.O) {
	fn := c.NeedFunc(gq, "(*conn).handleSubscribe")
	ls := an.ComputeLocks(fn, nil)
	news := an.Calls(fn, an.Mod(rx, "", "NewRerunner"))
	var ins []ssa.Instruction
	for _, op := range subscriptionOps(fn) {
		if op.kind == "insert" {
			ins = append(ins, op.instr)
		}
	}
	if len(news) != 1 || len(ins) != 1 {
		o.Fail(c.P.Pos(fn.Pos()), "handleSubscribe: expected one NewRerunner call and one insert into c.subscriptions, found %d / %d", len(news), len(ins))
		return
	}
	o.Site(news[0])
	o.Site(ins[0])
	mu := ""
	for h := range ls.HeldAt(news[0]) {
		if strings.HasSuffix(h, ".mu") {
			mu = h
		}
	}
	if mu == "" {
		o.FailAt(news[0], "the rerunner is started without the connection mutex held: its first computation can fail and run closeSubscription(id) before the runner is stored under that id, so the failed subscription is never closed, keeps its id (duplicate subscription) and counts towards the limit")
		return
	}
	if !ls.SameSection(news[0], ins[0], mu) {
		o.FailAt(ins[0], "the rerunner is started in one critical section of %s and stored in c.subscriptions in another: a first computation that fails in between closes nothing, and the dead subscription stays registered", mu)
	}
}

// ruleSingleRunnerRegistry (C17): subscriptions and in-flight mutations are
// registered under client-chosen ids in one map; closeSubscription(id) is the
// single way either ends. A second registry of rerunners splits the id space:
// the duplicate-id test of one message kind no longer sees the other kind, and
// the shared close path ends whatever carries that id in both.
func ruleSingleRunnerRegistry(c *an.Ctx, o *an.O) {
	fn := c.NeedFunc(gq, "(*conn).closeSubscription")
	recv := fn.Params[0].Type()
	n := an.NamedOf(recv)
	if n == nil {
		o.Undecided("closeSubscription has no named receiver")
		return
	}
	st, ok := n.Underlying().(*types.Struct)
	if !ok {
		o.Undecided("conn is not a struct")
		return
	}
	var regs []string
	for k := 0; k < st.NumFields(); k++ {
		f := st.Field(k)
		if strings.Contains(f.Type().String(), "reactive.Rerunner") {
			regs = append(regs, f.Name())
		}
	}
	o.SitePos(c.P.Pos(n.Obj().Pos()))
	if len(regs) != 1 {
		o.Fail(c.P.Pos(n.Obj().Pos()), "conn keeps rerunners in %d fields (%s): ids of subscriptions and mutations no longer share one registry, so a message reusing a live id is not rejected as duplicate and the shared close path ends a request the client did not end", len(regs), strings.Join(regs, ", "))
	}
}

// rulePtrParserAlwaysSets (C18): once the inner parser of a pointer argument
// accepted the value, the destination is set to the new pointer on every path -
// a sent zero value (false, 0, "") is still a sent value.
func rulePtrParserAlwaysSets(c *an.Ctx, o *an.O) {
	outer := c.NeedFunc("graphql/schemabuilder", "wrapPtrParser")
	n := 0
	for _, fn := range an.WithAnons(outer) {
		if fn == outer || len(fn.Params) < 2 {
			continue
		}
		dest := fn.Params[len(fn.Params)-1]
		var sets []ssa.Instruction
		var inner []ssa.Instruction
		an.Instrs(fn, func(i ssa.Instruction) {
			cc := an.CallOf(i)
			if cc == nil {
				return
			}
			if f := an.CalleeFunc(cc); f != nil && f.Name() == "Set" && len(cc.Args) == 2 && cc.Args[0] == ssa.Value(dest) {
				sets = append(sets, i)
				return
			}
			if !cc.IsInvoke() && cc.StaticCallee() == nil && an.IsFieldAccess(cc.Value, "argParser", "FromJSON") {
				inner = append(inner, i)
			}
		})
		if len(inner) == 0 {
			continue
		}
		n++
		o.Site(inner[0])
		if len(sets) == 0 {
			o.FailAt(inner[0], "the pointer parser never stores the parsed value in its destination")
			continue
		}
		exits := an.Exits(fn, false)
		for _, call := range inner {
			for _, e := range an.ErrResult(call.(ssa.Value)) {
				for _, nt := range an.NilTests(fn, e) {
					start := nt.NilSucc.Instrs[0]
					isSet := false
					for _, s := range sets {
						if s == start {
							isSet = true
						}
					}
					if isSet {
						continue
					}
					if bad := an.ReachableAvoiding(fn, start, an.NewBlocker(sets...), exits); bad != nil {
						o.FailAt(bad, "after the inner parser accepted the value the pointer parser can return without setting its destination: a sent value (for instance an explicit false, 0 or \"\") reaches the resolver as nil, as if it had been left out")
					}
				}
			}
		}
	}
	if n == 0 {
		o.Fail(c.P.Pos(outer.Pos()), "wrapPtrParser: cannot find the closure that calls the inner parser")
	}
}

// ruleNonNullResultTable (C14): the field-function adapter turns a nil pointer
// returned for a NonNull field into an error, whatever the wrapped type is.
// Evaluated with BoolSim under (return type is NonNull, result is a pointer,
// result is nil, no error returned): no success return may be reached.
func ruleNonNullResultTable(c *an.Ctx, o *an.O) {
	fn := c.NeedFunc("graphql/schemabuilder", "(*funcContext).extractResultAndErr")
	counts := map[string]int{}
	sim := &an.BoolSim{Fn: fn, Atom: func(v ssa.Value) (bool, bool) {
		switch x := v.(type) {
		case *ssa.Extract:
			if ta, ok := x.Tuple.(*ssa.TypeAssert); ok && ta.CommaOk && x.Index == 1 && strings.HasSuffix(ta.AssertedType.String(), "graphql.NonNull") {
				counts["nonnull"]++
				return true, true
			}
		case *ssa.Call:
			if f := an.CalleeFunc(&x.Call); f != nil && f.Name() == "IsNil" && f.Pkg() != nil && f.Pkg().Path() == "reflect" {
				counts["isnil"]++
				return true, true
			}
		case *ssa.BinOp:
			if x.Op == token.EQL || x.Op == token.NEQ {
				if call, ok := x.X.(*ssa.Call); ok {
					if f := an.CalleeFunc(&call.Call); f != nil && f.Name() == "Kind" && f.Pkg() != nil && f.Pkg().Path() == "reflect" {
						if n, ok := an.ConstInt(x.Y); ok && n == 22 { // reflect.Ptr
							counts["kind"]++
							return x.Op == token.EQL, true
						}
					}
				}
			}
		}
		return false, false
	}}
	reached := sim.Run()
	o.SitePos(c.P.Pos(fn.Pos()))
	if counts["nonnull"] == 0 || counts["isnil"] == 0 || counts["kind"] == 0 {
		o.Fail(c.P.Pos(fn.Pos()), "extractResultAndErr: the non-null guard (return type is NonNull, result is a nil pointer) was not recognised (NonNull test: %d, Kind()==Ptr: %d, IsNil: %d)", counts["nonnull"], counts["kind"], counts["isnil"])
		return
	}
	for _, e := range an.Exits(fn, false) {
		ret := e.(*ssa.Return)
		if !reached[ret.Block()] || len(ret.Results) != 2 {
			continue
		}
		o.Site(e)
		if isConstNil(ret.Results[1]) {
			o.FailAt(e, "a field function registered as NonNull that returns a nil pointer (and no error) can be delivered as a value: the response carries null where the schema advertises a non-null type (the guard depends on more than 'NonNull and nil pointer')")
		}
	}
}

// ruleMergedTypeRefIsBuilt (C09): every successful result of mergeTypeRefs is
// a reference built here or the result of the recursive merge - never one of
// the two inputs handed back unmerged (which would skip the nullability rule
// and the kind comparison for that level).
func ruleMergedTypeRefIsBuilt(c *an.Ctx, o *an.O) {
	fn := c.NeedFunc(fed, "mergeTypeRefs")
	var okVal func(v ssa.Value, seen map[ssa.Value]bool) (bool, ssa.Value)
	okVal = func(v ssa.Value, seen map[ssa.Value]bool) (bool, ssa.Value) {
		if seen[v] {
			return true, nil
		}
		seen[v] = true
		switch x := v.(type) {
		case *ssa.Alloc:
			return true, nil
		case *ssa.Const:
			return x.IsNil(), v
		case *ssa.Phi:
			for _, e := range x.Edges {
				if ok, bad := okVal(e, seen); !ok {
					return false, bad
				}
			}
			return true, nil
		case *ssa.Extract:
			if call, ok := x.Tuple.(*ssa.Call); ok && x.Index == 0 && call.Call.StaticCallee() != nil && call.Call.StaticCallee().Name() == fn.Name() {
				return true, nil
			}
		}
		return false, v
	}
	n := 0
	for _, e := range an.Exits(fn, false) {
		ret := e.(*ssa.Return)
		if len(ret.Results) != 2 || !isConstNil(ret.Results[1]) {
			continue
		}
		n++
		o.Site(e)
		if ok, bad := okVal(ret.Results[0], map[ssa.Value]bool{}); !ok {
			o.FailAt(e, "mergeTypeRefs can return %s as the merged type: one side is handed back unmerged, so nullability (required if any side requires it / non-null only if both are) and the kind comparison are skipped for it and the result depends on which version sorts first", an.Short(an.Expr(bad), 60))
		}
	}
	if n < 3 {
		o.Fail(c.P.Pos(fn.Pos()), "mergeTypeRefs: expected at least three successful returns (non-null wrapper, named type, list), found %d", n)
	}
}
