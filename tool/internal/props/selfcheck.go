package props

// SelfCheckCount is the number of positive controls that fired in SelfCheck.
var SelfCheckCount int

// SelfCheck runs the positive controls of the analysis primitives (fixtures
// compiled into the tool); see fixtures.go.
func SelfCheck() error { return runFixtures() }
