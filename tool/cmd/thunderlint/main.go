// thunderlint decides structural necessary conditions of the properties in
// /verif/properties.jsonl on the current source of /repo. See /verif/DESIGN.md.
package main

import (
	"encoding/json"
	"flag"
	"fmt"
	"os"
	"path/filepath"
	"sort"
	"strconv"
	"strings"
	"time"

	"thunderlint/internal/an"
	"thunderlint/internal/props"
)

func usage() {
	fmt.Fprintln(os.Stderr, `usage:
  thunderlint check  -prop C05 [-tier quick|thorough] [-repo /repo] [-verif /verif] [-overlay file=replacement ...] [-arch 386]
  thunderlint replay [-repo /repo] [-verif /verif] <violation.json>
  thunderlint list`)
	os.Exit(2)
}

type overlayFlag []string

func (o *overlayFlag) String() string     { return strings.Join(*o, ",") }
func (o *overlayFlag) Set(s string) error { *o = append(*o, s); return nil }

func main() {
	if len(os.Args) < 2 {
		usage()
	}
	switch os.Args[1] {
	case "check":
		os.Exit(cmdCheck(os.Args[2:]))
	case "replay":
		os.Exit(cmdReplay(os.Args[2:]))
	case "funcs":
		// prints the declared module functions: the baseline the inliner compares with
		repo := "/repo"
		if len(os.Args) > 2 {
			repo = os.Args[2]
		}
		p, err := an.Load(repo, nil, "")
		if err != nil {
			fmt.Fprintln(os.Stderr, "ERROR", err)
			os.Exit(2)
		}
		for _, n := range an.BaselineLines(p.Pkgs) {
			fmt.Println(n)
		}
	case "list":
		var ids []string
		for id := range props.Registry {
			ids = append(ids, id)
		}
		sort.Strings(ids)
		for _, id := range ids {
			fmt.Println(id)
		}
	default:
		usage()
	}
}

func loadOverlay(ov overlayFlag) (map[string][]byte, error) {
	if len(ov) == 0 {
		return nil, nil
	}
	m := map[string][]byte{}
	for _, s := range ov {
		i := strings.Index(s, "=")
		if i < 0 {
			return nil, fmt.Errorf("bad -overlay %q", s)
		}
		b, err := os.ReadFile(s[i+1:])
		if err != nil {
			return nil, err
		}
		m[s[:i]] = b
	}
	return m, nil
}

func cmdCheck(args []string) int {
	fs := flag.NewFlagSet("check", flag.ExitOnError)
	prop := fs.String("prop", "", "property id")
	tier := fs.String("tier", "quick", "quick|thorough")
	repo := fs.String("repo", "/repo", "repository to analyse")
	verif := fs.String("verif", "/verif", "verif directory (known findings, evidence, out)")
	arch := fs.String("arch", "", "GOARCH for loading")
	noEvidence := fs.Bool("no-evidence", false, "write evidence/violations under a temp dir (self-tests)")
	var ov overlayFlag
	fs.Var(&ov, "overlay", "abs-file=replacement-file (self-test variants)")
	fs.Parse(args)
	var ids []string
	if *prop == "all" {
		// one load, every property (used by the refactor / seed sweeps)
		for id := range props.Registry {
			ids = append(ids, id)
		}
		sort.Strings(ids)
	} else if _, ok := props.Registry[*prop]; ok {
		ids = []string{*prop}
	} else {
		fmt.Fprintf(os.Stderr, "ERROR unknown property %q\n", *prop)
		return 2
	}
	start := time.Now()
	overlay, err := loadOverlay(ov)
	if err != nil {
		fmt.Fprintln(os.Stderr, "ERROR", err)
		return 2
	}
	an.BaselineFile = filepath.Join(*verif, "baseline_funcs.txt")
	p, err := an.Load(*repo, overlay, *arch)
	if err != nil {
		fmt.Printf("ERROR property=%s cannot load %s: %v\n", *prop, *repo, err)
		return 2
	}
	findings, err := an.LoadFindings(filepath.Join(*verif, "known_findings.json"))
	if err != nil {
		fmt.Printf("ERROR property=%s known_findings.json: %v\n", *prop, err)
		return 2
	}
	if err := props.SelfCheck(); err != nil {
		fmt.Printf("ERROR property=%s positive controls: %v\n", *prop, err)
		return 2
	}
	outDir := *verif
	if *noEvidence {
		outDir, _ = os.MkdirTemp("", "thunderlint-out")
		defer os.RemoveAll(outDir)
	}
	worst := 0
	for _, id := range ids {
		rc := runProperty(p, id, *tier, *arch, outDir, findings, start)
		if rc == 1 || (rc == 2 && worst == 0) {
			worst = rc
		}
	}
	if af := os.Getenv("THUNDERLINT_ANCHORS"); af != "" {
		type anchor struct {
			Pkg, Name, File string
			Start, End      int
		}
		var out []anchor
		for f := range p.Anchors {
			syn := f.Syntax()
			if syn == nil {
				continue
			}
			a, b := p.Fset.Position(syn.Pos()), p.Fset.Position(syn.End())
			out = append(out, anchor{an.RelPkg(f), an.QualName(f), a.Filename, a.Line, b.Line})
		}
		sort.Slice(out, func(i, j int) bool {
			if out[i].File != out[j].File {
				return out[i].File < out[j].File
			}
			return out[i].Start < out[j].Start
		})
		b, _ := json.MarshalIndent(out, "", " ")
		os.WriteFile(af, b, 0o644)
	}
	return worst
}

func runProperty(p *an.Prog, id, tier, goarch, outDir string, findings []an.Finding, start time.Time) (rc int) {
	prop, arch := &id, &goarch
	seed, _ := strconv.ParseInt(os.Getenv("VERIF_SEED"), 10, 64)
	ctx := &an.Ctx{P: p, Property: id, Tier: tier}
	func() {
		defer func() {
			if r := recover(); r != nil {
				fmt.Printf("ERROR property=%s checker stopped: %v\n", id, r)
				rc = 2
			}
		}()
		p.Anchors = nil
		props.Registry[id](ctx)
		props.GenericRules(ctx)
	}()
	if rc != 0 {
		return rc
	}
	extra := map[string]interface{}{"goarch": *arch, "positive_controls": props.SelfCheckCount}
	if len(p.Renamed) > 0 {
		extra["renames_undone_in_memory"] = p.Renamed
	}
	if p.Inlined != nil {
		extra["inlined_helper_call_sites"] = p.Inlined.Sites
		if p.Inlined.Sites > 0 {
			extra["inlined_helpers"] = p.Inlined.Callees
			extra["inlined_into"] = p.Inlined.Changed
		}
		if len(p.Inlined.Kept) > 0 {
			extra["helpers_not_or_not_only_inlined"] = p.Inlined.Kept
		}
	}
	if es := os.Getenv("THUNDERLINT_EXTRA"); es != "" {
		var m map[string]interface{}
		if json.Unmarshal([]byte(es), &m) == nil {
			for k, v := range m {
				extra[k] = v
			}
		}
	}
	res := ctx.Finish(outDir, findings, start, seed, extra)
	for _, l := range res.Lines {
		fmt.Println(l)
	}
	holds := 0
	for _, o := range ctx.Obls {
		if o.Status == an.Holds {
			holds++
		}
	}
	fmt.Printf("property=%s tier=%s obligations=%d hold=%d known=%d violations=%d undecided=%d packages=%d wall=%.1fs\n",
		*prop, tier, len(ctx.Obls), holds, res.Known, res.Violations, res.Undecided, len(p.Pkgs), time.Since(start).Seconds())
	if res.Violations > 0 {
		return 1
	}
	if res.Undecided > 0 {
		return 2
	}
	return 0
}

func cmdReplay(args []string) int {
	fs := flag.NewFlagSet("replay", flag.ExitOnError)
	repo := fs.String("repo", "/repo", "repository to analyse")
	verif := fs.String("verif", "/verif", "")
	fs.Parse(args)
	an.BaselineFile = filepath.Join(*verif, "baseline_funcs.txt")
	if fs.NArg() != 1 {
		usage()
	}
	b, err := os.ReadFile(fs.Arg(0))
	if err != nil {
		fmt.Fprintln(os.Stderr, "ERROR", err)
		return 2
	}
	var want an.Obl
	if err := json.Unmarshal(b, &want); err != nil {
		fmt.Fprintln(os.Stderr, "ERROR", err)
		return 2
	}
	fn, ok := props.Registry[want.Property]
	if !ok {
		fmt.Fprintln(os.Stderr, "ERROR unknown property", want.Property)
		return 2
	}
	p, err := an.Load(*repo, nil, "")
	if err != nil {
		fmt.Println("ERROR cannot load:", err)
		return 2
	}
	ctx := &an.Ctx{P: p, Property: want.Property, Tier: "replay"}
	fn(ctx)
	for _, o := range ctx.Obls {
		if o.Key() != want.Key() {
			continue
		}
		fmt.Printf("obligation %s / %s / %s: %s\n", o.Property, o.Rule, o.Construct, o.Status)
		if o.Status != an.Holds {
			fmt.Printf("  at %s: %s\n", o.Pos, o.Msg)
		}
		if o.Status == an.Violated {
			fmt.Printf("VIOLATION property=%s replay=%s\n", o.Property, fs.Arg(0))
			return 1
		}
		if o.Status == an.Undecided {
			return 2
		}
		return 0
	}
	fmt.Println("ERROR obligation no longer exists:", want.Key())
	return 2
}
