package main

import (
	"fmt"
	"os"
	"strings"

	"golang.org/x/tools/go/ssa"

	"thunderlint/internal/an"
)

// cmdDump prints a function's SSA with the checker's renderings (debug aid).
func cmdDump(args []string) int {
	repo := "/repo"
	if len(args) > 1 {
		repo = args[1]
	}
	if bf := os.Getenv("THUNDERLINT_BASELINE"); bf != "" {
		an.BaselineFile = bf
	} else if _, err := os.Stat("/verif/baseline_funcs.txt"); err == nil {
		an.BaselineFile = "/verif/baseline_funcs.txt"
	}
	p, err := an.Load(repo, nil, "")
	if err != nil {
		fmt.Println(err)
		return 2
	}
	parts := strings.SplitN(args[0], ":", 2)
	fn := p.Func(parts[0], parts[1])
	if fn == nil {
		fmt.Println("not found")
		return 2
	}
	for _, f := range an.WithAnons(fn) {
		fmt.Printf("== %s (%s)\n", an.QualName(f), p.Pos(f.Pos()))
		ls := an.ComputeLocks(f, nil)
		for _, b := range f.Blocks {
			fmt.Printf(" b%d %s guards=%v\n", b.Index, b.Comment, an.GuardStrings(b))
			for _, i := range b.Instrs {
				held := ""
				for h := range ls.HeldAt(i) {
					held += " " + h
				}
				s := i.String()
				if v, ok := i.(ssa.Value); ok {
					s = v.Name() + " = " + s + "    // " + an.Expr(v)
				}
				fmt.Printf("    %-90s [%s] %s\n", s, strings.TrimSpace(held), p.InstrPos(i))
			}
		}
	}
	return 0
}

// cmdAlias runs the slice-ownership lint over every module function (debug aid).
func cmdAlias(args []string) int {
	repo := "/repo"
	if len(args) > 0 {
		repo = args[0]
	}
	if _, err := os.Stat("/verif/baseline_funcs.txt"); err == nil {
		an.BaselineFile = "/verif/baseline_funcs.txt"
	}
	p, err := an.Load(repo, nil, "")
	if err != nil {
		fmt.Println(err)
		return 2
	}
	n := 0
	for _, fn := range p.ModuleFuncs(nil) {
		if strings.HasSuffix(p.Fset.Position(fn.Pos()).Filename, "_test.go") {
			continue
		}
		for _, f := range append(an.AliasLints(fn), an.OrderLints(fn)...) {
			n++
			fmt.Printf("%s %s: %s\n", p.InstrPos(f.Instr), an.QualName(fn), f.Msg)
		}
	}
	fmt.Println("findings:", n)
	return 0
}

func init() {
	if len(os.Args) > 1 && os.Args[1] == "aliaslint" {
		os.Exit(cmdAlias(os.Args[2:]))
	}
	if len(os.Args) > 1 && os.Args[1] == "dump" {
		os.Exit(cmdDump(os.Args[2:]))
	}
}
