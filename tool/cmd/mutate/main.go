// mutate generates small source mutants of the functions the rule tables are
// anchored in (a self-audit of the checker: which realistic one-token or
// one-statement edits does no rule notice?). It writes one mutated copy of the
// file per mutant plus an index; nothing under /repo is modified.
//
//	mutate <anchors.json> <outdir>
package main

import (
	"bytes"
	"encoding/json"
	"fmt"
	"go/ast"
	"go/format"
	"go/parser"
	"go/token"
	"os"
	"path/filepath"
	"strconv"
)

type anchor struct {
	Pkg, Name, File string
	Start, End      int
}

type mutant struct {
	ID   int    `json:"id"`
	File string `json:"file"`
	Func string `json:"func"`
	Pkg  string `json:"pkg"`
	Line int    `json:"line"`
	Desc string `json:"desc"`
	Path string `json:"path"`
}

var swaps = map[token.Token][]token.Token{
	token.EQL: {token.NEQ}, token.NEQ: {token.EQL},
	token.LSS: {token.LEQ, token.GTR}, token.LEQ: {token.LSS},
	token.GTR: {token.GEQ, token.LSS}, token.GEQ: {token.GTR},
	token.LAND: {token.LOR}, token.LOR: {token.LAND},
	token.ADD: {token.SUB}, token.SUB: {token.ADD},
}

func main() {
	b, err := os.ReadFile(os.Args[1])
	if err != nil {
		panic(err)
	}
	var anchors []anchor
	json.Unmarshal(b, &anchors)
	out := os.Args[2]
	os.MkdirAll(out, 0o755)
	var idx []mutant
	id := 0
	byFile := map[string][]anchor{}
	var files []string
	for _, a := range anchors {
		if _, ok := byFile[a.File]; !ok {
			files = append(files, a.File)
		}
		byFile[a.File] = append(byFile[a.File], a)
	}
	for _, file := range files {
		fset := token.NewFileSet()
		f, err := parser.ParseFile(fset, file, nil, parser.ParseComments)
		if err != nil {
			panic(err)
		}
		emit := func(a anchor, pos token.Pos, desc string) {
			var buf bytes.Buffer
			if err := format.Node(&buf, fset, f); err != nil {
				return
			}
			id++
			p := filepath.Join(out, fmt.Sprintf("m%05d.go", id))
			os.WriteFile(p, buf.Bytes(), 0o644)
			idx = append(idx, mutant{id, file, a.Name, a.Pkg, fset.Position(pos).Line, desc, p})
		}
		for _, a := range byFile[file] {
			var fd *ast.FuncDecl
			for _, d := range f.Decls {
				if x, ok := d.(*ast.FuncDecl); ok && fset.Position(x.Pos()).Line == a.Start {
					fd = x
				}
			}
			if fd == nil || fd.Body == nil {
				continue
			}
			// statement lists (for deletions)
			ast.Inspect(fd.Body, func(n ast.Node) bool {
				var list *[]ast.Stmt
				switch x := n.(type) {
				case *ast.BlockStmt:
					list = &x.List
				case *ast.CaseClause:
					list = &x.Body
				case *ast.CommClause:
					list = &x.Body
				}
				if list != nil {
					for i, st := range *list {
						del := ""
						switch y := st.(type) {
						case *ast.ExprStmt:
							del = "delete call statement"
						case *ast.AssignStmt:
							if y.Tok != token.DEFINE {
								del = "delete assignment"
							}
						case *ast.IncDecStmt:
							del = "delete inc/dec"
						case *ast.BranchStmt:
							if y.Tok == token.CONTINUE || y.Tok == token.BREAK {
								del = "delete " + y.Tok.String()
							}
						case *ast.DeferStmt:
							del = "delete defer"
						case *ast.GoStmt:
							del = "delete go statement"
						case *ast.SendStmt:
							del = "delete channel send"
						}
						if del != "" {
							old := (*list)[i]
							(*list)[i] = &ast.EmptyStmt{Semicolon: old.Pos(), Implicit: false}
							emit(a, old.Pos(), del)
							(*list)[i] = old
						}
					}
				}
				switch x := n.(type) {
				case *ast.BinaryExpr:
					for _, nt := range swaps[x.Op] {
						old := x.Op
						x.Op = nt
						emit(a, x.OpPos, old.String()+" -> "+nt.String())
						x.Op = old
					}
				case *ast.IfStmt:
					old := x.Cond
					x.Cond = &ast.UnaryExpr{Op: token.NOT, X: &ast.ParenExpr{X: old}}
					emit(a, old.Pos(), "negate if condition")
					x.Cond = old
				case *ast.ForStmt:
					if x.Cond != nil {
						if be, ok := x.Cond.(*ast.BinaryExpr); ok && be.Op == token.LSS {
							_ = be // covered by the operator swap
						}
					}
				case *ast.BasicLit:
					if x.Kind == token.INT {
						if v, err := strconv.Atoi(x.Value); err == nil && v <= 2 {
							old := x.Value
							x.Value = strconv.Itoa(v + 1)
							emit(a, x.Pos(), old+" -> "+x.Value)
							if v > 0 {
								x.Value = strconv.Itoa(v - 1)
								emit(a, x.Pos(), old+" -> "+x.Value)
							}
							x.Value = old
						}
					}
				case *ast.Ident:
					if x.Name == "true" || x.Name == "false" {
						old := x.Name
						if old == "true" {
							x.Name = "false"
						} else {
							x.Name = "true"
						}
						emit(a, x.Pos(), old+" -> "+x.Name)
						x.Name = old
					}
				case *ast.UnaryExpr:
					if x.Op == token.NOT {
						// handled by replacing the operand in the parent is awkward; flip via double negation
						old := x.X
						x.X = &ast.UnaryExpr{Op: token.NOT, X: &ast.ParenExpr{X: old}}
						emit(a, x.Pos(), "drop negation")
						x.X = old
					}
				}
				return true
			})
		}
	}
	jb, _ := json.MarshalIndent(idx, "", " ")
	os.WriteFile(filepath.Join(out, "index.json"), jb, 0o644)
	fmt.Println("mutants:", len(idx))
}
